//! C10 (EIP-214, static mode) through a real Interpreter with `DummyHost`; `is_static` and `is_eof` range over
//! {false, true}. Oracle (units/prelude/static_common.rs.in):
//!  * SSTORE TSTORE LOGn SELFDESTRUCT CREATE CREATE2 EOFCREATE in a static frame: StateChangeDuringStaticCall and NOTHING
//!    else of the frame changes (gas, stack, pending action);
//!  * CALL / EXTCALL with a non-zero value in a static frame: CallNotAllowedInsideStatic and no action;
//!  * every call handed to the EVM has `is_static == frame.is_static || instruction is (EXT)STATICCALL`, the scheme of its
//!    instruction, and (CALL / EXTCALL) carries no ether when static; CALLCODE keeps the flag and may carry value;
//!  * outside a static frame none of them fails with a static-mode code (ample gas, small operands: they succeed).
//! Domain: forks from Cancun on, 10^7 gas, memory operands below 256 bytes.
use crate::core::*;
use revm_interpreter::instructions::{contract as ci, host as hi};
use revm_interpreter::{CallValue, Contract, DummyHost, Interpreter, InterpreterAction};
use revm_primitives::{SpecId, U256};

type IFn = fn(&mut Interpreter, &mut DummyHost);

const GAS: u64 = 10_000_000;

#[derive(Clone, Copy, PartialEq, Debug)]
enum K {
    Call,
    CallCode,
    DelegateCall,
    StaticCall,
    ExtCall,
    ExtDelegateCall,
    ExtStaticCall,
    Create,
    Create2,
    EofCreate,
    Sstore,
    Tstore,
    Log(u8),
    Selfdestruct,
}

fn real(k: K, s: SpecId) -> IFn {
    use revm_primitives::spec_to_generic as g;
    match k {
        K::Call => g!(s, ci::call::<DummyHost, SPEC>),
        K::CallCode => g!(s, ci::call_code::<DummyHost, SPEC>),
        K::DelegateCall => g!(s, ci::delegate_call::<DummyHost, SPEC>),
        K::StaticCall => g!(s, ci::static_call::<DummyHost, SPEC>),
        K::ExtCall => g!(s, ci::extcall::<DummyHost, SPEC>),
        K::ExtDelegateCall => g!(s, ci::extdelegatecall::<DummyHost, SPEC>),
        K::ExtStaticCall => ci::extstaticcall::<DummyHost>,
        K::Create => g!(s, ci::create::<false, DummyHost, SPEC>),
        K::Create2 => g!(s, ci::create::<true, DummyHost, SPEC>),
        K::EofCreate => ci::eofcreate::<DummyHost>,
        K::Sstore => g!(s, hi::sstore::<DummyHost, SPEC>),
        K::Tstore => g!(s, hi::tstore::<DummyHost, SPEC>),
        K::Log(0) => hi::log::<0, DummyHost>,
        K::Log(1) => hi::log::<1, DummyHost>,
        K::Log(2) => hi::log::<2, DummyHost>,
        K::Log(3) => hi::log::<3, DummyHost>,
        K::Log(_) => hi::log::<4, DummyHost>,
        K::Selfdestruct => g!(s, hi::selfdestruct::<DummyHost, SPEC>),
    }
}

// args: is_static, is_eof, value, target, gas_arg, off_a, len_a, off_b, len_b, spec
struct P {
    is_static: bool,
    is_eof: bool,
    value: U256,
    target: U256,
    gas_arg: U256,
    off_a: u64,
    len_a: u64,
    off_b: u64,
    len_b: u64,
    spec: SpecId,
}
fn parse(a: &[Val]) -> P {
    P { is_static: a[0].b(), is_eof: a[1].b(), value: a[2].w(), target: a[3].w(), gas_arg: a[4].w(), off_a: a[5].u64(), len_a: a[6].u64(), off_b: a[7].u64(), len_b: a[8].u64(), spec: a[9].s() }
}

/// the stack before the instruction, bottom first (the first operand popped is last)
fn stack_for(k: K, p: &P) -> Vec<U256> {
    let u = U256::from;
    let mut top_first: Vec<U256> = match k {
        K::Call | K::CallCode => vec![p.gas_arg, p.target, p.value, u(p.off_a), u(p.len_a), u(p.off_b), u(p.len_b)],
        K::DelegateCall | K::StaticCall => vec![p.gas_arg, p.target, u(p.off_a), u(p.len_a), u(p.off_b), u(p.len_b)],
        K::ExtCall => vec![p.target, u(p.off_a), u(p.len_a), p.value],
        K::ExtDelegateCall | K::ExtStaticCall => vec![p.target, u(p.off_a), u(p.len_a)],
        K::Create => vec![p.value, u(p.off_a), u(p.len_a)],
        K::Create2 => vec![p.value, u(p.off_a), u(p.len_a), p.gas_arg],
        K::EofCreate => vec![p.value, p.gas_arg, u(p.off_a), u(p.len_a)],
        K::Sstore | K::Tstore => vec![p.target, p.value],
        K::Log(n) => {
            let mut v = vec![u(p.off_a), u(p.len_a)];
            for i in 0..n {
                v.push(p.target.wrapping_add(u(i as u64)));
            }
            v
        }
        K::Selfdestruct => vec![p.target],
    };
    top_first.push(U256::from(0xF111E5u64)); // one word beneath the operands
    top_first.reverse();
    top_first
}

fn fmt_result(result: &str, action: &str, untouched: &str) -> String {
    format!("result={} action={} frame_untouched={}", result, action, untouched)
}
fn call_action(scheme: &str, is_static: bool, value: &str) -> String {
    format!("Call{{scheme={} is_static={} value={}}}", scheme, is_static, value)
}

fn expected(k: K, a: &[Val]) -> Option<String> {
    let p = parse(a);
    if !ge(p.spec, SpecId::CANCUN) || p.off_a + p.len_a > 256 || p.off_b + p.len_b > 256 {
        return None;
    }
    let ext = matches!(k, K::ExtCall | K::ExtDelegateCall | K::ExtStaticCall | K::EofCreate);
    if ext && !p.is_eof {
        return Some(fmt_result("EOFOpcodeDisabledInLegacy", "None", "n/a"));
    }
    let addr_ok = (p.target >> 160usize).is_zero();
    let transfer = |v: U256| format!("Transfer({:#x})", v);
    Some(match k {
        K::Sstore | K::Tstore | K::Log(_) | K::Selfdestruct | K::Create | K::Create2 | K::EofCreate => {
            if p.is_static {
                fmt_result("StateChangeDuringStaticCall", "None", "true")
            } else {
                match k {
                    K::EofCreate => return None, // needs an EOF container with sub-containers: outside this generator
                    K::Create | K::Create2 => fmt_result("CallOrCreate", "Create", "n/a"),
                    K::Selfdestruct => fmt_result("SelfDestruct", "None", "n/a"),
                    _ => fmt_result("Continue", "None", "n/a"),
                }
            }
        }
        K::Call => {
            if p.is_static && !p.value.is_zero() {
                fmt_result("CallNotAllowedInsideStatic", "None", "n/a")
            } else {
                fmt_result("CallOrCreate", &call_action("Call", p.is_static, &transfer(p.value)), "n/a")
            }
        }
        K::CallCode => fmt_result("CallOrCreate", &call_action("CallCode", p.is_static, &transfer(p.value)), "n/a"),
        K::DelegateCall => fmt_result("CallOrCreate", &call_action("DelegateCall", p.is_static, "Apparent(0x0)"), "n/a"),
        K::StaticCall => fmt_result("CallOrCreate", &call_action("StaticCall", true, &transfer(U256::ZERO)), "n/a"),
        K::ExtCall | K::ExtDelegateCall | K::ExtStaticCall if !addr_ok => fmt_result("InvalidEXTCALLTarget", "None", "n/a"),
        K::ExtCall => {
            if p.is_static && !p.value.is_zero() {
                fmt_result("CallNotAllowedInsideStatic", "None", "n/a")
            } else {
                fmt_result("CallOrCreate", &call_action("ExtCall", p.is_static, &transfer(p.value)), "n/a")
            }
        }
        K::ExtDelegateCall => fmt_result("CallOrCreate", &call_action("ExtDelegateCall", p.is_static, "Apparent(0x0)"), "n/a"),
        K::ExtStaticCall => fmt_result("CallOrCreate", &call_action("ExtStaticCall", true, &transfer(U256::ZERO)), "n/a"),
    })
}

fn observed(k: K, a: &[Val]) -> String {
    let p = parse(a);
    let mut interp = Interpreter::new(Contract::default(), GAS, p.is_static);
    interp.is_eof = p.is_eof;
    let pre_stack = stack_for(k, &p);
    for w in &pre_stack {
        interp.stack.push(*w).expect("push");
    }
    let imm = [0u8; 4];
    if k == K::EofCreate {
        interp.instruction_pointer = imm.as_ptr();
    }
    let mut host = DummyHost::default();
    let f = real(k, p.spec);
    f(&mut interp, &mut host);
    let action = match &interp.next_action {
        InterpreterAction::None => "None".to_string(),
        InterpreterAction::Call { inputs } => call_action(
            &format!("{:?}", inputs.scheme),
            inputs.is_static,
            &match inputs.value {
                CallValue::Transfer(v) => format!("Transfer({:#x})", v),
                CallValue::Apparent(v) => format!("Apparent({:#x})", v),
            },
        ),
        InterpreterAction::Create { .. } => "Create".to_string(),
        InterpreterAction::EOFCreate { .. } => "EOFCreate".to_string(),
        InterpreterAction::Return { .. } => "Return".to_string(),
    };
    let res = format!("{:?}", interp.instruction_result);
    let untouched = if res == "StateChangeDuringStaticCall" {
        (interp.gas.remaining() == GAS && interp.gas.refunded() == 0 && interp.stack.data() == &pre_stack && interp.shared_memory.len() == 0 && interp.is_static == p.is_static && host.storage.is_empty() && host.transient_storage.is_empty() && host.log.is_empty()).to_string()
    } else {
        "n/a".to_string()
    };
    fmt_result(&res, &action, &untouched)
}

fn case_for(name: &'static str, aliases: &[&'static str], k: K) -> Case {
    let mut names = vec![name];
    names.extend_from_slice(aliases);
    let mk = |st: bool, eof: bool, v: U256, t: U256, g: U256, oa: u64, la: u64, ob: u64, lb: u64, s: SpecId| -> Args {
        vec![Val::B(st), Val::B(eof), Val::W(v), Val::W(t), Val::W(g), Val::U64(oa), Val::U64(la), Val::U64(ob), Val::U64(lb), Val::S(s)]
    };
    mk_case(
        &format!("static::{}", name),
        &names,
        false,
        vec![("is_static", Kind::B), ("is_eof", Kind::B), ("value", Kind::W), ("target_or_key", Kind::W), ("gas_or_salt", Kind::W), ("offset_a", Kind::U64), ("len_a", Kind::U64), ("offset_b", Kind::U64), ("len_b", Kind::U64), ("spec_id", Kind::S)],
        move || {
            let mut v = Vec::new();
            let vals = [U256::ZERO, U256::from(1), U256::from(1) << 255, U256::MAX];
            let targets = [U256::ZERO, U256::from(0xABCDu64), (U256::from(1) << 160) - U256::from(1), U256::from(1) << 160, U256::MAX];
            let gases = [U256::ZERO, U256::from(100_000u64), U256::from(u64::MAX), U256::MAX];
            for st in [true, false] {
                for eof in [false, true] {
                    for val in vals {
                        for t in targets {
                            for g in gases {
                                for (oa, la, ob, lb) in [(0u64, 0u64, 0u64, 0u64), (0, 32, 32, 32), (5, 60, 0, 0)] {
                                    for s in [SpecId::LATEST, SpecId::CANCUN, SpecId::PRAGUE, SpecId::OSAKA] {
                                        v.push(mk(st, eof, val, t, g, oa, la, ob, lb, s));
                                    }
                                }
                            }
                        }
                    }
                }
            }
            v
        },
        move |r| {
            let val = match r.below(3) {
                0 => U256::ZERO,
                _ => r.w(),
            };
            let t = if r.below(4) == 0 { r.w() } else { r.w() >> 96usize };
            mk(r.bool(), r.bool(), val, t, r.w(), r.below(100), r.below(100), r.below(100), r.below(100), r.pick(&[SpecId::LATEST, SpecId::CANCUN, SpecId::PRAGUE, SpecId::OSAKA]))
        },
        move |a| expected(k, a),
        move |a| observed(k, a),
    )
}

pub fn cases() -> Vec<Case> {
    vec![
        case_for("call", &["check_static_transfer"], K::Call),
        case_for("call_code", &[], K::CallCode),
        case_for("delegate_call", &[], K::DelegateCall),
        case_for("static_call", &[], K::StaticCall),
        case_for("extcall", &["check_static_transfer"], K::ExtCall),
        case_for("extdelegatecall", &[], K::ExtDelegateCall),
        case_for("extstaticcall", &[], K::ExtStaticCall),
        case_for("create", &[], K::Create),
        case_for("create2", &["create"], K::Create2),
        case_for("eofcreate", &[], K::EofCreate),
        case_for("sstore", &[], K::Sstore),
        case_for("tstore", &[], K::Tstore),
        case_for("log0", &["log"], K::Log(0)),
        case_for("log2", &["log"], K::Log(2)),
        case_for("log4", &["log"], K::Log(4)),
        case_for("selfdestruct", &[], K::Selfdestruct),
    ]
}
