//! C02 / C09 / C32 fee helpers of `Env` and C20 / C21 `CacheDB` reads.
//!  * effective_gas_price: EIP-1559 min(max_fee, base_fee + priority_fee) over mathematical integers (legacy: gas_price);
//!  * calc_data_fee / calc_max_data_fee: EIP-4844 price * 131072 * blobs, saturating at 2^256 - 1, None without a price;
//!  * CacheDB basic / storage / block_hash: operation sequences against a model "the cache answers like the database it
//!    wraps, except for what was inserted into it; a cleared or non-existing account has only zero slots".
use crate::core::*;
use revm::db::{CacheDB, DatabaseRef};
use revm::primitives::db::Database;
use revm::primitives::{AccountInfo, Address, BlobExcessGasAndPrice, Bytecode, Env, HashMap, B256, KECCAK_EMPTY, U256};
use std::convert::Infallible;

fn sat256(x: U512) -> U256 {
    if x > widen(U256::MAX) {
        U256::MAX
    } else {
        low256(x)
    }
}
fn opt_w(flag: bool, w: U256) -> Option<U256> {
    if flag {
        Some(w)
    } else {
        None
    }
}
fn fmt_opt(o: Option<U256>) -> String {
    match o {
        Some(v) => format!("Some({:#x})", v),
        None => "None".into(),
    }
}

// ---------------------------------------------------------------------------------- CacheDB

struct Inner;
fn ia(i: u64) -> Address {
    Address::with_last_byte(0x40 + i as u8)
}
fn inner_info(a: Address) -> Option<AccountInfo> {
    if a == ia(0) {
        Some(AccountInfo { balance: U256::from(5u64), nonce: 1, code_hash: KECCAK_EMPTY, code: None })
    } else if a == ia(1) {
        Some(AccountInfo { balance: U256::from(77u64), nonce: 0, code_hash: KECCAK_EMPTY, code: None })
    } else {
        None
    }
}
fn inner_storage(a: Address, k: U256) -> U256 {
    if a == ia(0) && k == U256::from(1u64) {
        U256::from(11u64)
    } else if a == ia(0) && k == U256::from(2u64) {
        U256::from(22u64)
    } else if a == ia(1) && k == U256::from(3u64) {
        U256::from(33u64)
    } else {
        U256::ZERO
    }
}
fn inner_hash(n: u64) -> B256 {
    let mut b = [0u8; 32];
    b[0] = 0xB1;
    b[24..].copy_from_slice(&(n.wrapping_mul(3).wrapping_add(1)).to_be_bytes());
    B256::from(b)
}
impl DatabaseRef for Inner {
    type Error = Infallible;
    fn basic_ref(&self, address: Address) -> Result<Option<AccountInfo>, Infallible> {
        Ok(inner_info(address))
    }
    fn code_by_hash_ref(&self, _h: B256) -> Result<Bytecode, Infallible> {
        Ok(Bytecode::default())
    }
    fn storage_ref(&self, address: Address, index: U256) -> Result<U256, Infallible> {
        Ok(inner_storage(address, index))
    }
    fn block_hash_ref(&self, number: u64) -> Result<B256, Infallible> {
        Ok(inner_hash(number))
    }
}

#[derive(Clone, Default)]
struct MAcc {
    info: Option<(U256, u64)>,
    slots: std::collections::HashMap<U256, U256>,
    cleared: bool,
}

/// ops: basic(i) storage(i,k) block_hash(n) insert_info(i,balance,nonce) insert_storage(i,k,v) replace_storage(i,k,v)
fn run_cache(ops: &str) -> Result<String, String> {
    let mut db = CacheDB::new(Inner);
    let mut model: std::collections::HashMap<Address, MAcc> = Default::default();
    let mut hashes: std::collections::HashMap<u64, B256> = Default::default();
    for (step, part) in ops.split(';').enumerate() {
        let p = part.trim();
        if p.is_empty() {
            continue;
        }
        let (name, rest) = p.split_once('(').ok_or_else(|| format!("bad operation {:?}", p))?;
        let args: Vec<u64> = rest.trim_end_matches(')').split(',').filter(|x| !x.trim().is_empty()).map(|x| x.trim().parse::<u64>().map_err(|_| format!("bad number in {:?}", p))).collect::<Result<_, _>>()?;
        let g = |i: usize| args.get(i).copied().unwrap_or(0);
        let a = ia(g(0));
        let load = |model: &mut std::collections::HashMap<Address, MAcc>| {
            model.entry(a).or_insert_with(|| {
                let info = inner_info(a).map(|i| (i.balance, i.nonce));
                MAcc { info, slots: Default::default(), cleared: info.is_none() }
            });
        };
        let fail = |what: String| Ok(format!("step {} `{}`: {}", step + 1, p, what));
        match name.trim() {
            "basic" => {
                load(&mut model);
                let exp = model[&a].info;
                let got = db.basic(a).unwrap().map(|i| (i.balance, i.nonce));
                if got != exp {
                    return fail(format!("returned {:?}, expected {:?}", got, exp));
                }
            }
            "storage" => {
                let k = U256::from(g(1));
                let exp = match model.get_mut(&a) {
                    Some(m) => match m.slots.get(&k) {
                        Some(v) => *v,
                        None if m.cleared => U256::ZERO,
                        None => {
                            let v = inner_storage(a, k);
                            m.slots.insert(k, v);
                            v
                        }
                    },
                    None => {
                        load(&mut model);
                        let m = model.get_mut(&a).unwrap();
                        if m.info.is_some() {
                            let v = inner_storage(a, k);
                            m.slots.insert(k, v);
                            v
                        } else {
                            U256::ZERO
                        }
                    }
                };
                let got = db.storage(a, k).unwrap();
                if got != exp {
                    return fail(format!("returned {}, expected {}", got, exp));
                }
            }
            "block_hash" => {
                let n = g(0);
                let exp = *hashes.entry(n).or_insert_with(|| inner_hash(n));
                let got = db.block_hash(n).unwrap();
                if got != exp {
                    return fail(format!("returned {}, expected {}", got, exp));
                }
            }
            "insert_info" => {
                if model.contains_key(&a) {
                    continue; // only for accounts the cache has not seen (an earlier non-existence mark would stay)
                }
                db.insert_account_info(a, AccountInfo { balance: U256::from(g(1)), nonce: g(2), code_hash: KECCAK_EMPTY, code: None });
                model.insert(a, MAcc { info: Some((U256::from(g(1)), g(2))), slots: Default::default(), cleared: false });
            }
            "insert_storage" => {
                load(&mut model);
                db.insert_account_storage(a, U256::from(g(1)), U256::from(g(2))).unwrap();
                model.get_mut(&a).unwrap().slots.insert(U256::from(g(1)), U256::from(g(2)));
            }
            "replace_storage" => {
                load(&mut model);
                if model[&a].info.is_none() {
                    continue; // on a non-existing account the cache's mark changes to StorageCleared and basic() answers Some(empty): not modelled
                }
                let mut h: HashMap<U256, U256> = HashMap::default();
                h.insert(U256::from(g(1)), U256::from(g(2)));
                db.replace_account_storage(a, h).unwrap();
                let m = model.get_mut(&a).unwrap();
                m.slots.clear();
                m.slots.insert(U256::from(g(1)), U256::from(g(2)));
                m.cleared = true;
            }
            other => return Err(format!("unknown operation {:?}", other)),
        }
    }
    Ok("ok".into())
}

fn rand_cache_ops(r: &mut Rng) -> String {
    let n = 2 + r.below(9);
    let mut v = Vec::new();
    for _ in 0..n {
        let i = r.below(4);
        let k = r.below(5);
        v.push(match r.below(9) {
            0 | 1 => format!("basic({})", i),
            2 | 3 | 4 => format!("storage({},{})", i, k),
            5 => format!("block_hash({})", r.pick(&[0u64, 1, 2, 255, 256, u64::MAX])),
            6 => format!("insert_info({},{},{})", i, r.below(1000), r.below(5)),
            7 => format!("insert_storage({},{},{})", i, k, r.below(100)),
            _ => format!("replace_storage({},{},{})", i, k, r.below(100)),
        });
    }
    v.join("; ")
}

pub fn cases() -> Vec<Case> {
    let mut out = Vec::new();
    let ws = || -> Vec<U256> { vec![U256::ZERO, U256::from(1), U256::from(9), U256::from(10), U256::from(11), U256::from(1) << 128, U256::MAX - U256::from(9), U256::MAX - U256::from(1), U256::MAX] };

    out.push(mk_case(
        "Env::effective_gas_price",
        &["effective_gas_price"],
        false,
        vec![("gas_price", Kind::W), ("has_priority_fee", Kind::B), ("gas_priority_fee", Kind::W), ("basefee", Kind::W)],
        move || {
            let mut v = Vec::new();
            for gp in ws() {
                for has in [false, true] {
                    for pf in ws() {
                        for bf in ws() {
                            v.push(vec![Val::W(gp), Val::B(has), Val::W(pf), Val::W(bf)]);
                        }
                    }
                }
            }
            v
        },
        |r| vec![Val::W(r.w()), Val::B(r.below(4) != 0), Val::W(r.w()), Val::W(r.w())],
        |a| {
            // EIP-1559: priority fee per gas = min(max_priority_fee, max_fee - base_fee); effective = base_fee + that
            //           = min(max_fee, base_fee + max_priority_fee) for max_fee >= base_fee; legacy: gas_price
            Some(format!(
                "{:#x}",
                if a[1].b() {
                    let sum = widen(a[3].w()) + widen(a[2].w());
                    if widen(a[0].w()) <= sum {
                        a[0].w()
                    } else {
                        low256(sum)
                    }
                } else {
                    a[0].w()
                }
            ))
        },
        |a| {
            let mut env = Env::default();
            env.tx.gas_price = a[0].w();
            env.tx.gas_priority_fee = opt_w(a[1].b(), a[2].w());
            env.block.basefee = a[3].w();
            format!("{:#x}", env.effective_gas_price())
        },
    ));

    let blob_env = |price: Option<u128>, max_fee: Option<U256>, blobs: u64| -> Env {
        let mut env = Env::default();
        env.block.blob_excess_gas_and_price = price.map(|p| BlobExcessGasAndPrice { excess_blob_gas: 0, blob_gasprice: p });
        env.tx.max_fee_per_blob_gas = max_fee;
        env.tx.blob_hashes = (0..blobs).map(|i| B256::with_last_byte(i as u8)).collect();
        env
    };
    out.push(mk_case(
        "Env::calc_data_fee",
        &["calc_data_fee", "get_blob_gasprice", "get_total_blob_gas"],
        false,
        vec![("has_blob_gasprice", Kind::B), ("blob_gasprice_hi", Kind::U64), ("blob_gasprice_lo", Kind::U64), ("blobs", Kind::U64)],
        || {
            let mut v = Vec::new();
            for has in [false, true] {
                for hi in [0u64, 1, u64::MAX] {
                    for lo in [0u64, 1, 2, u64::MAX] {
                        for b in [0u64, 1, 2, 6, 9] {
                            v.push(vec![Val::B(has), Val::U64(hi), Val::U64(lo), Val::U64(b)]);
                        }
                    }
                }
            }
            v
        },
        |r| vec![Val::B(r.below(5) != 0), Val::U64(if r.bool() { 0 } else { r.u64b() }), Val::U64(r.u64b()), Val::U64(r.below(10))],
        |a| {
            if !a[0].b() {
                return Some("None".into());
            }
            // EIP-4844: blob_gasprice * GAS_PER_BLOB (2^17) * len(blob_versioned_hashes)
            let price = ((a[1].u64() as u128) << 64) | a[2].u64() as u128;
            Some(fmt_opt(Some(sat256(big(price) * big(131072) * big(a[3].u64() as u128)))))
        },
        move |a| {
            let price = ((a[1].u64() as u128) << 64) | a[2].u64() as u128;
            fmt_opt(blob_env(if a[0].b() { Some(price) } else { None }, None, a[3].u64()).calc_data_fee())
        },
    ));
    out.push(mk_case(
        "Env::calc_max_data_fee",
        &["calc_max_data_fee"],
        false,
        vec![("has_max_fee_per_blob_gas", Kind::B), ("max_fee_per_blob_gas", Kind::W), ("blobs", Kind::U64)],
        move || {
            let mut v = Vec::new();
            for has in [false, true] {
                for f in ws() {
                    for b in [0u64, 1, 2, 6, 9] {
                        v.push(vec![Val::B(has), Val::W(f), Val::U64(b)]);
                    }
                }
                for k in [238usize, 239, 240] {
                    v.push(vec![Val::B(has), Val::W(U256::from(1) << k), Val::U64(1)]);
                    v.push(vec![Val::B(has), Val::W((U256::from(1) << k) - U256::from(1)), Val::U64(2)]);
                }
            }
            v
        },
        |r| vec![Val::B(r.below(5) != 0), Val::W(r.w()), Val::U64(r.below(10))],
        |a| {
            if !a[0].b() {
                return Some("None".into());
            }
            Some(fmt_opt(Some(sat256(widen(a[1].w()) * big(131072) * big(a[2].u64() as u128)))))
        },
        move |a| fmt_opt(blob_env(Some(1), opt_w(a[0].b(), a[1].w()), a[2].u64()).calc_max_data_fee()),
    ));

    for name in ["basic", "storage", "block_hash", "load_account", "insert_account_info", "insert_account_storage", "replace_account_storage"] {
        out.push(mk_case(
            &format!("CacheDB::sequence[{}]", name),
            &[name],
            false,
            vec![("ops", Kind::Str)],
            || {
                [
                    "basic(0); basic(0); storage(0,1); storage(0,1); storage(0,9)",
                    "storage(0,1); basic(0); storage(0,2)",
                    "basic(2); storage(2,1); basic(2)",
                    "storage(2,1); basic(2)",
                    "block_hash(0); block_hash(0); block_hash(255); block_hash(18446744073709551615); block_hash(255)",
                    "insert_info(3,100,2); basic(3); storage(3,1)",
                    "insert_info(0,100,2); basic(0); storage(0,1); storage(0,3)",
                    "insert_storage(0,1,50); storage(0,1); storage(0,2); basic(0)",
                    "insert_storage(2,1,50); storage(2,1); storage(2,2); basic(2)",
                    "replace_storage(0,1,9); storage(0,1); storage(0,2); basic(0)",
                    "storage(0,2); replace_storage(0,1,9); storage(0,2); storage(0,1)",
                    "storage(1,3); insert_storage(1,3,0); storage(1,3); replace_storage(1,4,4); storage(1,3); storage(1,4)",
                ]
                .iter()
                .map(|s| vec![Val::Str(s.to_string())])
                .collect()
            },
            |r| vec![Val::Str(rand_cache_ops(r))],
            |a| {
                // parseable sequences only
                if a[0].str().split(';').all(|p| p.trim().is_empty() || p.contains('(')) {
                    Some("ok".into())
                } else {
                    None
                }
            },
            |a| match run_cache(a[0].str()) {
                Ok(s) => s,
                Err(e) => e,
            },
        ));
    }
    out
}
