//! C06 / C07 / C08 / C34: crates/revm/src/journaled_state.rs -- ONE generic generator of operation sequences
//! (length <= 12, nested checkpoints, commits, reverts) on a real `JournaledState` over a small in-memory database.
//!
//! ORACLE = the property statements themselves (contracts/journal.vc):
//!  C06  the whole JournaledState is cloned when a checkpoint is taken; after `checkpoint_revert(cp)` the state equals
//!       the clone up to `sv_ext`: depth, journal, logs, transient storage equal; every account of the clone has equal
//!       balance / nonce / code hash / status flags / slots (value, original, cold-ness); accounts and slots first LOADED
//!       after the checkpoint may remain, but cold (or tx-level pre-warmed) and unmodified; the only exception is the
//!       touched mark of precompile 3 from Spurious Dragon on;
//!  C07  every Err path of create_account_checkpoint leaves depth / journal / state as before the call;
//!  C34  (EIP-2929) a load reports cold exactly when the address / slot is not in the accessed set, where the accessed
//!       set is: pre-warmed addresses, access-list loads, everything loaded since -- minus what a revert took back;
//!       in particular what was warm BEFORE a checkpoint stays warm after reverting it;
//!  C08  forward effect of each operation on balances / nonces / slots / transient storage / logs (read through the
//!       public fields before and after).
//! Excluded (the four recorded findings of known_findings.txt): transfers / selfdestruct credits that could overflow
//! 2^256 (all balances here are small, the one huge-balance account R is never credited), set_code on an account that
//! already has code, create over an account with pre-warmed slots.
use crate::core::*;
use revm::primitives::db::Database;
use revm::primitives::{keccak256, Account, AccountInfo, AccountStatus, Address, Bytecode, Bytes, HashSet, Log, LogData, SpecId, B256, KECCAK_EMPTY, PRECOMPILE3, U256};
use revm::{JournalCheckpoint, JournaledState};
use std::collections::BTreeSet;
use std::convert::Infallible;

// ---------------------------------------------------------------------------------- the test database

const NAMES: [&str; 7] = ["A", "B", "C", "D", "N", "P3", "R"];

fn addr(i: usize) -> Address {
    match NAMES[i] {
        "P3" => PRECOMPILE3,
        _ => {
            let mut b = [0u8; 20];
            b[0] = 0xA0 + i as u8;
            b[19] = 0x10 + i as u8;
            Address::new(b)
        }
    }
}
fn name_of(a: Address) -> String {
    (0..NAMES.len()).find(|i| addr(*i) == a).map(|i| NAMES[i].to_string()).unwrap_or_else(|| format!("{:?}", a))
}
fn idx_of(n: &str) -> Option<usize> {
    NAMES.iter().position(|x| *x == n)
}
fn code_c() -> Bytecode {
    Bytecode::new_raw(Bytes::from(vec![0x60, 0x00, 0x60, 0x00, 0xf3]))
}
fn code_d() -> Bytecode {
    Bytecode::new_eip7702(addr(2)) // D delegates to C
}
fn new_code(id: u64) -> Bytecode {
    Bytecode::new_raw(Bytes::from(vec![0x60, id as u8, 0x50, 0x00]))
}

struct TestDb;

fn db_info(a: Address) -> Option<AccountInfo> {
    let i = (0..NAMES.len()).find(|i| addr(*i) == a)?;
    match NAMES[i] {
        // A: funded, fresh (valid creation target and caller)
        "A" => Some(AccountInfo { balance: U256::from(1_000_000u64), nonce: 0, code_hash: KECCAK_EMPTY, code: None }),
        // B: nonce one below the EIP-2681 limit
        "B" => Some(AccountInfo { balance: U256::from(500u64), nonce: u64::MAX - 1, code_hash: KECCAK_EMPTY, code: None }),
        // C: contract with storage
        "C" => Some(AccountInfo { balance: U256::from(7u64), nonce: 1, code_hash: code_c().hash_slow(), code: None }),
        // D: EIP-7702 delegation to C
        "D" => Some(AccountInfo { balance: U256::ZERO, nonce: 1, code_hash: code_d().hash_slow(), code: None }),
        // R: the largest balance (never credited by the generator)
        "R" => Some(AccountInfo { balance: U256::MAX, nonce: 0, code_hash: KECCAK_EMPTY, code: None }),
        _ => None, // N, P3: not in the database
    }
}
fn db_storage(a: Address, k: U256) -> U256 {
    if a == addr(2) {
        if k == U256::ZERO {
            return U256::from(5u64);
        }
        if k == U256::from(2u64) {
            return U256::from(99u64);
        }
    }
    U256::ZERO
}
fn db_has_storage(a: Address) -> bool {
    a == addr(2)
}

impl Database for TestDb {
    type Error = Infallible;
    fn basic(&mut self, address: Address) -> Result<Option<AccountInfo>, Infallible> {
        Ok(db_info(address))
    }
    fn code_by_hash(&mut self, code_hash: B256) -> Result<Bytecode, Infallible> {
        if code_hash == code_c().hash_slow() {
            Ok(code_c())
        } else if code_hash == code_d().hash_slow() {
            Ok(code_d())
        } else {
            Ok(Bytecode::default())
        }
    }
    fn has_storage(&mut self, address: Address) -> Result<bool, Infallible> {
        Ok(db_has_storage(address))
    }
    fn storage(&mut self, address: Address, index: U256) -> Result<U256, Infallible> {
        Ok(db_storage(address, index))
    }
    fn block_hash(&mut self, _number: u64) -> Result<B256, Infallible> {
        Ok(B256::ZERO)
    }
}

// ---------------------------------------------------------------------------------- operations

#[derive(Clone, Debug, PartialEq)]
enum Op {
    InitialLoad(usize, Vec<u64>),
    Load(usize),
    LoadCode(usize),
    LoadDelegated(usize),
    Sload(usize, u64),
    Sstore(usize, u64, u64),
    Tload(usize, u64),
    Tstore(usize, u64, u64),
    Transfer(usize, usize, u64),
    IncNonce(usize),
    Touch(usize),
    SetCode(usize, u64, bool),
    Selfdestruct(usize, usize),
    Log(u64),
    Checkpoint,
    Commit,
    Revert,
    Create(usize, usize, u64),
}

fn op_text(op: &Op) -> String {
    let n = |i: &usize| NAMES[*i];
    match op {
        Op::InitialLoad(a, ks) => format!("initial_account_load({}{})", n(a), ks.iter().map(|k| format!(",{}", k)).collect::<String>()),
        Op::Load(a) => format!("load_account({})", n(a)),
        Op::LoadCode(a) => format!("load_code({})", n(a)),
        Op::LoadDelegated(a) => format!("load_account_delegated({})", n(a)),
        Op::Sload(a, k) => format!("sload({},{})", n(a), k),
        Op::Sstore(a, k, v) => format!("sstore({},{},{})", n(a), k, v),
        Op::Tload(a, k) => format!("tload({},{})", n(a), k),
        Op::Tstore(a, k, v) => format!("tstore({},{},{})", n(a), k, v),
        Op::Transfer(a, b, v) => format!("transfer({},{},{})", n(a), n(b), v),
        Op::IncNonce(a) => format!("inc_nonce({})", n(a)),
        Op::Touch(a) => format!("touch({})", n(a)),
        Op::SetCode(a, id, false) => format!("set_code({},{})", n(a), id),
        Op::SetCode(a, id, true) => format!("set_code_with_hash({},{})", n(a), id),
        Op::Selfdestruct(a, t) => format!("selfdestruct({},{})", n(a), n(t)),
        Op::Log(k) => format!("log({})", k),
        Op::Checkpoint => "checkpoint()".into(),
        Op::Commit => "checkpoint_commit()".into(),
        Op::Revert => "checkpoint_revert()".into(),
        Op::Create(c, a, v) => format!("create_account_checkpoint({},{},{})", n(c), n(a), v),
    }
}

fn ops_text(ops: &[Op]) -> String {
    ops.iter().map(op_text).collect::<Vec<_>>().join("; ")
}

fn parse_ops(s: &str) -> Result<Vec<Op>, String> {
    let mut out = Vec::new();
    for part in s.split(';') {
        let p = part.trim();
        if p.is_empty() {
            continue;
        }
        let (name, rest) = p.split_once('(').ok_or_else(|| format!("bad operation {:?}", p))?;
        let args: Vec<&str> = rest.trim_end_matches(')').split(',').map(|x| x.trim()).filter(|x| !x.is_empty()).collect();
        let a = |i: usize| -> Result<usize, String> { args.get(i).and_then(|x| idx_of(x)).ok_or_else(|| format!("bad address in {:?}", p)) };
        let u = |i: usize| -> Result<u64, String> { args.get(i).and_then(|x| x.parse::<u64>().ok()).ok_or_else(|| format!("bad number in {:?}", p)) };
        out.push(match name.trim() {
            "initial_account_load" => Op::InitialLoad(a(0)?, (1..args.len()).map(u).collect::<Result<Vec<_>, _>>()?),
            "load_account" => Op::Load(a(0)?),
            "load_code" => Op::LoadCode(a(0)?),
            "load_account_delegated" => Op::LoadDelegated(a(0)?),
            "sload" => Op::Sload(a(0)?, u(1)?),
            "sstore" => Op::Sstore(a(0)?, u(1)?, u(2)?),
            "tload" => Op::Tload(a(0)?, u(1)?),
            "tstore" => Op::Tstore(a(0)?, u(1)?, u(2)?),
            "transfer" => Op::Transfer(a(0)?, a(1)?, u(2)?),
            "inc_nonce" => Op::IncNonce(a(0)?),
            "touch" => Op::Touch(a(0)?),
            "set_code" => Op::SetCode(a(0)?, u(1)?, false),
            "set_code_with_hash" => Op::SetCode(a(0)?, u(1)?, true),
            "selfdestruct" => Op::Selfdestruct(a(0)?, a(1)?),
            "log" => Op::Log(u(0)?),
            "checkpoint" => Op::Checkpoint,
            "checkpoint_commit" => Op::Commit,
            "checkpoint_revert" => Op::Revert,
            "create_account_checkpoint" => Op::Create(a(0)?, a(1)?, u(2)?),
            other => return Err(format!("unknown operation {:?}", other)),
        });
    }
    Ok(out)
}

fn warm_set(s: &str) -> HashSet<Address> {
    let mut h = HashSet::default();
    for n in s.split(',') {
        if let Some(i) = idx_of(n.trim()) {
            h.insert(addr(i));
        }
    }
    h
}

// ---------------------------------------------------------------------------------- C06: equality up to sv_ext

fn slot_fresh(s: &revm::primitives::EvmStorageSlot) -> bool {
    s.is_cold && s.present_value == s.original_value
}

/// `now` is `snap` plus data merely LOADED since: Err(description of the first difference)
fn cmp_ext(snap: &JournaledState, now: &JournaledState) -> Result<(), String> {
    if now.depth != snap.depth {
        return Err(format!("depth = {}, at the checkpoint {}", now.depth, snap.depth));
    }
    if now.journal.len() != snap.journal.len() {
        return Err(format!("journal.len() = {}, at the checkpoint {}", now.journal.len(), snap.journal.len()));
    }
    if now.journal != snap.journal {
        return Err("journal entries below the checkpoint changed".into());
    }
    if now.logs != snap.logs {
        return Err(format!("logs.len() = {}, at the checkpoint {}", now.logs.len(), snap.logs.len()));
    }
    if now.transient_storage != snap.transient_storage {
        return Err(format!("transient storage = {:?}, at the checkpoint {:?}", now.transient_storage, snap.transient_storage));
    }
    if now.spec != snap.spec || now.warm_preloaded_addresses != snap.warm_preloaded_addresses {
        return Err("spec / warm_preloaded_addresses changed".into());
    }
    let sd = ge(snap.spec, SpecId::SPURIOUS_DRAGON);
    for (a, v) in snap.state.iter() {
        let an = name_of(*a);
        let Some(x) = now.state.get(a) else { return Err(format!("account {} disappeared", an)) };
        let pc3 = sd && *a == PRECOMPILE3;
        if x.info.balance != v.info.balance {
            return Err(format!("account {}: balance = {}, at the checkpoint {}", an, x.info.balance, v.info.balance));
        }
        if x.info.nonce != v.info.nonce {
            return Err(format!("account {}: nonce = {}, at the checkpoint {}", an, x.info.nonce, v.info.nonce));
        }
        if x.info.code_hash != v.info.code_hash {
            return Err(format!("account {}: code_hash = {}, at the checkpoint {}", an, x.info.code_hash, v.info.code_hash));
        }
        if !(x.status == v.status || (pc3 && x.status == (v.status | AccountStatus::Touched))) {
            return Err(format!("account {}: status = {:?}, at the checkpoint {:?}", an, x.status, v.status));
        }
        if !(v.info.code_hash == KECCAK_EMPTY || v.info.code.is_none() || v.info.code == x.info.code) {
            return Err(format!("account {}: code changed", an));
        }
        for (k, s) in v.storage.iter() {
            match x.storage.get(k) {
                None => return Err(format!("slot ({},{}) disappeared", an, k)),
                Some(t) if t != s => {
                    return Err(format!("slot ({},{}): original={} present={} is_cold={}, at the checkpoint original={} present={} is_cold={}", an, k, t.original_value, t.present_value, t.is_cold, s.original_value, s.present_value, s.is_cold))
                }
                _ => {}
            }
        }
        for (k, t) in x.storage.iter() {
            if !v.storage.contains_key(k) && !slot_fresh(t) {
                return Err(format!("slot ({},{}) loaded after the checkpoint is not cold and unmodified: original={} present={} is_cold={}", an, k, t.original_value, t.present_value, t.is_cold));
            }
        }
    }
    for (a, x) in now.state.iter() {
        if snap.state.contains_key(a) {
            continue;
        }
        let an = name_of(*a);
        let pc3 = sd && *a == PRECOMPILE3;
        if !(x.status.contains(AccountStatus::Cold) || snap.warm_preloaded_addresses.contains(a)) {
            return Err(format!("account {} was first loaded after the checkpoint but is warm after the revert (status {:?})", an, x.status));
        }
        if (x.status.contains(AccountStatus::Touched) && !pc3) || x.status.contains(AccountStatus::Created) || x.status.contains(AccountStatus::SelfDestructed) {
            return Err(format!("account {} was first loaded after the checkpoint but keeps status {:?}", an, x.status));
        }
        for (k, t) in x.storage.iter() {
            if !slot_fresh(t) {
                return Err(format!("slot ({},{}) of an account loaded after the checkpoint is not cold and unmodified", an, k));
            }
        }
    }
    Ok(())
}

// ---------------------------------------------------------------------------------- the executor

#[derive(Clone, Default)]
struct Accessed {
    addrs: BTreeSet<Address>,
    slots: BTreeSet<(Address, U256)>,
}

struct Frame {
    cp: JournalCheckpoint,
    snap: JournaledState,
    acc: Accessed,
}

fn balance_of(js: &JournaledState, a: Address) -> U256 {
    js.state.get(&a).map(|x| x.info.balance).unwrap_or_else(|| db_info(a).map(|i| i.balance).unwrap_or_default())
}
fn usable(js: &JournaledState, a: Address) -> bool {
    js.state.get(&a).map(|x| !x.status.contains(AccountStatus::Cold)).unwrap_or(false)
}
fn is_empty_spec(x: &Account, spec: SpecId) -> bool {
    if ge(spec, SpecId::SPURIOUS_DRAGON) {
        // EIP-161: nonce 0, balance 0, no code
        x.info.balance.is_zero() && x.info.nonce == 0 && (x.info.code_hash == KECCAK_EMPTY || x.info.code_hash == B256::ZERO)
    } else {
        x.status.contains(AccountStatus::LoadedAsNotExisting) && !x.status.contains(AccountStatus::Touched)
    }
}

/// runs the sequence; "ok" or the first violated statement
fn run(spec: SpecId, warm: &str, ops: &[Op]) -> String {
    let mut db = TestDb;
    let mut js = JournaledState::new(spec, warm_set(warm));
    let mut acc = Accessed::default();
    for a in js.warm_preloaded_addresses.iter() {
        acc.addrs.insert(*a);
    }
    let mut frames: Vec<Frame> = Vec::new();
    let mut started = false;
    let mut skipped = 0usize;
    for (step, op) in ops.iter().enumerate() {
        let fail = |what: String| format!("step {} `{}`: {}", step + 1, op_text(op), what);
        macro_rules! check {
            ($c:expr, $($m:tt)*) => {
                if !($c) {
                    return fail(format!($($m)*));
                }
            };
        }
        if !matches!(op, Op::InitialLoad(..)) {
            started = true;
        }
        match op {
            Op::InitialLoad(a, keys) => {
                if started {
                    skipped += 1;
                    continue; // access-list loads happen at transaction start only
                }
                let a = addr(*a);
                let ks: Vec<U256> = keys.iter().map(|k| U256::from(*k)).collect();
                let _ = js.initial_account_load(a, ks.clone(), &mut db).unwrap();
                acc.addrs.insert(a);
                for k in ks {
                    acc.slots.insert((a, k));
                }
                check!(js.journal == vec![vec![]] && js.depth == 0, "initial_account_load wrote to the journal");
            }
            Op::Load(a) | Op::LoadCode(a) => {
                let a = addr(*a);
                let exp_cold = !acc.addrs.contains(&a);
                let is_cold = match op {
                    Op::Load(_) => js.load_account(a, &mut db).unwrap().is_cold,
                    _ => {
                        let l = js.load_code(a, &mut db).unwrap();
                        let c = l.is_cold;
                        let has = l.data.info.code.is_some();
                        check!(has, "load_code left info.code == None");
                        c
                    }
                };
                check!(is_cold == exp_cold, "is_cold = {}, expected {} (EIP-2929: cold iff the address was not accessed before in this transaction, reverted accesses excepted)", is_cold, exp_cold);
                acc.addrs.insert(a);
                check!(usable(&js, a), "account not loaded warm afterwards");
            }
            Op::LoadDelegated(a) => {
                let a = addr(*a);
                let exp_cold = !acc.addrs.contains(&a);
                let l = js.load_account_delegated(a, &mut db).unwrap();
                acc.addrs.insert(a);
                check!(l.load.state_load.is_cold == exp_cold, "is_cold = {}, expected {}", l.load.state_load.is_cold, exp_cold);
                let x = js.state.get(&a).unwrap();
                check!(l.is_empty == is_empty_spec(x, spec), "is_empty = {}, expected {}", l.is_empty, is_empty_spec(x, spec));
                let target = match &x.info.code {
                    Some(Bytecode::Eip7702(c)) => Some(c.address()),
                    _ => None,
                };
                let exp_d = target.map(|t| !acc.addrs.contains(&t));
                check!(l.load.is_delegate_account_cold == exp_d, "is_delegate_account_cold = {:?}, expected {:?}", l.load.is_delegate_account_cold, exp_d);
                if let Some(t) = target {
                    acc.addrs.insert(t);
                }
            }
            Op::Sload(a, k) | Op::Sstore(a, k, _) => {
                let (a, k) = (addr(*a), U256::from(*k));
                if !usable(&js, a) {
                    skipped += 1;
                    continue;
                }
                let x = js.state.get(&a).unwrap();
                let (exp_val, exp_orig) = match x.storage.get(&k) {
                    Some(s) => (s.present_value, s.original_value),
                    None => {
                        let v = if x.status.contains(AccountStatus::Created) { U256::ZERO } else { db_storage(a, k) };
                        (v, v)
                    }
                };
                let exp_cold = !acc.slots.contains(&(a, k));
                acc.slots.insert((a, k));
                match op {
                    Op::Sload(..) => {
                        let r = js.sload(a, k, &mut db).unwrap();
                        check!(r.data == exp_val, "value = {}, expected {}", r.data, exp_val);
                        check!(r.is_cold == exp_cold, "is_cold = {}, expected {} (EIP-2929)", r.is_cold, exp_cold);
                    }
                    Op::Sstore(_, _, v) => {
                        let v = U256::from(*v);
                        let r = js.sstore(a, k, v, &mut db).unwrap();
                        check!(r.is_cold == exp_cold, "is_cold = {}, expected {} (EIP-2929)", r.is_cold, exp_cold);
                        check!(r.data.original_value == exp_orig && r.data.present_value == exp_val && r.data.new_value == v, "(original, present, new) = ({}, {}, {}), expected ({}, {}, {})", r.data.original_value, r.data.present_value, r.data.new_value, exp_orig, exp_val, v);
                        let s = js.state.get(&a).unwrap().storage.get(&k).unwrap();
                        check!(s.present_value == v && s.original_value == exp_orig, "slot after the store: present={} original={}, expected present={} original={}", s.present_value, s.original_value, v, exp_orig);
                    }
                    _ => unreachable!(),
                }
            }
            Op::Tload(a, k) => {
                let (a, k) = (addr(*a), U256::from(*k));
                let exp = js.transient_storage.get(&(a, k)).copied().unwrap_or_default();
                let v = js.tload(a, k);
                check!(v == exp, "value = {}, expected {}", v, exp);
            }
            Op::Tstore(a, k, v) => {
                let (a, k, v) = (addr(*a), U256::from(*k), U256::from(*v));
                js.tstore(a, k, v);
                let got = js.transient_storage.get(&(a, k)).copied().unwrap_or_default();
                check!(got == v, "transient value afterwards = {}, expected {}", got, v);
            }
            Op::Transfer(f, t, v) => {
                let (f, t, v) = (addr(*f), addr(*t), U256::from(*v));
                if t == addr(6) {
                    skipped += 1;
                    continue; // R is never credited (recorded finding: OverflowPayment path)
                }
                let (bf, bt) = (balance_of(&js, f), balance_of(&js, t));
                let r = js.transfer(&f, &t, v, &mut db).unwrap();
                acc.addrs.insert(f);
                acc.addrs.insert(t);
                let (af, at) = (balance_of(&js, f), balance_of(&js, t));
                if bf < v {
                    check!(r == Some(revm::interpreter::InstructionResult::OutOfFunds), "result = {:?}, expected Some(OutOfFunds)", r);
                    check!(af == bf && at == bt, "balances changed on OutOfFunds");
                } else {
                    check!(r.is_none(), "result = {:?}, expected None", r);
                    if f == t {
                        check!(af == bf, "self transfer changed the balance: {} -> {}", bf, af);
                    } else {
                        check!(af == bf - v && at == bt + v, "balances ({}, {}) -> ({}, {}), expected ({}, {})", bf, bt, af, at, bf - v, bt + v);
                    }
                }
            }
            Op::IncNonce(a) => {
                let a = addr(*a);
                if !usable(&js, a) {
                    skipped += 1;
                    continue;
                }
                let n = js.state.get(&a).unwrap().info.nonce;
                let r = js.inc_nonce(a);
                let n2 = js.state.get(&a).unwrap().info.nonce;
                if n == u64::MAX {
                    check!(r.is_none() && n2 == n, "result = {:?} nonce = {}, expected None and unchanged (EIP-2681)", r, n2);
                } else {
                    check!(r == Some(n + 1) && n2 == n + 1, "result = {:?} nonce = {}, expected Some({})", r, n2, n + 1);
                }
            }
            Op::Touch(a) => {
                let a = addr(*a);
                if !usable(&js, a) {
                    skipped += 1;
                    continue;
                }
                js.touch(&a);
                check!(js.state.get(&a).unwrap().status.contains(AccountStatus::Touched), "account not touched afterwards");
            }
            Op::SetCode(a, id, with_hash) => {
                let a = addr(*a);
                if !usable(&js, a) || js.state.get(&a).unwrap().info.code_hash != KECCAK_EMPTY {
                    skipped += 1;
                    continue; // (recorded finding: set_code over existing code)
                }
                let code = new_code(*id);
                let h = keccak256(code.original_byte_slice());
                if *with_hash {
                    js.set_code_with_hash(a, code.clone(), h);
                } else {
                    js.set_code(a, code.clone());
                }
                let x = js.state.get(&a).unwrap();
                check!(x.info.code_hash == h && x.info.code.as_ref() == Some(&code), "code / code_hash not set");
            }
            Op::Selfdestruct(a, t) => {
                let (a, t) = (addr(*a), addr(*t));
                if !usable(&js, a) || t == addr(6) || a == addr(6) {
                    skipped += 1;
                    continue; // (recorded finding: the credit wraps at 2^256; R's balance is never moved as a whole)
                }
                let exp_cold = !acc.addrs.contains(&t);
                let (ba, bt) = (balance_of(&js, a), balance_of(&js, t));
                let x = js.state.get(&a).unwrap();
                let (was_created, was_destroyed) = (x.status.contains(AccountStatus::Created), x.status.contains(AccountStatus::SelfDestructed));
                let r = js.selfdestruct(a, t, &mut db).unwrap();
                acc.addrs.insert(t);
                check!(r.is_cold == exp_cold, "is_cold = {}, expected {} (EIP-2929)", r.is_cold, exp_cold);
                check!(r.data.had_value == !ba.is_zero() && r.data.previously_destroyed == was_destroyed, "had_value = {} previously_destroyed = {}, expected {} {}", r.data.had_value, r.data.previously_destroyed, !ba.is_zero(), was_destroyed);
                let destroys = was_created || !ge(spec, SpecId::CANCUN); // EIP-6780
                let (aa, at) = (balance_of(&js, a), balance_of(&js, t));
                let flag = js.state.get(&a).unwrap().status.contains(AccountStatus::SelfDestructed);
                check!(flag == (was_destroyed || destroys), "selfdestructed flag = {}, expected {}", flag, was_destroyed || destroys);
                if a != t {
                    check!(aa.is_zero() && at == bt + ba, "balances ({}, {}) -> ({}, {}), expected (0, {})", ba, bt, aa, at, bt + ba);
                } else if destroys {
                    check!(aa.is_zero(), "balance = {}, expected 0", aa);
                } else {
                    check!(aa == ba, "balance = {}, expected unchanged {}", aa, ba);
                }
            }
            Op::Log(k) => {
                let n = js.logs.len();
                let log = Log { address: addr(0), data: LogData::new_unchecked(vec![B256::with_last_byte(*k as u8)], Bytes::from(vec![*k as u8])) };
                js.log(log.clone());
                check!(js.logs.len() == n + 1 && js.logs.last() == Some(&log), "log not appended");
            }
            Op::Checkpoint => {
                if frames.len() >= 4 {
                    skipped += 1;
                    continue;
                }
                let snap = js.clone();
                let cp = js.checkpoint();
                check!(js.depth == snap.depth + 1 && js.journal.len() == snap.journal.len() + 1, "depth / journal length not incremented");
                frames.push(Frame { cp, snap, acc: acc.clone() });
            }
            Op::Commit => {
                if frames.is_empty() {
                    skipped += 1;
                    continue;
                }
                let d = js.depth;
                js.checkpoint_commit();
                frames.pop();
                check!(js.depth + 1 == d, "depth = {}, expected {}", js.depth, d - 1);
            }
            Op::Revert => {
                let Some(f) = frames.pop() else {
                    skipped += 1;
                    continue;
                };
                js.checkpoint_revert(f.cp);
                acc = f.acc;
                if let Err(e) = cmp_ext(&f.snap, &js) {
                    return fail(format!("after the revert {}", e));
                }
            }
            Op::Create(c, a, v) => {
                let (c, a, v) = (addr(*c), addr(*a), U256::from(*v));
                if frames.len() >= 4 || c == a || !usable(&js, c) || !usable(&js, a) || balance_of(&js, c) < v {
                    skipped += 1;
                    continue;
                }
                let x = js.state.get(&a).unwrap();
                if x.storage.values().any(|s| !s.is_cold) {
                    skipped += 1;
                    continue; // (recorded finding: create over pre-warmed slots)
                }
                if x.status.contains(AccountStatus::Created) {
                    skipped += 1;
                    continue; // a second creation at an address created in the same transaction: not producible (EIP-161 nonce 1 / address derivation)
                }
                let collision = x.info.code_hash != KECCAK_EMPTY || x.info.nonce != 0 || db_has_storage(a);
                let overflow = x.info.balance.checked_add(v).is_none();
                let (bc, ba) = (balance_of(&js, c), balance_of(&js, a));
                let snap = js.clone();
                match js.create_account_checkpoint(c, a, db_has_storage(a), v, spec) {
                    Ok(cp) => {
                        check!(!collision && !overflow, "returned Ok, expected Err({})", if collision { "CreateCollision" } else { "OverflowPayment" });
                        check!(js.depth == snap.depth + 1 && js.journal.len() == snap.journal.len() + 1, "depth / journal length not incremented");
                        let y = js.state.get(&a).unwrap();
                        let exp_nonce = if ge(spec, SpecId::SPURIOUS_DRAGON) { 1 } else { 0 }; // EIP-161
                        check!(y.status.contains(AccountStatus::Created) && y.info.nonce == exp_nonce, "created flag / nonce: status {:?} nonce {}, expected Created and nonce {}", y.status, y.info.nonce, exp_nonce);
                        check!(balance_of(&js, c) == bc - v && balance_of(&js, a) == ba + v, "endowment not moved: ({}, {}) -> ({}, {})", bc, ba, balance_of(&js, c), balance_of(&js, a));
                        frames.push(Frame { cp, snap, acc: acc.clone() });
                    }
                    Err(e) => {
                        let exp = if collision {
                            "CreateCollision"
                        } else if overflow {
                            "OverflowPayment"
                        } else {
                            "Ok"
                        };
                        check!(format!("{:?}", e) == exp, "returned Err({:?}), expected {}", e, exp);
                        // C07: an Err path leaves no checkpoint open and nothing changed
                        if let Err(d) = cmp_ext(&snap, &js) {
                            return fail(format!("on the Err({:?}) path {}", e, d));
                        }
                    }
                }
            }
        }
    }
    let _ = skipped;
    "ok".to_string()
}

// ---------------------------------------------------------------------------------- generators

#[derive(Clone, Copy, PartialEq)]
enum Focus {
    None,
    Revert,
    Create,
    Transfer,
    Sstore,
    Sload,
    Load,
    LoadCode,
    Selfdestruct,
    Tstore,
    Tload,
    IncNonce,
    Touch,
    SetCode,
    Checkpoint,
    Commit,
    Log,
    LoadDelegated,
    InitialLoad,
}

fn rand_op(r: &mut Rng, kind: u64) -> Op {
    let a = |r: &mut Rng| r.below(NAMES.len() as u64) as usize;
    let k = |r: &mut Rng| r.pick(&[0u64, 1, 2, 3]);
    let v = |r: &mut Rng| r.pick(&[0u64, 1, 5, 7, 99, 500, 1_000_001]);
    match kind {
        0 => Op::Load(a(r)),
        1 => Op::LoadCode(a(r)),
        2 => Op::LoadDelegated(a(r)),
        3 => Op::Sload(a(r), k(r)),
        4 => Op::Sstore(a(r), k(r), v(r)),
        5 => Op::Tload(a(r), k(r)),
        6 => Op::Tstore(a(r), k(r), v(r)),
        7 => Op::Transfer(a(r), a(r), v(r)),
        8 => Op::IncNonce(a(r)),
        9 => Op::Touch(a(r)),
        10 => Op::SetCode(a(r), r.below(3), r.bool()),
        11 => Op::Selfdestruct(a(r), a(r)),
        12 => Op::Log(r.below(4)),
        13 => Op::Checkpoint,
        14 => Op::Commit,
        15 => Op::Revert,
        _ => Op::Create(a(r), a(r), r.pick(&[0u64, 0, 1, 5, 1_000_001])),
    }
}

fn focus_kind(f: Focus) -> Option<u64> {
    Some(match f {
        Focus::Load => 0,
        Focus::LoadCode => 1,
        Focus::LoadDelegated => 2,
        Focus::Sload => 3,
        Focus::Sstore => 4,
        Focus::Tload => 5,
        Focus::Tstore => 6,
        Focus::Transfer => 7,
        Focus::IncNonce => 8,
        Focus::Touch => 9,
        Focus::SetCode => 10,
        Focus::Selfdestruct => 11,
        Focus::Log => 12,
        Focus::Checkpoint => 13,
        Focus::Commit => 14,
        Focus::Revert => 15,
        Focus::Create => 16,
        Focus::None | Focus::InitialLoad => return None,
    })
}

fn rand_seq(r: &mut Rng, focus: Focus) -> Vec<Op> {
    let mut ops = Vec::new();
    let n_init = if focus == Focus::InitialLoad { 1 + r.below(2) } else { r.below(3).saturating_sub(1) };
    for _ in 0..n_init {
        let ks: Vec<u64> = (0..r.below(3)).map(|_| r.below(4)).collect();
        ops.push(Op::InitialLoad(r.below(NAMES.len() as u64) as usize, ks));
    }
    let len = 2 + r.below(9) as usize;
    let mut open = 0i64;
    while ops.len() < len {
        let kind = match r.below(10) {
            0..=2 => r.below(3),                                  // loads
            3 if focus_kind(focus).is_some() => focus_kind(focus).unwrap(),
            4 if focus_kind(focus).is_some() => focus_kind(focus).unwrap(),
            5 => r.pick(&[13u64, 13, 16, 16, 15, 14]),            // frames
            _ => r.below(17),
        };
        let op = rand_op(r, kind);
        match op {
            Op::Checkpoint | Op::Create(..) => open += 1,
            Op::Commit | Op::Revert => open -= 1,
            _ => {}
        }
        ops.push(op);
    }
    // close what is open (mostly by reverting: that is where the oracle looks)
    let mut closers = 0;
    while open > 0 && closers < 4 && ops.len() < 12 {
        ops.push(if r.below(5) == 0 { Op::Commit } else { Op::Revert });
        open -= 1;
        closers += 1;
    }
    ops.truncate(12);
    ops
}

fn boundary_seqs() -> Vec<Vec<Op>> {
    use Op::*;
    let (a, b, c, d, n, p3, rr) = (0usize, 1usize, 2usize, 3usize, 4usize, 5usize, 6usize);
    vec![
        // C34: what was warm before the checkpoint stays warm after reverting a create
        vec![Load(a), Load(n), Create(a, n, 5), Revert, Load(n)],
        vec![Load(a), Load(n), Create(a, n, 0), Sstore(n, 1, 7), Sload(n, 2), Revert, Load(n), Load(a)],
        vec![InitialLoad(n, vec![]), Load(a), Create(a, n, 1), Revert, Load(n)],
        vec![Load(b), Load(a), Create(b, a, 5), IncNonce(a), SetCode(a, 1, false), Revert, Load(a)],
        // C07: Err paths of create_account_checkpoint
        vec![Load(a), Load(c), Create(a, c, 0), Load(c)],
        vec![Load(a), Load(d), Create(a, d, 1), Checkpoint, Revert],
        vec![Load(a), Load(rr), Create(a, rr, 1), Load(rr)],
        vec![Checkpoint, Load(a), Load(b), Create(a, b, 1), Commit],
        vec![Load(a), Load(c), Checkpoint, Create(a, c, 3), Revert],
        // C06: undo of each kind of entry, nested
        vec![Checkpoint, Load(a), Load(b), Transfer(a, b, 5), Revert, Load(a)],
        vec![Load(a), Load(b), Checkpoint, Transfer(a, b, 5), Transfer(b, a, 1_000_001), IncNonce(a), IncNonce(b), IncNonce(b), Revert],
        vec![Load(c), Sload(c, 0), Checkpoint, Sstore(c, 0, 7), Sstore(c, 1, 1), Sload(c, 2), Checkpoint, Sstore(c, 0, 5), Revert, Revert, Sload(c, 2)],
        vec![Tstore(a, 1, 5), Checkpoint, Tstore(a, 1, 0), Tstore(a, 2, 7), Tstore(a, 2, 7), Tload(a, 1), Revert, Tload(a, 1), Tload(a, 2)],
        vec![Load(a), Checkpoint, SetCode(a, 1, false), Touch(a), Log(1), Revert, Log(2)],
        vec![Load(a), Checkpoint, SetCode(a, 2, true), Checkpoint, Log(1), Commit, Revert],
        vec![Load(c), Load(b), Checkpoint, Selfdestruct(c, b), Selfdestruct(c, b), Revert, Load(b)],
        vec![Load(c), Checkpoint, Selfdestruct(c, c), Revert],
        vec![Load(c), Checkpoint, Selfdestruct(c, n), Checkpoint, Selfdestruct(c, a), Revert, Revert, Load(n)],
        vec![Load(a), Load(n), Create(a, n, 5), Selfdestruct(n, a), Revert],
        vec![Load(a), Load(n), Create(a, n, 5), Selfdestruct(n, n), Commit],
        vec![Checkpoint, Load(p3), Touch(p3), Revert, Load(p3)],
        vec![Load(p3), Checkpoint, Touch(p3), Transfer(a, p3, 0), Revert],
        vec![Checkpoint, LoadDelegated(d), Revert, LoadDelegated(d), Load(c)],
        vec![Load(c), Checkpoint, LoadDelegated(d), LoadCode(c), Revert, LoadDelegated(n)],
        vec![InitialLoad(c, vec![0, 2]), Load(c), Sload(c, 0), Checkpoint, Sload(c, 1), Sload(c, 2), Sstore(c, 2, 1), Revert, Sload(c, 1), Sload(c, 2)],
        vec![Checkpoint, Checkpoint, Checkpoint, Load(a), Touch(a), Commit, Commit, Revert, Load(a)],
        vec![Load(b), Checkpoint, IncNonce(b), IncNonce(b), IncNonce(b), Revert, IncNonce(b)],
        vec![Checkpoint, Transfer(n, a, 0), Transfer(a, n, 7), Revert, Load(n), Load(a)],
        vec![Checkpoint, Log(0), Checkpoint, Log(1), Revert, Log(2), Revert, Log(3)],
        vec![Load(a), Load(n), Checkpoint, Create(a, n, 5), Sstore(n, 0, 1), Commit, Revert, Load(n), Sload(n, 0)],
    ]
}

fn warm_options() -> [&'static str; 3] {
    ["-", "P3", "P3,B,N"]
}

fn seq_case(name: &'static str, focus: Focus) -> Case {
    mk_case(
        &format!("journal::sequence[{}]", name),
        &[name],
        false,
        vec![("spec_id", Kind::S), ("warm_preloaded", Kind::Str), ("ops", Kind::Str)],
        || {
            let mut v = Vec::new();
            for s in all_specs() {
                for w in warm_options() {
                    for q in boundary_seqs() {
                        v.push(vec![Val::S(s), Val::Str(w.to_string()), Val::Str(ops_text(&q))]);
                    }
                }
            }
            v
        },
        move |r| {
            let s = r.pick(&[SpecId::FRONTIER, SpecId::TANGERINE, SpecId::SPURIOUS_DRAGON, SpecId::BERLIN, SpecId::LONDON, SpecId::SHANGHAI, SpecId::CANCUN, SpecId::PRAGUE, SpecId::LATEST]);
            let s = if r.below(4) == 0 { r.spec() } else { s };
            let w = r.pick(&warm_options());
            vec![Val::S(s), Val::Str(w.to_string()), Val::Str(ops_text(&rand_seq(r, focus)))]
        },
        |a| parse_ops(a[2].str()).ok().map(|_| "ok".to_string()),
        |a| match parse_ops(a[2].str()) {
            Ok(ops) => run(a[0].s(), a[1].str(), &ops),
            Err(e) => e,
        },
    )
}

pub fn cases() -> Vec<Case> {
    vec![
        seq_case("journal_revert", Focus::Revert),
        seq_case("checkpoint_revert", Focus::Revert),
        seq_case("create_account_checkpoint", Focus::Create),
        seq_case("transfer", Focus::Transfer),
        seq_case("sstore", Focus::Sstore),
        seq_case("sload", Focus::Sload),
        seq_case("load_account", Focus::Load),
        seq_case("load_code", Focus::LoadCode),
        seq_case("selfdestruct", Focus::Selfdestruct),
        seq_case("tstore", Focus::Tstore),
        seq_case("tload", Focus::Tload),
        seq_case("inc_nonce", Focus::IncNonce),
        seq_case("touch", Focus::Touch),
        seq_case("touch_account", Focus::Touch),
        seq_case("set_code", Focus::SetCode),
        seq_case("set_code_with_hash", Focus::SetCode),
        seq_case("checkpoint", Focus::Checkpoint),
        seq_case("checkpoint_commit", Focus::Commit),
        seq_case("log", Focus::Log),
        seq_case("load_account_delegated", Focus::LoadDelegated),
        seq_case("initial_account_load", Focus::InitialLoad),
        seq_case("journal_sequence", Focus::None),
    ]
}
