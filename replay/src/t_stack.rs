//! C12: the EVM stack. (a) every `Stack` method against a `Vec<U256>` model at lengths around 0 / 16 / 1023 / 1024
//! (1024 = the Yellow Paper's stack limit): pop push push_b256 peek set dup swap exchange push_slice and the
//! unchecked pops within their preconditions; (b) POP PUSH0 PUSH1..32 DUPn SWAPn DUPN SWAPN EXCHANGE through a real
//! Interpreter (Yellow Paper H.2: G_base 2 for POP / PUSH0, G_verylow 3 otherwise; EIP-3855 PUSH0 from Shanghai;
//! EIP-663 immediates: DUPN n = imm + 1, SWAPN n = imm + 1, EXCHANGE n = (imm >> 4) + 1, m = (imm & 15) + 1).
use crate::core::*;
use revm_interpreter::instructions::stack as si;
use revm_interpreter::{Contract, DummyHost, Interpreter, Stack};
use revm_primitives::{Spec, SpecId, B256, U256};

const LIMIT: usize = 1024;

fn elem(i: usize) -> U256 {
    U256::from_limbs([0x1000 + i as u64, 0xA5A5A5A5A5A5A5A5 ^ (i as u64) << 3, 0x5A5A5A5A5A5A5A5A, 0xC0FFEE0000000000 + i as u64])
}
fn initial(n: usize) -> Vec<U256> {
    (0..n).map(elem).collect()
}

/// length, the 20 top-most words and a digest of everything (1024 words would not fit a witness)
fn render_stack(s: &[U256]) -> String {
    let mut d = U256::from(0x9E3779B97F4A7C15u64);
    for (i, w) in s.iter().enumerate() {
        d = d.wrapping_mul(U256::from(0x100000001b3u64)).wrapping_add(*w).wrapping_add(U256::from(i));
    }
    let top: Vec<String> = s.iter().rev().take(20).map(|w| format!("{:#x}", w)).collect();
    format!("len={} digest={:#x} top..down=[{}]", s.len(), d, top.join(", "))
}

fn be_word(b: &[u8]) -> U256 {
    let mut x = U256::ZERO;
    for v in b {
        x = (x << 8) | U256::from(*v);
    }
    x
}

// method, a, b, value, bytes, initial length
fn method_expected(m: &str, a: usize, b: usize, v: U256, bytes: &[u8], n: usize) -> Option<String> {
    if n > LIMIT {
        return None;
    }
    let mut s = initial(n);
    let res: String = match m {
        "pop" => match s.pop() {
            Some(x) => format!("Ok({:#x})", x),
            None => "Err(StackUnderflow)".into(),
        },
        "push" | "push_b256" => {
            if s.len() == LIMIT {
                "Err(StackOverflow)".into()
            } else {
                s.push(v);
                "Ok(())".into()
            }
        }
        "peek" => {
            if s.len() > a {
                format!("Ok({:#x})", s[s.len() - 1 - a])
            } else {
                "Err(StackUnderflow)".into()
            }
        }
        "set" => {
            if s.len() > a {
                let l = s.len();
                s[l - 1 - a] = v;
                "Ok(())".into()
            } else {
                "Err(StackUnderflow)".into()
            }
        }
        "dup" => {
            if a == 0 {
                return None; // precondition n > 0
            }
            if s.len() < a {
                "Err(StackUnderflow)".into()
            } else if s.len() + 1 > LIMIT {
                "Err(StackOverflow)".into()
            } else {
                let x = s[s.len() - a];
                s.push(x);
                "Ok(())".into()
            }
        }
        "swap" | "exchange" => {
            let (x, y) = if m == "swap" { (0, a) } else { (a, b) };
            if y == 0 {
                return None; // precondition m > 0
            }
            if x + y >= s.len() {
                "Err(StackUnderflow)".into()
            } else {
                let l = s.len();
                s.swap(l - 1 - x, l - 1 - x - y);
                "Ok(())".into()
            }
        }
        "push_slice" => {
            let words = (bytes.len() + 31) / 32;
            if bytes.is_empty() {
                "Ok(())".into()
            } else if s.len() + words > LIMIT {
                "Err(StackOverflow)".into()
            } else {
                // big-endian 32-byte chunks; a shorter last chunk is the low-order part of its word
                for c in bytes.chunks(32) {
                    s.push(be_word(c));
                }
                "Ok(())".into()
            }
        }
        "len" => s.len().to_string(),
        "is_empty" => s.is_empty().to_string(),
        "data" => "data".into(),
        // unchecked accessors: precondition = enough words
        "pop_unsafe" | "top_unsafe" | "pop_top_unsafe" | "pop2_unsafe" | "pop2_top_unsafe" | "pop3_unsafe" | "pop4_unsafe" | "pop5_unsafe" => {
            let (pops, top) = match m {
                "pop_unsafe" => (1, false),
                "top_unsafe" => (0, true),
                "pop_top_unsafe" => (1, true),
                "pop2_unsafe" => (2, false),
                "pop2_top_unsafe" => (2, true),
                "pop3_unsafe" => (3, false),
                "pop4_unsafe" => (4, false),
                _ => (5, false),
            };
            if s.len() < pops + top as usize {
                return None;
            }
            let mut r: Vec<String> = Vec::new();
            for _ in 0..pops {
                r.push(format!("{:#x}", s.pop().unwrap()));
            }
            if top {
                r.push(format!("top={:#x}", s.last().unwrap()));
            }
            r.join(",")
        }
        _ => return None,
    };
    Some(format!("{} {}", res, render_stack(&s)))
}

fn method_observed(m: &str, a: usize, b: usize, v: U256, bytes: &[u8], n: usize) -> String {
    let mut s = Stack::new();
    for w in initial(n) {
        s.push(w).expect("initial push");
    }
    let r = |x: Result<(), revm_interpreter::InstructionResult>| match x {
        Ok(()) => "Ok(())".to_string(),
        Err(e) => format!("Err({:?})", e),
    };
    let res = match m {
        "pop" => match s.pop() {
            Ok(x) => format!("Ok({:#x})", x),
            Err(e) => format!("Err({:?})", e),
        },
        "push" => r(s.push(v)),
        "push_b256" => r(s.push_b256(B256::from(v.to_be_bytes::<32>()))),
        "peek" => match s.peek(a) {
            Ok(x) => format!("Ok({:#x})", x),
            Err(e) => format!("Err({:?})", e),
        },
        "set" => r(s.set(a, v)),
        "dup" => r(s.dup(a)),
        "swap" => r(s.swap(a)),
        "exchange" => r(s.exchange(a, b)),
        "push_slice" => r(s.push_slice(bytes)),
        "len" => s.len().to_string(),
        "is_empty" => s.is_empty().to_string(),
        "data" => "data".into(),
        // SAFETY: the oracle's domain test guarantees enough words
        "pop_unsafe" => format!("{:#x}", unsafe { s.pop_unsafe() }),
        "top_unsafe" => format!("top={:#x}", unsafe { *s.top_unsafe() }),
        "pop_top_unsafe" => {
            let (p, t) = unsafe { s.pop_top_unsafe() };
            format!("{:#x},top={:#x}", p, *t)
        }
        "pop2_unsafe" => {
            let (p, q) = unsafe { s.pop2_unsafe() };
            format!("{:#x},{:#x}", p, q)
        }
        "pop2_top_unsafe" => {
            let (p, q, t) = unsafe { s.pop2_top_unsafe() };
            format!("{:#x},{:#x},top={:#x}", p, q, *t)
        }
        "pop3_unsafe" => {
            let (p, q, x) = unsafe { s.pop3_unsafe() };
            format!("{:#x},{:#x},{:#x}", p, q, x)
        }
        "pop4_unsafe" => {
            let (p, q, x, y) = unsafe { s.pop4_unsafe() };
            format!("{:#x},{:#x},{:#x},{:#x}", p, q, x, y)
        }
        "pop5_unsafe" => {
            let (p, q, x, y, z) = unsafe { s.pop5_unsafe() };
            format!("{:#x},{:#x},{:#x},{:#x},{:#x}", p, q, x, y, z)
        }
        _ => "?".into(),
    };
    format!("{} {}", res, render_stack(s.data()))
}

const METHODS: [&str; 20] = ["pop", "push", "push_b256", "peek", "set", "dup", "swap", "exchange", "push_slice", "len", "is_empty", "data", "pop_unsafe", "top_unsafe", "pop_top_unsafe", "pop2_unsafe", "pop2_top_unsafe", "pop3_unsafe", "pop4_unsafe", "pop5_unsafe"];

fn lens() -> Vec<usize> {
    vec![0, 1, 2, 3, 4, 5, 6, 15, 16, 17, 18, 32, 33, 1000, 1021, 1022, 1023, 1024]
}

// ---------------------------------------------------------------------------------- instructions

type IFn = fn(&mut Interpreter, &mut DummyHost);

fn effective_spec(s: SpecId) -> SpecId {
    revm_primitives::spec_to_generic!(s, <SPEC as Spec>::SPEC_ID)
}
fn push0_fn(s: SpecId) -> IFn {
    revm_primitives::spec_to_generic!(s, si::push0::<DummyHost, SPEC>)
}
fn push_fn(n: u8) -> Option<IFn> {
    macro_rules! t {
        ($($n:literal),*) => { match n { $($n => Some(si::push::<$n, DummyHost> as IFn),)* _ => None } };
    }
    t!(1, 2, 3, 4, 5, 6, 7, 8, 9, 10, 11, 12, 13, 14, 15, 16, 17, 18, 19, 20, 21, 22, 23, 24, 25, 26, 27, 28, 29, 30, 31, 32)
}
fn dup_fn(n: u8) -> Option<IFn> {
    macro_rules! t {
        ($($n:literal),*) => { match n { $($n => Some(si::dup::<$n, DummyHost> as IFn),)* _ => None } };
    }
    t!(1, 2, 3, 4, 5, 6, 7, 8, 9, 10, 11, 12, 13, 14, 15, 16)
}
fn swap_fn(n: u8) -> Option<IFn> {
    macro_rules! t {
        ($($n:literal),*) => { match n { $($n => Some(si::swap::<$n, DummyHost> as IFn),)* _ => None } };
    }
    t!(1, 2, 3, 4, 5, 6, 7, 8, 9, 10, 11, 12, 13, 14, 15, 16)
}

// args: instr (Str), n (U8: N of PUSHn/DUPn/SWAPn, or the immediate byte), code (Hex: bytes at the instruction
// pointer), stack_len (U64), gas_limit (U64), spec (S), is_eof (B)
fn instr_expected(a: &[Val]) -> Option<String> {
    let (ins, n, code, len, gas, spec, eof) = (a[0].str(), a[1].u8() as usize, a[2].bytes(), a[3].u64() as usize, a[4].u64(), effective_spec(a[5].s()), a[6].b());
    if len > LIMIT || code.len() < 33 {
        return None;
    }
    let s = initial(len);
    let out = |res: &str, charged: u64, st: &[U256], adv: usize| Some(format!("result={} gas_remaining={} ip_advanced={} {}", res, gas - charged, adv, render_stack(st)));
    let (g, adv): (u64, usize) = match ins {
        "pop" | "push0" => (2, 0),
        "push" => (3, n),
        "dup" | "swap" => (3, 0),
        _ => (3, 1),
    };
    match ins {
        "push0" if !ge(spec, SpecId::SHANGHAI) => return out("NotActivated", 0, &s, 0), // EIP-3855
        "dupn" | "swapn" | "exchange" if !eof => return out("EOFOpcodeDisabledInLegacy", 0, &s, 0),
        "push" if !(1..=32).contains(&n) => return None,
        "dup" | "swap" if !(1..=16).contains(&n) => return None,
        _ => {}
    }
    if gas < g {
        return out("OutOfGas", 0, &s, 0);
    }
    let mut t = s.clone();
    let imm = code[0] as usize;
    let res: &str = match ins {
        "pop" => {
            if t.pop().is_some() {
                "Continue"
            } else {
                "StackUnderflow"
            }
        }
        "push0" | "push" => {
            if t.len() == LIMIT {
                "StackOverflow"
            } else {
                t.push(if ins == "push0" { U256::ZERO } else { be_word(&code[..n]) });
                "Continue"
            }
        }
        "dup" | "dupn" => {
            let k = if ins == "dup" { n } else { imm + 1 };
            if t.len() < k {
                "StackUnderflow"
            } else if t.len() + 1 > LIMIT {
                "StackOverflow"
            } else {
                let x = t[t.len() - k];
                t.push(x);
                "Continue"
            }
        }
        "swap" | "swapn" | "exchange" => {
            let (x, y) = match ins {
                "swap" => (0, n),
                "swapn" => (0, imm + 1),
                _ => ((imm >> 4) + 1, (imm & 0x0f) + 1),
            };
            if x + y >= t.len() {
                "StackUnderflow"
            } else {
                let l = t.len();
                t.swap(l - 1 - x, l - 1 - x - y);
                "Continue"
            }
        }
        _ => return None,
    };
    // a failed PUSHn does not move the instruction pointer; DUPN / SWAPN / EXCHANGE always skip their immediate
    let adv = if ins == "push" && res != "Continue" { 0 } else { adv };
    out(res, g, &t, adv)
}

fn instr_observed(a: &[Val]) -> String {
    let (ins, n, code, len, gas, spec, eof) = (a[0].str(), a[1].u8(), a[2].bytes().to_vec(), a[3].u64() as usize, a[4].u64(), a[5].s(), a[6].b());
    let f: IFn = match ins {
        "pop" => si::pop::<DummyHost>,
        "push0" => push0_fn(spec),
        "push" => push_fn(n).expect("N in 1..=32"),
        "dup" => dup_fn(n).expect("N in 1..=16"),
        "swap" => swap_fn(n).expect("N in 1..=16"),
        "dupn" => si::dupn::<DummyHost>,
        "swapn" => si::swapn::<DummyHost>,
        _ => si::exchange::<DummyHost>,
    };
    let mut interp = Interpreter::new(Contract::default(), gas, false);
    interp.is_eof = eof;
    for w in initial(len) {
        interp.stack.push(w).expect("initial push");
    }
    let start = code.as_ptr();
    interp.instruction_pointer = start;
    let mut host = DummyHost::default();
    f(&mut interp, &mut host);
    let adv = (interp.instruction_pointer as usize).wrapping_sub(start as usize);
    format!("result={:?} gas_remaining={} ip_advanced={} {}", interp.instruction_result, interp.gas.remaining(), adv, render_stack(interp.stack.data()))
}

fn code_bytes(seed: u8) -> Vec<u8> {
    (0..40).map(|i| seed.wrapping_add((i as u8).wrapping_mul(29)) | 1).collect()
}

pub fn cases() -> Vec<Case> {
    let mut out = Vec::new();
    for m in METHODS {
        out.push(mk_case(
            &format!("Stack::{}", m),
            &[m],
            false,
            vec![("a", Kind::U64), ("b", Kind::U64), ("value", Kind::W), ("bytes", Kind::Hex), ("initial_len", Kind::U64)],
            move || {
                let mut v = Vec::new();
                for n in lens() {
                    let idx: Vec<u64> = match m {
                        "peek" | "set" | "dup" | "swap" => vec![0, 1, 2, 15, 16, 17, n as u64 - (n > 0) as u64, n as u64, n as u64 + 1, 1023, 1024, 5000],
                        "exchange" => vec![0, 1, 2, 3, 15, 16, n as u64 / 2, n as u64],
                        _ => vec![0],
                    };
                    let seconds: Vec<u64> = if m == "exchange" { vec![1, 2, 16, n as u64 / 2, n as u64] } else { vec![0] };
                    let slices: Vec<Vec<u8>> = if m == "push_slice" {
                        [0usize, 1, 7, 8, 9, 15, 16, 17, 24, 25, 31, 32, 33, 40, 63, 64, 65, 96, 100].iter().map(|k| (0..*k).map(|i| 0x81u8.wrapping_add(i as u8 * 5)).collect()).collect()
                    } else {
                        vec![vec![]]
                    };
                    for a in &idx {
                        for b in &seconds {
                            for sl in &slices {
                                v.push(vec![Val::U64(*a), Val::U64(*b), Val::W(U256::MAX - U256::from(*a)), Val::Hex(sl.clone()), Val::U64(n as u64)]);
                            }
                        }
                    }
                }
                v
            },
            move |r| {
                let n = match r.below(3) {
                    0 => r.pick(&lens()),
                    1 => 1024 - r.below(5) as usize,
                    _ => r.below(40) as usize,
                };
                let a = match r.below(4) {
                    0 => n as u64 + r.below(3) - 1u64.min(n as u64),
                    _ => r.below(20),
                };
                let k = r.below(70) as usize;
                vec![Val::U64(a), Val::U64(1 + r.below(17)), Val::W(r.w()), Val::Hex((0..k).map(|_| r.next() as u8).collect()), Val::U64(n as u64)]
            },
            move |a| method_expected(m, a[0].u64() as usize, a[1].u64() as usize, a[2].w(), a[3].bytes(), a[4].u64() as usize),
            move |a| method_observed(m, a[0].u64() as usize, a[1].u64() as usize, a[2].w(), a[3].bytes(), a[4].u64() as usize),
        ));
    }

    let schema = || vec![("instruction", Kind::Str), ("n_or_unused", Kind::U8), ("code_at_ip", Kind::Hex), ("stack_len", Kind::U64), ("gas_limit", Kind::U64), ("spec_id", Kind::S), ("is_eof", Kind::B)];
    let mk = |ins: &str, n: u8, code: Vec<u8>, len: usize, gas: u64, spec: SpecId, eof: bool| -> Args { vec![Val::Str(ins.to_string()), Val::U8(n), Val::Hex(code), Val::U64(len as u64), Val::U64(gas), Val::S(spec), Val::B(eof)] };
    for (ins, names) in [("pop", vec!["pop"]), ("push0", vec!["push0"]), ("push", vec!["push"]), ("dup", vec!["dup"]), ("swap", vec!["swap"]), ("dupn", vec!["dupn"]), ("swapn", vec!["swapn"]), ("exchange", vec!["exchange"])] {
        let ns: Vec<u8> = match ins {
            "push" => (1..=32).collect(),
            "dup" | "swap" => (1..=16).collect(),
            _ => vec![0],
        };
        let ns2 = ns.clone();
        out.push(mk_case(
            &format!("instr::{}", ins),
            &names,
            false,
            schema(),
            move || {
                let mut v = Vec::new();
                for n in &ns {
                    for l in lens() {
                        for g in [0u64, 1, 2, 3, 4, 100] {
                            let imms: Vec<u8> = if matches!(ins, "dupn" | "swapn" | "exchange") { vec![0, 1, 0x0f, 0x10, 0x11, 0xf0, 0xff, 0x23] } else { vec![0x61] };
                            for imm in imms {
                                let mut code = code_bytes(0x31);
                                code[0] = imm;
                                let specs: Vec<SpecId> = if ins == "push0" { all_specs() } else { vec![SpecId::LATEST] };
                                for s in specs {
                                    for eof in [true, false] {
                                        if !eof && !matches!(ins, "dupn" | "swapn" | "exchange") && g != 100 {
                                            continue;
                                        }
                                        v.push(mk(ins, *n, code.clone(), l, g, s, eof));
                                    }
                                }
                            }
                        }
                    }
                }
                v
            },
            move |r| {
                let n = r.pick(&ns2);
                let l = match r.below(3) {
                    0 => r.pick(&lens()),
                    1 => 1024 - r.below(4) as usize,
                    _ => r.below(40) as usize,
                };
                let mut code = code_bytes(r.next() as u8);
                code[0] = r.next() as u8;
                mk(ins, n, code, l, if r.below(5) == 0 { r.below(5) } else { 1000 }, if ins == "push0" { r.spec() } else { SpecId::LATEST }, r.below(4) != 0)
            },
            instr_expected,
            instr_observed,
        ));
    }
    out
}
