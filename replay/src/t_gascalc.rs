//! C14: crates/interpreter/src/gas/calc.rs, num_words, SStoreResult::is_*, SpecId::enabled.
//! Oracles = contracts/gascalc.vc, written from the EIPs / Yellow Paper with LITERAL numbers over
//! mathematical integers (i128 / U512); no constant or function of the repository is used by an oracle.
//!
//! Known findings (known_findings.txt): the main cases are restricted to the domain on which the verified
//! contract claims the EIP value (len <= 2^64-32, num_words < 2^32, no delegation before Prague); the
//! finding domains are separate cases named `<fn>__finding_<tag>`.
use crate::core::*;
use revm_interpreter::gas as rg;
use revm_interpreter::{AccountLoad, Eip7702CodeLoad, SStoreResult, SelfDestructResult, StateLoad};
use revm_primitives::{SpecId, U256};

// ---------------------------------------------------------------------------------- oracle (gascalc.vc @shared)

fn ceil32(len: u128) -> u128 {
    (len + 31) / 32
}
/// number of bytes of n: 0 for 0, else 1 + byte_len(n / 256)
fn byte_len(n: U256) -> u128 {
    let mut n = n;
    let mut k = 0u128;
    while !n.is_zero() {
        n = n / U256::from(256);
        k += 1;
    }
    k
}
/// Yellow Paper (326): C_mem(a) = 3 a + floor(a^2 / 512)
fn yp_cmem(a: u128) -> U512 {
    big(3) * big(a) + (big(a) * big(a)) / big(512)
}
fn yp_copy_cost(words: u128) -> u128 {
    3 + 3 * words
}
fn yp_keccak_cost(words: u128) -> u128 {
    30 + 6 * words
}
fn yp_log_cost(topics: u128, len: u128) -> u128 {
    375 + 375 * topics + 8 * len
}
fn eip1014_create2_cost(words: u128) -> u128 {
    32000 + 6 * words
}
fn eip3860_initcode_cost(words: u128) -> u128 {
    2 * words
}
fn eip7623_floor(tokens: u128) -> u128 {
    21000 + 10 * tokens
}
fn eip160_exp_cost(s: SpecId, power: U256) -> u128 {
    10 + (if ge(s, SpecId::SPURIOUS_DRAGON) { 50 } else { 10 }) * byte_len(power)
}
fn eip2929_account_access(is_cold: bool) -> i128 {
    if is_cold {
        2600
    } else {
        100
    }
}
fn eip7702_delegation_access(d: Option<bool>) -> i128 {
    match d {
        Some(c) => eip2929_account_access(c),
        None => 0,
    }
}
fn eip_extcode_base(s: SpecId, is_cold: bool) -> i128 {
    if ge(s, SpecId::BERLIN) {
        eip2929_account_access(is_cold)
    } else if ge(s, SpecId::TANGERINE) {
        700
    } else {
        20
    }
}
fn eip_sload_cost(s: SpecId, is_cold: bool) -> i128 {
    if ge(s, SpecId::BERLIN) {
        if is_cold {
            2100
        } else {
            100
        }
    } else if ge(s, SpecId::ISTANBUL) {
        800
    } else if ge(s, SpecId::TANGERINE) {
        200
    } else {
        50
    }
}
fn yp_sstore_cost(p: U256, n: U256) -> i128 {
    if p.is_zero() && !n.is_zero() {
        20000
    } else {
        5000
    }
}
fn yp_sstore_refund(p: U256, n: U256) -> i128 {
    if !p.is_zero() && n.is_zero() {
        15000
    } else {
        0
    }
}
fn eip2200_cost(o: U256, p: U256, n: U256, sload_gas: i128, set_gas: i128, reset_gas: i128) -> i128 {
    if p == n {
        sload_gas
    } else if o == p {
        if o.is_zero() {
            set_gas
        } else {
            reset_gas
        }
    } else {
        sload_gas
    }
}
fn eip2200_refund(o: U256, p: U256, n: U256, sload_gas: i128, set_gas: i128, reset_gas: i128, clears: i128) -> i128 {
    if p == n {
        0
    } else if o == p {
        if !o.is_zero() && n.is_zero() {
            clears
        } else {
            0
        }
    } else {
        (if !o.is_zero() { (if p.is_zero() { -clears } else { 0 }) + (if n.is_zero() { clears } else { 0 }) } else { 0 })
            + (if o == n {
                if o.is_zero() {
                    set_gas - sload_gas
                } else {
                    reset_gas - sload_gas
                }
            } else {
                0
            })
    }
}
fn eip_sstore_cost(s: SpecId, o: U256, p: U256, n: U256, gas_left: u64, is_cold: bool) -> Option<i128> {
    if ge(s, SpecId::ISTANBUL) && gas_left <= 2300 {
        None
    } else if ge(s, SpecId::BERLIN) {
        Some(eip2200_cost(o, p, n, 100, 20000, 2900) + if is_cold { 2100 } else { 0 })
    } else if ge(s, SpecId::ISTANBUL) {
        Some(eip2200_cost(o, p, n, 800, 20000, 5000))
    } else {
        Some(yp_sstore_cost(p, n))
    }
}
fn eip_sstore_refund(s: SpecId, o: U256, p: U256, n: U256) -> i128 {
    if ge(s, SpecId::LONDON) {
        eip2200_refund(o, p, n, 100, 20000, 2900, 4800)
    } else if ge(s, SpecId::BERLIN) {
        eip2200_refund(o, p, n, 100, 20000, 2900, 15000)
    } else if ge(s, SpecId::ISTANBUL) {
        eip2200_refund(o, p, n, 800, 20000, 5000, 15000)
    } else {
        yp_sstore_refund(p, n)
    }
}
fn eip_call_cost(s: SpecId, transfers_value: bool, is_cold: bool, delegate_cold: Option<bool>, is_empty: bool) -> i128 {
    (if ge(s, SpecId::BERLIN) {
        eip2929_account_access(is_cold) + if ge(s, SpecId::PRAGUE) { eip7702_delegation_access(delegate_cold) } else { 0 }
    } else if ge(s, SpecId::TANGERINE) {
        700
    } else {
        40
    }) + (if transfers_value { 9000 } else { 0 })
        + (if is_empty && (if ge(s, SpecId::SPURIOUS_DRAGON) { transfers_value } else { true }) { 25000 } else { 0 })
}
fn call_cost_pre_prague_delegation(s: SpecId, d: Option<bool>) -> bool {
    ge(s, SpecId::BERLIN) && !ge(s, SpecId::PRAGUE) && d.is_some()
}
fn eip_selfdestruct_cost(s: SpecId, had_value: bool, target_exists: bool, is_cold: bool) -> i128 {
    (if ge(s, SpecId::TANGERINE) { 5000 } else { 0 })
        + (if ge(s, SpecId::TANGERINE) && (if ge(s, SpecId::SPURIOUS_DRAGON) { had_value && !target_exists } else { !target_exists }) {
            25000
        } else {
            0
        })
        + (if ge(s, SpecId::BERLIN) && is_cold { 2600 } else { 0 })
}

const TOP: u64 = u64::MAX - 31; // len <= TOP: len + 31 does not overflow u64

// ---------------------------------------------------------------------------------- generators

fn lens_exact() -> Vec<u64> {
    bounds_u64().into_iter().filter(|l| *l <= TOP).collect()
}
fn rand_len_exact(r: &mut Rng) -> u64 {
    loop {
        let l = r.u64b();
        if l <= TOP {
            return l;
        }
    }
}
fn bools() -> [bool; 2] {
    [false, true]
}
fn obs() -> [Option<bool>; 3] {
    [None, Some(false), Some(true)]
}
/// every original/present/new equality and zero pattern (values from {0, 1, 2, MAX})
fn sstore_triples() -> Vec<(U256, U256, U256)> {
    let vs = [U256::ZERO, U256::from(1), U256::from(2), U256::MAX];
    let mut v = Vec::new();
    for o in vs {
        for p in vs {
            for n in vs {
                v.push((o, p, n));
            }
        }
    }
    v
}
fn rand_triple(r: &mut Rng) -> (U256, U256, U256) {
    let o = if r.below(3) == 0 { U256::ZERO } else { r.w() };
    let p = match r.below(4) {
        0 => o,
        1 => U256::ZERO,
        _ => r.w(),
    };
    let n = match r.below(5) {
        0 => o,
        1 => p,
        2 => U256::ZERO,
        _ => r.w(),
    };
    (o, p, n)
}
fn sres(a: &[Val], i: usize) -> SStoreResult {
    SStoreResult { original_value: a[i].w(), present_value: a[i + 1].w(), new_value: a[i + 2].w() }
}

fn simple(
    id: &str,
    names: &[&str],
    finding: bool,
    schema: Vec<(&'static str, Kind)>,
    boundary: impl Fn() -> Vec<Args> + 'static,
    random: impl Fn(&mut Rng) -> Args + 'static,
    expected: impl Fn(&[Val]) -> Option<String> + 'static,
    observed: impl Fn(&[Val]) -> String + 'static,
) -> Case {
    Case {
        id: id.to_string(),
        names: names.iter().map(|s| s.to_string()).collect(),
        finding,
        schema,
        boundary: Box::new(boundary),
        random: Box::new(random),
        expected: Box::new(expected),
        observed: Box::new(observed),
    }
}

/// a function of one length `len` whose EIP value is `f(ceil32(len))`, reported as Option<u64>
fn len_case(name: &'static str, f: fn(u128) -> u128, real: fn(u64) -> Option<u64>) -> Case {
    simple(
        &format!("gas::{}", name),
        &[name],
        false,
        vec![("len", Kind::U64)],
        || lens_exact().into_iter().map(|l| vec![Val::U64(l)]).collect(),
        |r| vec![Val::U64(rand_len_exact(r))],
        move |a| {
            let len = a[0].u64();
            if len > TOP {
                return None; // num_words finding domain
            }
            Some(fmt_opt64(opt64(f(ceil32(len as u128)))))
        },
        move |a| fmt_opt64(real(a[0].u64())),
    )
}

pub fn cases() -> Vec<Case> {
    let mut out: Vec<Case> = Vec::new();

    // ---- sstore_cost (also reached for the private helpers istanbul_sstore_cost / frontier_sstore_cost)
    out.push(simple(
        "gas::sstore_cost",
        &["sstore_cost", "istanbul_sstore_cost", "frontier_sstore_cost"],
        false,
        vec![("spec_id", Kind::S), ("original", Kind::W), ("present", Kind::W), ("new", Kind::W), ("gas", Kind::U64), ("is_cold", Kind::B)],
        || {
            let mut v = Vec::new();
            for s in all_specs() {
                for (o, p, n) in sstore_triples() {
                    for g in [0u64, 1, 2299, 2300, 2301, 2302, 100000, u64::MAX] {
                        for c in bools() {
                            v.push(vec![Val::S(s), Val::W(o), Val::W(p), Val::W(n), Val::U64(g), Val::B(c)]);
                        }
                    }
                }
            }
            v
        },
        |r| {
            let (o, p, n) = rand_triple(r);
            let g = match r.below(3) {
                0 => 2290 + r.below(20),
                _ => r.u64b(),
            };
            vec![Val::S(r.spec()), Val::W(o), Val::W(p), Val::W(n), Val::U64(g), Val::B(r.bool())]
        },
        |a| {
            let e = eip_sstore_cost(a[0].s(), a[1].w(), a[2].w(), a[3].w(), a[4].u64(), a[5].b());
            Some(match e {
                Some(v) => format!("Some({})", v),
                None => "None".into(),
            })
        },
        |a| fmt_opt64(rg::sstore_cost(a[0].s(), &sres(a, 1), a[4].u64(), a[5].b())),
    ));

    // ---- sstore_refund
    out.push(simple(
        "gas::sstore_refund",
        &["sstore_refund"],
        false,
        vec![("spec_id", Kind::S), ("original", Kind::W), ("present", Kind::W), ("new", Kind::W)],
        || {
            let mut v = Vec::new();
            for s in all_specs() {
                for (o, p, n) in sstore_triples() {
                    v.push(vec![Val::S(s), Val::W(o), Val::W(p), Val::W(n)]);
                }
            }
            v
        },
        |r| {
            let (o, p, n) = rand_triple(r);
            vec![Val::S(r.spec()), Val::W(o), Val::W(p), Val::W(n)]
        },
        |a| Some(eip_sstore_refund(a[0].s(), a[1].w(), a[2].w(), a[3].w()).to_string()),
        |a| rg::sstore_refund(a[0].s(), &sres(a, 1)).to_string(),
    ));

    // ---- sload_cost
    out.push(simple(
        "gas::sload_cost",
        &["sload_cost"],
        false,
        vec![("spec_id", Kind::S), ("is_cold", Kind::B)],
        || {
            let mut v = Vec::new();
            for s in all_specs() {
                for c in bools() {
                    v.push(vec![Val::S(s), Val::B(c)]);
                }
            }
            v
        },
        |r| vec![Val::S(r.spec()), Val::B(r.bool())],
        |a| Some(eip_sload_cost(a[0].s(), a[1].b()).to_string()),
        |a| rg::sload_cost(a[0].s(), a[1].b()).to_string(),
    ));

    // ---- call_cost: exact domain, and the finding domain
    let call_schema = || vec![("spec_id", Kind::S), ("transfers_value", Kind::B), ("is_cold", Kind::B), ("is_delegate_account_cold", Kind::OB), ("is_empty", Kind::B)];
    let call_bounds = || {
        let mut v = Vec::new();
        for s in all_specs() {
            for t in bools() {
                for c in bools() {
                    for d in obs() {
                        for e in bools() {
                            v.push(vec![Val::S(s), Val::B(t), Val::B(c), Val::OB(d), Val::B(e)]);
                        }
                    }
                }
            }
        }
        v
    };
    let call_real = |a: &[Val]| {
        let load = Eip7702CodeLoad { state_load: StateLoad { data: (), is_cold: a[2].b() }, is_delegate_account_cold: a[3].ob() };
        rg::call_cost(a[0].s(), a[1].b(), AccountLoad { load, is_empty: a[4].b() }).to_string()
    };
    out.push(simple(
        "gas::call_cost",
        &["call_cost"],
        false,
        call_schema(),
        call_bounds,
        |r| vec![Val::S(r.spec()), Val::B(r.bool()), Val::B(r.bool()), Val::OB(r.ob()), Val::B(r.bool())],
        |a| {
            if call_cost_pre_prague_delegation(a[0].s(), a[3].ob()) {
                return None; // finding domain (documented deviation)
            }
            Some(eip_call_cost(a[0].s(), a[1].b(), a[2].b(), a[3].ob(), a[4].b()).to_string())
        },
        call_real,
    ));
    out.push(simple(
        "gas::call_cost__finding_call_cost_delegation_before_prague",
        &["call_cost__finding_call_cost_delegation_before_prague"],
        true,
        call_schema(),
        call_bounds,
        |r| vec![Val::S(r.spec()), Val::B(r.bool()), Val::B(r.bool()), Val::OB(r.ob()), Val::B(r.bool())],
        |a| Some(eip_call_cost(a[0].s(), a[1].b(), a[2].b(), a[3].ob(), a[4].b()).to_string()),
        call_real,
    ));

    // ---- selfdestruct_cost
    out.push(simple(
        "gas::selfdestruct_cost",
        &["selfdestruct_cost"],
        false,
        vec![("spec_id", Kind::S), ("had_value", Kind::B), ("target_exists", Kind::B), ("previously_destroyed", Kind::B), ("is_cold", Kind::B)],
        || {
            let mut v = Vec::new();
            for s in all_specs() {
                for h in bools() {
                    for t in bools() {
                        for p in bools() {
                            for c in bools() {
                                v.push(vec![Val::S(s), Val::B(h), Val::B(t), Val::B(p), Val::B(c)]);
                            }
                        }
                    }
                }
            }
            v
        },
        |r| vec![Val::S(r.spec()), Val::B(r.bool()), Val::B(r.bool()), Val::B(r.bool()), Val::B(r.bool())],
        |a| Some(eip_selfdestruct_cost(a[0].s(), a[1].b(), a[2].b(), a[4].b()).to_string()),
        |a| {
            let res = StateLoad {
                data: SelfDestructResult { had_value: a[1].b(), target_exists: a[2].b(), previously_destroyed: a[3].b() },
                is_cold: a[4].b(),
            };
            rg::selfdestruct_cost(a[0].s(), res).to_string()
        },
    ));

    // ---- warm_cold_cost, warm_cold_cost_with_delegation
    out.push(simple(
        "gas::warm_cold_cost",
        &["warm_cold_cost"],
        false,
        vec![("is_cold", Kind::B)],
        || bools().iter().map(|b| vec![Val::B(*b)]).collect(),
        |r| vec![Val::B(r.bool())],
        |a| Some(eip2929_account_access(a[0].b()).to_string()),
        |a| rg::warm_cold_cost(a[0].b()).to_string(),
    ));
    out.push(simple(
        "gas::warm_cold_cost_with_delegation",
        &["warm_cold_cost_with_delegation"],
        false,
        vec![("is_cold", Kind::B), ("is_delegate_account_cold", Kind::OB)],
        || {
            let mut v = Vec::new();
            for c in bools() {
                for d in obs() {
                    v.push(vec![Val::B(c), Val::OB(d)]);
                }
            }
            v
        },
        |r| vec![Val::B(r.bool()), Val::OB(r.ob())],
        |a| Some((eip2929_account_access(a[0].b()) + eip7702_delegation_access(a[1].ob())).to_string()),
        |a| {
            let load = Eip7702CodeLoad { state_load: StateLoad { data: (), is_cold: a[0].b() }, is_delegate_account_cold: a[1].ob() };
            rg::warm_cold_cost_with_delegation(load).to_string()
        },
    ));

    // ---- memory_gas: exact below 2^32 words; finding domain from 2^32 words
    let word_bounds = || {
        let mut v = bounds_u64();
        v.extend([(1u64 << 32) - 2, (1u64 << 32) - 1, 1u64 << 32, (1u64 << 32) + 1, 1u64 << 40, 724, 725, 22, 23, 1 << 20]);
        v.sort();
        v.dedup();
        v
    };
    out.push(simple(
        "gas::memory_gas",
        &["memory_gas"],
        false,
        vec![("num_words", Kind::U64)],
        move || word_bounds().into_iter().filter(|w| *w < (1 << 32)).map(|w| vec![Val::U64(w)]).collect(),
        |r| vec![Val::U64(match r.below(3) {
            0 => r.below(1 << 32),
            1 => r.below(100000),
            _ => r.u64b() & 0xffff_ffff,
        })],
        |a| {
            let w = a[0].u64();
            if w >= (1 << 32) {
                return None; // finding domain
            }
            Some(yp_cmem(w as u128).to_string())
        },
        |a| rg::memory_gas(a[0].u64()).to_string(),
    ));
    out.push(simple(
        "gas::memory_gas__finding_memory_gas_over_2p32_words",
        &["memory_gas__finding_memory_gas_over_2p32_words"],
        true,
        vec![("num_words", Kind::U64)],
        move || {
            // the recorded witnesses first
            let mut v = vec![1u64 << 32, 1u64 << 40];
            v.extend(word_bounds().into_iter().filter(|w| *w >= (1 << 32)));
            v.into_iter().map(|w| vec![Val::U64(w)]).collect()
        },
        |r| vec![Val::U64(r.u64b() | (1 << 32))],
        |a| {
            // C_mem(w) when it fits u64, otherwise the saturated value (cannot be paid)
            let c = yp_cmem(a[0].u64() as u128);
            let m = big(u64::MAX as u128);
            Some((if c > m { m } else { c }).to_string())
        },
        |a| rg::memory_gas(a[0].u64()).to_string(),
    ));
    // memory_gas_for_len
    out.push(simple(
        "gas::memory_gas_for_len",
        &["memory_gas_for_len"],
        false,
        vec![("len", Kind::U64)],
        || lens_exact().into_iter().map(|l| vec![Val::U64(l)]).collect(),
        |r| vec![Val::U64(r.u64b() >> r.below(40))],
        |a| {
            let len = a[0].u64();
            if len > TOP || ceil32(len as u128) >= (1 << 32) {
                return None;
            }
            Some(yp_cmem(ceil32(len as u128)).to_string())
        },
        |a| rg::memory_gas_for_len(a[0].u64() as usize).to_string(),
    ));

    // ---- num_words (+ finding)
    out.push(simple(
        "interpreter::num_words",
        &["num_words"],
        false,
        vec![("len", Kind::U64)],
        || lens_exact().into_iter().map(|l| vec![Val::U64(l)]).collect(),
        |r| vec![Val::U64(rand_len_exact(r))],
        |a| {
            if a[0].u64() > TOP {
                return None;
            }
            Some(ceil32(a[0].u64() as u128).to_string())
        },
        |a| revm_interpreter::interpreter::num_words(a[0].u64()).to_string(),
    ));
    out.push(simple(
        "interpreter::num_words__finding_num_words_top_range",
        &["num_words__finding_num_words_top_range"],
        true,
        vec![("len", Kind::U64)],
        || {
            let mut v = vec![18446744073709551585u64]; // recorded witness: 2^64 - 31
            v.extend(bounds_u64());
            v.into_iter().map(|l| vec![Val::U64(l)]).collect()
        },
        |r| vec![Val::U64(r.u64b())],
        |a| Some(ceil32(a[0].u64() as u128).to_string()),
        |a| revm_interpreter::interpreter::num_words(a[0].u64()).to_string(),
    ));

    // ---- cost_per_word
    out.push(simple(
        "gas::cost_per_word",
        &["cost_per_word"],
        false,
        vec![("len", Kind::U64), ("multiple", Kind::U64)],
        || {
            let mut v = Vec::new();
            for l in lens_exact() {
                for m in [0u64, 1, 2, 3, 6, 32, 1 << 5, (1 << 5) + 1, 1 << 32, u64::MAX] {
                    v.push(vec![Val::U64(l), Val::U64(m)]);
                }
            }
            v
        },
        |r| vec![Val::U64(rand_len_exact(r)), Val::U64(if r.bool() { r.below(64) } else { r.u64b() })],
        |a| {
            if a[0].u64() > TOP {
                return None;
            }
            Some(fmt_opt64(opt64(a[1].u64() as u128 * ceil32(a[0].u64() as u128))))
        },
        |a| fmt_opt64(rg::cost_per_word(a[0].u64(), a[1].u64())),
    ));

    // ---- keccak256 / copy / create2 (one length)
    out.push(len_case("keccak256_cost", yp_keccak_cost, rg::keccak256_cost));
    out.push(len_case("verylowcopy_cost", yp_copy_cost, rg::verylowcopy_cost));
    out.push(len_case("create2_cost", eip1014_create2_cost, rg::create2_cost));
    out.push(simple(
        "gas::keccak256_cost__finding_keccak_top_range",
        &["keccak256_cost__finding_keccak_top_range"],
        true,
        vec![("len", Kind::U64)],
        || {
            let mut v = vec![u64::MAX]; // recorded witness
            v.extend(bounds_u64());
            v.into_iter().map(|l| vec![Val::U64(l)]).collect()
        },
        |r| vec![Val::U64(r.u64b())],
        |a| Some(fmt_opt64(opt64(yp_keccak_cost(ceil32(a[0].u64() as u128))))),
        |a| fmt_opt64(rg::keccak256_cost(a[0].u64())),
    ));
    // initcode_cost (plain u64)
    out.push(simple(
        "gas::initcode_cost",
        &["initcode_cost"],
        false,
        vec![("len", Kind::U64)],
        || lens_exact().into_iter().map(|l| vec![Val::U64(l)]).collect(),
        |r| vec![Val::U64(rand_len_exact(r))],
        |a| {
            if a[0].u64() > TOP {
                return None;
            }
            Some(eip3860_initcode_cost(ceil32(a[0].u64() as u128)).to_string())
        },
        |a| rg::initcode_cost(a[0].u64()).to_string(),
    ));
    // extcodecopy_cost
    out.push(simple(
        "gas::extcodecopy_cost",
        &["extcodecopy_cost"],
        false,
        vec![("spec_id", Kind::S), ("len", Kind::U64), ("is_cold", Kind::B)],
        || {
            let mut v = Vec::new();
            for s in all_specs() {
                for l in lens_exact() {
                    for c in bools() {
                        v.push(vec![Val::S(s), Val::U64(l), Val::B(c)]);
                    }
                }
            }
            v
        },
        |r| vec![Val::S(r.spec()), Val::U64(rand_len_exact(r)), Val::B(r.bool())],
        |a| {
            if a[1].u64() > TOP {
                return None;
            }
            Some(fmt_opt64(opt64(eip_extcode_base(a[0].s(), a[2].b()) as u128 + 3 * ceil32(a[1].u64() as u128))))
        },
        |a| fmt_opt64(rg::extcodecopy_cost(a[0].s(), a[1].u64(), a[2].b())),
    ));
    // log_cost
    out.push(simple(
        "gas::log_cost",
        &["log_cost"],
        false,
        vec![("n", Kind::U8), ("len", Kind::U64)],
        || {
            let mut v = Vec::new();
            for n in [0u8, 1, 2, 3, 4, 5, 127, 128, 255] {
                for l in bounds_u64() {
                    v.push(vec![Val::U8(n), Val::U64(l)]);
                }
                // around the overflow point of 375 + 375 n + 8 len
                let edge = ((u64::MAX as u128 - 375 - 375 * n as u128) / 8) as u64;
                for d in 0..3u64 {
                    v.push(vec![Val::U8(n), Val::U64(edge - d)]);
                    v.push(vec![Val::U8(n), Val::U64(edge + d)]);
                }
            }
            v
        },
        |r| vec![Val::U8(if r.bool() { r.below(5) as u8 } else { r.below(256) as u8 }), Val::U64(r.u64b())],
        |a| Some(fmt_opt64(opt64(yp_log_cost(a[0].u8() as u128, a[1].u64() as u128)))),
        |a| fmt_opt64(rg::log_cost(a[0].u8(), a[1].u64())),
    ));
    // exp_cost (also reached for the private helper log2floor)
    out.push(simple(
        "gas::exp_cost",
        &["exp_cost", "log2floor"],
        false,
        vec![("spec_id", Kind::S), ("power", Kind::W)],
        || {
            let mut v = Vec::new();
            for s in all_specs() {
                for p in bounds_w() {
                    v.push(vec![Val::S(s), Val::W(p)]);
                }
                for k in 0..256usize {
                    v.push(vec![Val::S(s), Val::W(U256::from(1) << k)]);
                    v.push(vec![Val::S(s), Val::W((U256::from(1) << k) - U256::from(1))]);
                }
            }
            v
        },
        |r| vec![Val::S(r.spec()), Val::W(r.w())],
        |a| Some(format!("Some({})", eip160_exp_cost(a[0].s(), a[1].w()))),
        |a| fmt_opt64(rg::exp_cost(a[0].s(), a[1].w())),
    ));
    // calc_tx_floor_cost
    out.push(simple(
        "gas::calc_tx_floor_cost",
        &["calc_tx_floor_cost"],
        false,
        vec![("tokens_in_calldata", Kind::U64)],
        || {
            let edge = ((u64::MAX as u128 - 21000) / 10) as u64;
            let mut v = bounds_u64();
            v.extend([edge - 1, edge, edge + 1]);
            v.into_iter().map(|t| vec![Val::U64(t)]).collect()
        },
        |r| vec![Val::U64(r.u64b() >> r.below(8))],
        |a| {
            let f = eip7623_floor(a[0].u64() as u128);
            if f > u64::MAX as u128 {
                return None; // precondition: the true value fits
            }
            Some(f.to_string())
        },
        |a| rg::calc_tx_floor_cost(a[0].u64()).to_string(),
    ));

    // ---- SStoreResult::is_*
    type IsFn = (&'static str, fn(U256, U256, U256) -> bool, fn(&SStoreResult) -> bool);
    let is_fns: Vec<IsFn> = vec![
        ("is_new_eq_present", |_o, p, n| n == p, |s| s.is_new_eq_present()),
        ("is_original_eq_present", |o, p, _n| o == p, |s| s.is_original_eq_present()),
        ("is_original_eq_new", |o, _p, n| o == n, |s| s.is_original_eq_new()),
        ("is_original_zero", |o, _p, _n| o.is_zero(), |s| s.is_original_zero()),
        ("is_present_zero", |_o, p, _n| p.is_zero(), |s| s.is_present_zero()),
        ("is_new_zero", |_o, _p, n| n.is_zero(), |s| s.is_new_zero()),
    ];
    for (name, orc, real) in is_fns {
        out.push(simple(
            &format!("SStoreResult::{}", name),
            &[name],
            false,
            vec![("original", Kind::W), ("present", Kind::W), ("new", Kind::W)],
            || {
                let mut v: Vec<Args> = sstore_triples().into_iter().map(|(o, p, n)| vec![Val::W(o), Val::W(p), Val::W(n)]).collect();
                // values that differ in one limb only
                for k in [0usize, 64, 128, 192, 255] {
                    let x = U256::from(1) << k;
                    v.push(vec![Val::W(x), Val::W(U256::ZERO), Val::W(x)]);
                    v.push(vec![Val::W(U256::ZERO), Val::W(x), Val::W(x)]);
                    v.push(vec![Val::W(x), Val::W(x), Val::W(U256::ZERO)]);
                }
                v
            },
            |r| {
                let (o, p, n) = rand_triple(r);
                vec![Val::W(o), Val::W(p), Val::W(n)]
            },
            move |a| Some(orc(a[0].w(), a[1].w(), a[2].w()).to_string()),
            move |a| real(&sres(a, 0)).to_string(),
        ));
    }

    // ---- SpecId::enabled / is_enabled_in
    for name in ["enabled", "is_enabled_in"] {
        out.push(simple(
            &format!("SpecId::{}", name),
            &[name],
            false,
            vec![("our", Kind::S), ("other", Kind::S)],
            || {
                let mut v = Vec::new();
                for a in all_specs() {
                    for b in all_specs() {
                        v.push(vec![Val::S(a), Val::S(b)]);
                    }
                }
                v
            },
            |r| vec![Val::S(r.spec()), Val::S(r.spec())],
            |a| Some((a[0].s() as u8 >= a[1].s() as u8).to_string()),
            move |a| (if name == "enabled" { SpecId::enabled(a[0].s(), a[1].s()) } else { a[0].s().is_enabled_in(a[1].s()) }).to_string(),
        ));
    }

    // ---- constants of gas/constants.rs against the Yellow Paper / EIP literals
    out.push(simple(
        "gas::constants_equal_the_eip_literals",
        &["constants_equal_the_eip_literals"],
        false,
        vec![("constant", Kind::Str)],
        || constants().into_iter().map(|(n, _, _)| vec![Val::Str(n.to_string())]).collect(),
        |r| {
            let c = constants();
            vec![Val::Str(c[r.below(c.len() as u64) as usize].0.to_string())]
        },
        |a| constants().into_iter().find(|(n, _, _)| *n == a[0].str()).map(|(_, lit, _)| lit.to_string()),
        |a| constants().into_iter().find(|(n, _, _)| *n == a[0].str()).map(|(_, _, real)| real.to_string()).unwrap_or_default(),
    ));
    out
}

/// (name, literal from the Yellow Paper appendix G / the EIP, value compiled into the repository)
fn constants() -> Vec<(&'static str, i128, i128)> {
    vec![
        ("ZERO", 0, rg::ZERO as i128),
        ("BASE", 2, rg::BASE as i128),
        ("VERYLOW", 3, rg::VERYLOW as i128),
        ("LOW", 5, rg::LOW as i128),
        ("MID", 8, rg::MID as i128),
        ("HIGH", 10, rg::HIGH as i128),
        ("JUMPDEST", 1, rg::JUMPDEST as i128),
        ("SELFDESTRUCT", 24000, rg::SELFDESTRUCT as i128),
        ("CREATE", 32000, rg::CREATE as i128),
        ("CALLVALUE", 9000, rg::CALLVALUE as i128),
        ("NEWACCOUNT", 25000, rg::NEWACCOUNT as i128),
        ("EXP", 10, rg::EXP as i128),
        ("MEMORY", 3, rg::MEMORY as i128),
        ("LOG", 375, rg::LOG as i128),
        ("LOGDATA", 8, rg::LOGDATA as i128),
        ("LOGTOPIC", 375, rg::LOGTOPIC as i128),
        ("KECCAK256", 30, rg::KECCAK256 as i128),
        ("KECCAK256WORD", 6, rg::KECCAK256WORD as i128),
        ("COPY", 3, rg::COPY as i128),
        ("BLOCKHASH", 20, rg::BLOCKHASH as i128),
        ("CODEDEPOSIT", 200, rg::CODEDEPOSIT as i128),
        ("SSTORE_SET", 20000, rg::SSTORE_SET as i128),
        ("SSTORE_RESET", 5000, rg::SSTORE_RESET as i128),
        ("REFUND_SSTORE_CLEARS", 15000, rg::REFUND_SSTORE_CLEARS as i128),
        ("CALL_STIPEND", 2300, rg::CALL_STIPEND as i128),
        ("MIN_CALLEE_GAS", 2300, rg::MIN_CALLEE_GAS as i128),
        ("INSTANBUL_SLOAD_GAS", 800, rg::INSTANBUL_SLOAD_GAS as i128),
        ("STANDARD_TOKEN_COST", 4, rg::STANDARD_TOKEN_COST as i128),
        ("NON_ZERO_BYTE_DATA_COST", 68, rg::NON_ZERO_BYTE_DATA_COST as i128),
        ("NON_ZERO_BYTE_MULTIPLIER", 17, rg::NON_ZERO_BYTE_MULTIPLIER as i128),
        ("NON_ZERO_BYTE_DATA_COST_ISTANBUL", 16, rg::NON_ZERO_BYTE_DATA_COST_ISTANBUL as i128),
        ("NON_ZERO_BYTE_MULTIPLIER_ISTANBUL", 4, rg::NON_ZERO_BYTE_MULTIPLIER_ISTANBUL as i128),
        ("TOTAL_COST_FLOOR_PER_TOKEN", 10, rg::TOTAL_COST_FLOOR_PER_TOKEN as i128),
        ("ACCESS_LIST_ADDRESS", 2400, rg::ACCESS_LIST_ADDRESS as i128),
        ("ACCESS_LIST_STORAGE_KEY", 1900, rg::ACCESS_LIST_STORAGE_KEY as i128),
        ("COLD_SLOAD_COST", 2100, rg::COLD_SLOAD_COST as i128),
        ("COLD_ACCOUNT_ACCESS_COST", 2600, rg::COLD_ACCOUNT_ACCESS_COST as i128),
        ("WARM_STORAGE_READ_COST", 100, rg::WARM_STORAGE_READ_COST as i128),
        ("WARM_SSTORE_RESET", 2900, rg::WARM_SSTORE_RESET as i128),
        ("INITCODE_WORD_COST", 2, rg::INITCODE_WORD_COST as i128),
        ("EOF_CREATE_GAS", 32000, rg::EOF_CREATE_GAS as i128),
        ("DATA_LOAD_GAS", 4, rg::DATA_LOAD_GAS as i128),
        ("DATA_LOADN_GAS", 3, rg::DATA_LOADN_GAS as i128),
        ("CONDITION_JUMP_GAS", 4, rg::CONDITION_JUMP_GAS as i128),
        ("RETF_GAS", 3, rg::RETF_GAS as i128),
    ]
}
