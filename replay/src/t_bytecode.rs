//! C27: `Bytecode` views. Property: whatever the representation (legacy raw, legacy analysed, EOF container --
//! also with a partially filled data section --, EIP-7702 delegation), the object stands for exactly the byte
//! string it was built from: len / is_empty / original_bytes / original_byte_slice / hash_slow are those of the
//! ORIGINAL bytes; `new_raw_checked` classifies by the two magic prefixes (EIP-3541 0xEF00, EIP-7702 0xEF01).
use crate::core::*;
use revm_interpreter::analysis::to_analysed;
use revm_primitives::{keccak256, Address, Bytecode, Bytes, Eip7702Bytecode, KECCAK_EMPTY};

/// a minimal well-formed EOF v1 container: one code section (STOP), declared data size `declared`, `present` data bytes
fn eof_container(declared: u16, present: usize) -> Vec<u8> {
    let mut v = vec![0xEF, 0x00, 0x01];
    v.extend([0x01, 0x00, 0x04]); // kind_types, size 4
    v.extend([0x02, 0x00, 0x01, 0x00, 0x01]); // kind_code, 1 section of size 1
    v.push(0x04); // kind_data
    v.extend(declared.to_be_bytes());
    v.push(0x00); // terminator
    v.extend([0x00, 0x80, 0x00, 0x00]); // types: 0 inputs, non-returning, max stack 0
    v.push(0x00); // code: STOP
    v.extend((0..present).map(|i| 0xD0u8.wrapping_add(i as u8)));
    v
}

fn samples() -> Vec<(Vec<u8>, &'static str)> {
    let mut v: Vec<(Vec<u8>, &'static str)> = Vec::new();
    for form in ["raw_checked", "legacy", "analysed"] {
        for n in [0usize, 1, 2, 3, 22, 23, 24, 32, 33, 100] {
            v.push(((0..n).map(|i| 0x60u8.wrapping_add(i as u8 * 7)).collect(), form));
        }
        v.push((vec![0x00], form));
        v.push((vec![0x5b, 0x60, 0x5b, 0x5b, 0x7f], form)); // truncated PUSH32 at the end
        v.push((vec![0xEF], form));
        v.push((vec![0xEE, 0x00, 0x01], form));
    }
    // EOF: data section full, partially filled, empty-but-declared
    for (d, p) in [(0u16, 0usize), (4, 4), (4, 3), (4, 0), (1, 0), (300, 299), (300, 1)] {
        v.push((eof_container(d, p), "raw_checked"));
    }
    // EIP-7702
    let mut del = vec![0xEF, 0x01, 0x00];
    del.extend([0xAB; 20]);
    v.push((del.clone(), "raw_checked"));
    let mut bad_ver = del.clone();
    bad_ver[2] = 1;
    v.push((bad_ver, "raw_checked"));
    v.push((del[..22].to_vec(), "raw_checked"));
    let mut long = del.clone();
    long.push(0);
    v.push((long, "raw_checked"));
    v.push((vec![0xEF, 0x01], "raw_checked"));
    v
}

fn describe(b: &Bytecode) -> String {
    let kind = match b {
        Bytecode::LegacyRaw(_) => "LegacyRaw",
        Bytecode::LegacyAnalyzed(_) => "LegacyAnalyzed",
        Bytecode::Eof(_) => "Eof",
        Bytecode::Eip7702(_) => "Eip7702",
    };
    format!(
        "Ok kind={} len={} is_empty={} original_bytes={} original_byte_slice={} hash_slow={} is_eof={} is_eip7702={} execution_ready={}",
        kind,
        b.len(),
        b.is_empty(),
        hex_of(&b.original_bytes()),
        hex_of(b.original_byte_slice()),
        b.hash_slow(),
        b.is_eof(),
        b.is_eip7702(),
        b.is_execution_ready()
    )
}

fn expected_view(kind: &str, raw: &[u8]) -> String {
    let h = if raw.is_empty() { KECCAK_EMPTY } else { keccak256(raw) };
    format!(
        "Ok kind={} len={} is_empty={} original_bytes={} original_byte_slice={} hash_slow={} is_eof={} is_eip7702={} execution_ready={}",
        kind,
        raw.len(),
        raw.is_empty(),
        hex_of(raw),
        hex_of(raw),
        h,
        kind == "Eof",
        kind == "Eip7702",
        kind != "LegacyRaw"
    )
}

pub fn cases() -> Vec<Case> {
    let mut out = Vec::new();
    out.push(mk_case(
        "Bytecode::views",
        &["len", "is_empty", "original_bytes", "original_byte_slice", "hash_slow", "new_raw_checked", "new_raw", "new_legacy", "is_eof", "is_eip7702", "is_execution_ready", "original_len", "raw", "size"],
        false,
        vec![("bytes", Kind::Hex), ("form", Kind::Str)],
        || samples().into_iter().map(|(b, f)| vec![Val::Hex(b), Val::Str(f.to_string())]).collect(),
        |r| {
            let form = r.pick(&["raw_checked", "legacy", "analysed"]);
            let bytes: Vec<u8> = match r.below(6) {
                0 => eof_container(r.below(40) as u16, 0),
                1 => {
                    let d = r.below(40) as u16;
                    eof_container(d, r.below(d as u64 + 1) as usize)
                }
                2 => {
                    let mut v = vec![0xEF, 0x01, r.pick(&[0u8, 0, 0, 1])];
                    v.extend((0..r.pick(&[20u64, 20, 20, 19, 21])).map(|_| r.next() as u8));
                    v
                }
                _ => {
                    let n = r.below(70);
                    let mut v: Vec<u8> = (0..n).map(|_| r.next() as u8).collect();
                    if v.len() >= 2 && v[0] == 0xEF && (v[1] == 0 || v[1] == 1) {
                        v[0] = 0xEE; // random bytes are kept outside the two magic prefixes
                    }
                    v
                }
            };
            let form = if bytes.starts_with(&[0xEF, 0x00]) || bytes.starts_with(&[0xEF, 0x01]) { "raw_checked" } else { form };
            vec![Val::Hex(bytes), Val::Str(form.to_string())]
        },
        |a| {
            let (raw, form) = (a[0].bytes(), a[1].str());
            match form {
                "legacy" => Some(expected_view("LegacyRaw", raw)),
                "analysed" => Some(expected_view("LegacyAnalyzed", raw)),
                "raw_checked" => {
                    if raw.starts_with(&[0xEF, 0x00]) {
                        // only the containers built by eof_container are in the domain (no EOF decoder in the oracle)
                        let ok = raw.len() >= 20 && {
                            let d = u16::from_be_bytes([raw[12], raw[13]]);
                            let p = raw.len() - 20;
                            p <= d as usize && eof_container(d, p) == raw
                        };
                        if ok {
                            Some(expected_view("Eof", raw))
                        } else {
                            None
                        }
                    } else if raw.starts_with(&[0xEF, 0x01]) {
                        // EIP-7702: 0xef01 || version 0 || 20-byte address
                        Some(if raw.len() != 23 {
                            "Err(Eip7702(InvalidLength))".to_string()
                        } else if raw[2] != 0 {
                            "Err(Eip7702(UnsupportedVersion))".to_string()
                        } else {
                            expected_view("Eip7702", raw)
                        })
                    } else {
                        Some(expected_view("LegacyRaw", raw))
                    }
                }
                _ => None,
            }
        },
        |a| {
            let raw = Bytes::from(a[0].bytes().to_vec());
            match a[1].str() {
                "legacy" => describe(&Bytecode::new_legacy(raw)),
                "analysed" => describe(&to_analysed(Bytecode::new_legacy(raw))),
                _ => match Bytecode::new_raw_checked(raw) {
                    Ok(b) => describe(&b),
                    Err(e) => format!("Err({:?})", e),
                },
            }
        },
    ));

    // to_analysed / analyze: padded copy + jump table
    out.push(mk_case(
        "analysis::to_analysed",
        &["to_analysed", "analyze"],
        false,
        vec![("code", Kind::Hex)],
        || {
            let mut v: Vec<Vec<u8>> = vec![
                vec![],
                vec![0x00],
                vec![0x5b],
                vec![0x5b, 0x00],
                vec![0x60, 0x00],                   // PUSH1 0x00: the last byte 00 is push data
                vec![0x5b, 0x60, 0x00],
                vec![0x61, 0x00],                   // truncated PUSH2 00
                vec![0x61, 0x5b, 0x00],
                vec![0x60],                         // PUSH1 without data
                vec![0x7f],                         // PUSH32 without data
                vec![0x60, 0x5b, 0x5b],             // JUMPDEST byte inside push data, then a real one
                vec![0x61, 0x5b, 0x5b, 0x5b],
                vec![0x5f, 0x5b],                   // PUSH0 has no immediate
                vec![0x00, 0x5b, 0x00],
                vec![0xfe, 0x5b],
                vec![0x5b; 80],
            ];
            // PUSH32 / PUSHn with fewer bytes than n, ending in 00, with JUMPDEST bytes inside
            for n in [2usize, 5, 16, 31, 32] {
                for have in [0usize, 1, n / 2, n - 1, n, n + 1, n + 2] {
                    let mut c = vec![0x5b, 0x5f + n as u8];
                    c.extend((0..have).map(|i| if i % 3 == 0 { 0x5b } else { 0x11 }));
                    v.push(c.clone());
                    c.push(0x00);
                    v.push(c.clone());
                    c.push(0x5b);
                    v.push(c);
                }
            }
            // EOF-only opcode bytes (immediates in EOF, none in legacy code) followed by JUMPDESTs
            for op in [0xd0u8, 0xd1, 0xd2, 0xd3, 0xe0, 0xe1, 0xe2, 0xe3, 0xe4, 0xe5, 0xe6, 0xe7, 0xe8, 0xec, 0xed, 0xee, 0xef, 0xf7, 0xf8, 0xf9, 0xfb] {
                v.push(vec![op, 0x5b, 0x5b, 0x5b, 0x5b]);
                v.push(vec![0x5b, op, 0x5b, 0x00, 0x5b, 0x5b, 0x00]);
                v.push(vec![op, 0x02, 0x5b, 0x5b, 0x5b, 0x5b, 0x5b, 0x5b, 0x5b]); // e2 = RJUMPV: immediate depends on the next byte in EOF
            }
            // every opcode byte followed by JUMPDESTs
            for op in 0..=255u8 {
                let mut c = vec![op];
                c.extend([0x5b; 34]);
                v.push(c);
            }
            v.into_iter().map(|c| vec![Val::Hex(c)]).collect()
        },
        |r| {
            let n = r.below(81) as usize;
            let pool: [u8; 24] = [0x00, 0x5b, 0x5b, 0x5b, 0x60, 0x60, 0x61, 0x62, 0x6f, 0x7e, 0x7f, 0x5f, 0xd1, 0xe0, 0xe1, 0xe2, 0xe3, 0xe8, 0xec, 0xee, 0x56, 0x57, 0xfe, 0xff];
            let mut c: Vec<u8> = (0..n).map(|_| if r.below(5) == 0 { r.next() as u8 } else { pool[r.below(24) as usize] }).collect();
            if n > 0 && r.below(3) == 0 {
                c[n - 1] = 0x00;
            }
            vec![Val::Hex(c)]
        },
        |a| {
            let code = a[0].bytes();
            let len = code.len();
            // Yellow Paper (9.4.3): valid destinations = JUMPDEST bytes that are not inside PUSH data
            let mut dests: Vec<usize> = Vec::new();
            let mut i = 0usize;
            while i < len {
                let op = code[i];
                if op == 0x5b {
                    dests.push(i);
                }
                i += if (0x60..=0x7f).contains(&op) { 1 + (op as usize - 0x5f) } else { 1 };
            }
            let mut padded = code.to_vec();
            padded.extend([0u8; 33]);
            Some(format!("kind=LegacyAnalyzed original_len={} original_bytes={} bytecode={} jump_table_bits={} jumpdests={:?}", len, hex_of(code), hex_of(&padded), len + 33, dests))
        },
        |a| {
            let b = to_analysed(Bytecode::new_legacy(Bytes::from(a[0].bytes().to_vec())));
            match &b {
                Bytecode::LegacyAnalyzed(l) => {
                    let t = l.jump_table();
                    let dests: Vec<usize> = (0..t.0.len().max(l.bytecode().len())).filter(|i| t.is_valid(*i)).collect();
                    format!("kind=LegacyAnalyzed original_len={} original_bytes={} bytecode={} jump_table_bits={} jumpdests={:?}", l.original_len(), hex_of(&b.original_bytes()), hex_of(l.bytecode()), t.0.len(), dests)
                }
                Bytecode::LegacyRaw(_) => "kind=LegacyRaw".to_string(),
                Bytecode::Eof(_) => "kind=Eof".to_string(),
                Bytecode::Eip7702(_) => "kind=Eip7702".to_string(),
            }
        },
    ));

    // Eip7702Bytecode::new_raw / new / raw / address
    out.push(mk_case(
        "Eip7702Bytecode::new_raw",
        &["new_raw", "new", "raw", "address", "new_eip7702"],
        false,
        vec![("bytes", Kind::Hex)],
        || {
            let mut v = Vec::new();
            for n in [0usize, 1, 2, 3, 22, 23, 24] {
                for (m0, m1, ver) in [(0xEFu8, 0x01u8, 0u8), (0xEF, 0x01, 1), (0xEF, 0x00, 0), (0xEE, 0x01, 0), (0xEF, 0x02, 0), (0xEF, 0x01, 0xff)] {
                    let mut b = vec![m0, m1, ver];
                    b.extend((0..20).map(|i| 0x11 + i as u8));
                    b.push(0x77);
                    b.truncate(n);
                    v.push(vec![Val::Hex(b)]);
                }
            }
            v
        },
        |r| {
            let mut b = vec![r.pick(&[0xEFu8, 0xEF, 0xEF, 0xEE]), r.pick(&[1u8, 1, 1, 0, 2]), r.pick(&[0u8, 0, 0, 1])];
            b.extend((0..r.pick(&[20u64, 20, 20, 19, 21, 0])).map(|_| r.next() as u8));
            vec![Val::Hex(b)]
        },
        |a| {
            let raw = a[0].bytes();
            Some(if raw.len() != 23 {
                "Err(InvalidLength)".to_string()
            } else if !raw.starts_with(&[0xEF, 0x01]) {
                "Err(InvalidMagic)".to_string()
            } else if raw[2] != 0 {
                "Err(UnsupportedVersion)".to_string()
            } else {
                format!("Ok address={} version=0 raw={} rebuilt_from_address={}", hex_of(&raw[3..]), hex_of(raw), hex_of(raw))
            })
        },
        |a| match Eip7702Bytecode::new_raw(Bytes::from(a[0].bytes().to_vec())) {
            Ok(b) => {
                let again = Eip7702Bytecode::new(Address::from_slice(b.address().as_slice()));
                format!("Ok address={} version={} raw={} rebuilt_from_address={}", hex_of(b.address().as_slice()), b.version, hex_of(b.raw()), hex_of(again.raw()))
            }
            Err(e) => format!("Err({:?})", e),
        },
    ));
    out
}
