//! C32: EIP-4844 / EIP-7691 blob fee helpers (crates/primitives/src/utilities.rs, env.rs).
//! Oracle = the python helpers of EIP-4844 over unbounded integers (U512 is enough on the stated domains),
//! with the EIP's literal numbers. Domains as in units/blob.rs.in:
//!   main cases: every intermediate of the u128 code fits (fe_fits) resp. excess <= 192204552 / 284284038;
//!   finding cases (`__finding_`): the EIP value fits in 128 bits.
use crate::core::*;
use revm_primitives::{calc_blob_gasprice, calc_excess_blob_gas, fake_exponential, BlobExcessGasAndPrice};

fn m128() -> U512 {
    big(u128::MAX)
}

/// EIP-4844 fake_exponential over mathematical integers.
/// Returns (value, fits) where `fits` says that every intermediate the u128 code forms is < 2^128;
/// None when the running sum exceeds 2^192 (then the result certainly exceeds 2^128: outside every domain here).
fn fe_spec(f: u64, n: u64, d: u64) -> Option<(U512, bool)> {
    assert!(d != 0);
    let (f, n, d) = (big(f as u128), big(n as u128), big(d as u128));
    let cap = pow2_512(192);
    let mut fits = f * d <= m128();
    let mut i = big(1);
    let mut output = big(0);
    let mut accum = f * d;
    let mut steps = 0u64;
    while accum > big(0) {
        if output + accum > m128() || accum * n > m128() || d * i > m128() || i + big(1) > m128() {
            fits = false;
        }
        output = output + accum;
        if output > cap {
            return None;
        }
        accum = (accum * n) / (d * i);
        i = i + big(1);
        steps += 1;
        if steps > 2_000_000 {
            return None;
        }
    }
    Some((output / d, fits))
}

fn excess_spec(pe: u64, pu: u64, t: u64) -> i128 {
    let s = pe as i128 + pu as i128;
    if s < t as i128 {
        0
    } else {
        s - t as i128
    }
}

fn frac(is_prague: bool) -> u64 {
    if is_prague {
        5007716 // EIP-7691 BLOB_BASE_FEE_UPDATE_FRACTION_PRAGUE
    } else {
        3338477 // EIP-4844 BLOB_BASE_FEE_UPDATE_FRACTION
    }
}
fn n0(is_prague: bool) -> u64 {
    if is_prague {
        284284038
    } else {
        192204552
    }
}

fn case(
    id: &str,
    names: &[&str],
    finding: bool,
    schema: Vec<(&'static str, Kind)>,
    boundary: impl Fn() -> Vec<Args> + 'static,
    random: impl Fn(&mut Rng) -> Args + 'static,
    expected: impl Fn(&[Val]) -> Option<String> + 'static,
    observed: impl Fn(&[Val]) -> String + 'static,
) -> Case {
    Case {
        id: id.to_string(),
        names: names.iter().map(|s| s.to_string()).collect(),
        finding,
        schema,
        boundary: Box::new(boundary),
        random: Box::new(random),
        expected: Box::new(expected),
        observed: Box::new(observed),
    }
}

fn fe_triples() -> Vec<(u64, u64, u64)> {
    let mut v = vec![
        // EIP-4844 / geth test vectors
        (1, 0, 1),
        (38493, 0, 1000),
        (0, 1234, 2345),
        (1, 2, 1),
        (1, 4, 2),
        (1, 3, 1),
        (1, 6, 2),
        (1, 4, 1),
        (1, 8, 2),
        (10, 8, 2),
        (1, 5, 1),
        (1, 10, 2),
        (2, 5, 2),
        (1, 50000000, 2225652),
        (1, 0, 3338477),
        (1, 2314057, 3338477),
        (1, 2314058, 3338477),
        (1, 10485760, 3338477),
        (1, 148099578, 3338477),
        (1, 148099579, 3338477),
        (1, 192204552, 3338477),
        (1, 284284038, 5007716),
    ];
    for f in [0u64, 1, 2, 7, 1000, u32::MAX as u64, u64::MAX] {
        for d in [1u64, 2, 3, 1000, 3338477, 5007716, u32::MAX as u64, u64::MAX] {
            for n in [0u64, 1, 2, 3, 10, 100, 3338477, 5007716, 10_000_000, 192204552, 284284038, u32::MAX as u64, u64::MAX] {
                v.push((f, n, d));
            }
        }
    }
    v
}

fn rand_fe(r: &mut Rng) -> (u64, u64, u64) {
    let d = match r.below(4) {
        0 => 3338477,
        1 => 5007716,
        2 => 1 + r.below(1 << 24),
        _ => r.u64b().max(1),
    };
    let f = match r.below(3) {
        0 => 1,
        1 => r.below(100000),
        _ => r.u64b() >> r.below(64),
    };
    // numerators up to ~90 d keep the EIP value within 128 bits
    let n = match r.below(3) {
        0 => r.below(d.saturating_mul(60).max(1)),
        1 => r.below(d.saturating_mul(95).max(1)),
        _ => r.below(d.max(1)),
    };
    (f, n, d)
}

pub fn cases() -> Vec<Case> {
    let mut out = Vec::new();
    let fe_schema = || vec![("factor", Kind::U64), ("numerator", Kind::U64), ("denominator", Kind::U64)];
    let fe_real = |a: &[Val]| fake_exponential(a[0].u64(), a[1].u64(), a[2].u64()).to_string();

    out.push(case(
        "utilities::fake_exponential",
        &["fake_exponential"],
        false,
        fe_schema(),
        || fe_triples().into_iter().map(|(f, n, d)| vec![Val::U64(f), Val::U64(n), Val::U64(d)]).collect(),
        |r| {
            let (f, n, d) = rand_fe(r);
            vec![Val::U64(f), Val::U64(n), Val::U64(d)]
        },
        |a| {
            if a[2].u64() == 0 {
                return None;
            }
            match fe_spec(a[0].u64(), a[1].u64(), a[2].u64()) {
                Some((v, true)) => Some(v.to_string()),
                _ => None, // outside fe_fits: the finding domain / no claim
            }
        },
        fe_real,
    ));
    out.push(case(
        "utilities::fake_exponential__finding_fe_wraps_u128_intermediates",
        &["fake_exponential__finding_fe_wraps_u128_intermediates"],
        true,
        fe_schema(),
        || {
            let mut v = vec![(1u64, 192204553u64, 3338477u64), (1, 284284039, 5007716)]; // recorded witnesses
            v.extend(fe_triples());
            v.into_iter().map(|(f, n, d)| vec![Val::U64(f), Val::U64(n), Val::U64(d)]).collect()
        },
        |r| {
            let (f, n, d) = rand_fe(r);
            vec![Val::U64(f), Val::U64(n), Val::U64(d)]
        },
        |a| {
            if a[2].u64() == 0 {
                return None;
            }
            match fe_spec(a[0].u64(), a[1].u64(), a[2].u64()) {
                Some((v, _)) if v <= m128() => Some(v.to_string()),
                _ => None,
            }
        },
        fe_real,
    ));

    let price_schema = || vec![("excess_blob_gas", Kind::U64), ("is_prague", Kind::B)];
    let price_real = |a: &[Val]| calc_blob_gasprice(a[0].u64(), a[1].b()).to_string();
    let price_bounds = |lim: bool| {
        move || {
            let mut v = Vec::new();
            for p in [false, true] {
                let mut xs: Vec<u64> = bounds_u64();
                xs.extend([2314057, 2314058, 10485760, 148099578, 148099579, 393216, 786432, 131072, 200000000, n0(p) - 1, n0(p), n0(p) + 1]);
                for x in xs {
                    if !lim || x <= n0(p) {
                        v.push(vec![Val::U64(x), Val::B(p)]);
                    }
                }
            }
            v
        }
    };
    out.push(case(
        "utilities::calc_blob_gasprice",
        &["calc_blob_gasprice"],
        false,
        price_schema(),
        price_bounds(true),
        |r| {
            let p = r.bool();
            vec![Val::U64(r.below(n0(p) + 1)), Val::B(p)]
        },
        |a| {
            let p = a[1].b();
            if a[0].u64() > n0(p) {
                return None;
            }
            fe_spec(1, a[0].u64(), frac(p)).map(|(v, _)| v.to_string())
        },
        price_real,
    ));
    out.push(case(
        "utilities::calc_blob_gasprice__finding_price_wraps_u128_intermediates",
        &["calc_blob_gasprice__finding_price_wraps_u128_intermediates"],
        true,
        price_schema(),
        move || {
            let mut v = vec![vec![Val::U64(200000000), Val::B(false)], vec![Val::U64(284284039), Val::B(true)]]; // recorded witnesses
            v.extend(price_bounds(false)());
            v
        },
        |r| {
            let p = r.bool();
            vec![Val::U64(r.below(frac(p) * 90)), Val::B(p)]
        },
        |a| match fe_spec(1, a[0].u64(), frac(a[1].b())) {
            Some((v, _)) if v <= m128() => Some(v.to_string()),
            _ => None,
        },
        price_real,
    ));

    // calc_excess_blob_gas: exact whenever representable in u64, saturating at 2^64-1 otherwise (no precondition)
    let ex_expected = |pe: u64, pu: u64, t: u64| {
        let e = excess_spec(pe, pu, t);
        if e <= u64::MAX as i128 {
            e
        } else {
            u64::MAX as i128
        }
    };
    out.push(case(
        "utilities::calc_excess_blob_gas",
        &["calc_excess_blob_gas"],
        false,
        vec![("parent_excess_blob_gas", Kind::U64), ("parent_blob_gas_used", Kind::U64), ("parent_target_blob_gas_per_block", Kind::U64)],
        || {
            let xs: Vec<u64> = vec![0, 1, 131072, 393215, 393216, 393217, 786431, 786432, 786433, 1 << 32, i64::MAX as u64, (i64::MAX as u64) + 1, u64::MAX - 393216, u64::MAX - 1, u64::MAX];
            let mut v = Vec::new();
            for a in &xs {
                for b in &xs {
                    for t in &xs {
                        v.push(vec![Val::U64(*a), Val::U64(*b), Val::U64(*t)]);
                    }
                }
            }
            v
        },
        |r| {
            let a = r.u64b();
            let b = r.u64b();
            let t = match r.below(4) {
                0 => 393216,
                1 => 786432,
                2 => a.wrapping_add(b).wrapping_add(r.below(5)).wrapping_sub(2),
                _ => r.u64b(),
            };
            vec![Val::U64(a), Val::U64(b), Val::U64(t)]
        },
        move |a| Some(ex_expected(a[0].u64(), a[1].u64(), a[2].u64()).to_string()),
        |a| calc_excess_blob_gas(a[0].u64(), a[1].u64(), a[2].u64()).to_string(),
    ));

    // BlobExcessGasAndPrice::new / from_parent_and_target
    out.push(case(
        "BlobExcessGasAndPrice::new",
        &["new", "set_blob_excess_gas_and_price"],
        false,
        price_schema(),
        price_bounds(true),
        |r| {
            let p = r.bool();
            vec![Val::U64(r.below(n0(p) + 1)), Val::B(p)]
        },
        |a| {
            let p = a[1].b();
            if a[0].u64() > n0(p) {
                return None;
            }
            fe_spec(1, a[0].u64(), frac(p)).map(|(v, _)| format!("excess_blob_gas={} blob_gasprice={}", a[0].u64(), v))
        },
        |a| {
            let r = BlobExcessGasAndPrice::new(a[0].u64(), a[1].b());
            format!("excess_blob_gas={} blob_gasprice={}", r.excess_blob_gas, r.blob_gasprice)
        },
    ));
    out.push(case(
        "BlobExcessGasAndPrice::from_parent_and_target",
        &["from_parent_and_target"],
        false,
        vec![("parent_excess_blob_gas", Kind::U64), ("parent_blob_gas_used", Kind::U64), ("parent_target_blob_gas_per_block", Kind::U64), ("is_prague", Kind::B)],
        || {
            let xs: Vec<u64> = vec![0, 1, 131072, 393215, 393216, 393217, 786432, 10485760, 96102276, 192204552, 192204553, 284284038, 284284039, u64::MAX];
            let mut v = Vec::new();
            for a in &xs {
                for b in &xs {
                    for t in [0u64, 393216, 786432, u64::MAX] {
                        for p in [false, true] {
                            v.push(vec![Val::U64(*a), Val::U64(*b), Val::U64(t), Val::B(p)]);
                        }
                    }
                }
            }
            v
        },
        |r| {
            let p = r.bool();
            let t = if r.bool() { 393216 } else { 786432 };
            vec![Val::U64(r.below(n0(p))), Val::U64(r.below(2 * 786432)), Val::U64(t), Val::B(p)]
        },
        |a| {
            let p = a[3].b();
            let e = excess_spec(a[0].u64(), a[1].u64(), a[2].u64());
            if e > n0(p) as i128 {
                return None;
            }
            fe_spec(1, e as u64, frac(p)).map(|(v, _)| format!("excess_blob_gas={} blob_gasprice={}", e, v))
        },
        |a| {
            let r = BlobExcessGasAndPrice::from_parent_and_target(a[0].u64(), a[1].u64(), a[2].u64(), a[3].b());
            format!("excess_blob_gas={} blob_gasprice={}", r.excess_blob_gas, r.blob_gasprice)
        },
    ));

    // constants (blob: constants_match_eip)
    let consts = || -> Vec<(&'static str, u128, u128)> {
        vec![
            ("GAS_PER_BLOB", 131072, revm_primitives::GAS_PER_BLOB as u128),
            ("MIN_BLOB_GASPRICE", 1, revm_primitives::MIN_BLOB_GASPRICE as u128),
            ("BLOB_BASE_FEE_UPDATE_FRACTION_CANCUN", 3338477, revm_primitives::BLOB_BASE_FEE_UPDATE_FRACTION_CANCUN as u128),
            ("BLOB_BASE_FEE_UPDATE_FRACTION_ELECTRA", 5007716, revm_primitives::BLOB_BASE_FEE_UPDATE_FRACTION_ELECTRA as u128),
        ]
    };
    out.push(case(
        "blob::constants_match_eip",
        &["constants_match_eip"],
        false,
        vec![("constant", Kind::Str)],
        move || consts().into_iter().map(|(n, _, _)| vec![Val::Str(n.to_string())]).collect(),
        move |r| {
            let c = consts();
            vec![Val::Str(c[r.below(c.len() as u64) as usize].0.to_string())]
        },
        move |a| consts().into_iter().find(|(n, _, _)| *n == a[0].str()).map(|(_, l, _)| l.to_string()),
        move |a| consts().into_iter().find(|(n, _, _)| *n == a[0].str()).map(|(_, _, r)| r.to_string()).unwrap_or_default(),
    ));
    out
}
