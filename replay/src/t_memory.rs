//! C11: per-frame memory. (a) `SharedMemory` method sequences against a `Vec<Vec<u8>>` model (one Vec per context:
//! a child context never sees or changes its parents' bytes, free_context gives the parent back unchanged);
//! (b) `resize_memory`: Yellow Paper memory expansion cost C_mem(new) - C_mem(old), success iff affordable;
//! (c) MLOAD / MSTORE / MSTORE8 / MSIZE / MCOPY through a real Interpreter (oracle: units/meminstr.rs.in, Yellow Paper
//! H.1 / H.2, EIP-5656), in a child context whose parent holds data.
//! Sizes stay small: the recorded finding (resize wraps usize with ~1.77e18 gas) is outside the generator.
use crate::core::*;
use revm_interpreter::instructions::memory as mi;
use revm_interpreter::{Contract, DummyHost, Gas, Interpreter, SharedMemory};
use revm_primitives::{Spec, SpecId, B256, U256};

// ---------------------------------------------------------------------------------- (a) method sequences

#[derive(Clone, Debug)]
enum Op {
    NewContext,
    FreeContext,
    Resize(usize),
    Set(usize, Vec<u8>),
    SetByte(usize, u8),
    SetWord(usize, Vec<u8>),
    SetU256(usize, U256),
    SetData(usize, usize, usize, Vec<u8>),
    Copy(usize, usize, usize),
    Slice(usize, usize),
    GetByte(usize),
    GetWord(usize),
    GetU256(usize),
}

fn op_text(op: &Op) -> String {
    match op {
        Op::NewContext => "new_context()".into(),
        Op::FreeContext => "free_context()".into(),
        Op::Resize(n) => format!("resize({})", n),
        Op::Set(o, v) => format!("set({},{})", o, hex_of(v)),
        Op::SetByte(o, b) => format!("set_byte({},{})", o, b),
        Op::SetWord(o, v) => format!("set_word({},{})", o, hex_of(v)),
        Op::SetU256(o, v) => format!("set_u256({},{:#x})", o, v),
        Op::SetData(m, d, l, v) => format!("set_data({},{},{},{})", m, d, l, hex_of(v)),
        Op::Copy(d, s, l) => format!("copy({},{},{})", d, s, l),
        Op::Slice(o, n) => format!("slice({},{})", o, n),
        Op::GetByte(o) => format!("get_byte({})", o),
        Op::GetWord(o) => format!("get_word({})", o),
        Op::GetU256(o) => format!("get_u256({})", o),
    }
}
fn ops_text(ops: &[Op]) -> String {
    ops.iter().map(op_text).collect::<Vec<_>>().join("; ")
}
fn parse_ops(s: &str) -> Result<Vec<Op>, String> {
    let mut out = Vec::new();
    for part in s.split(';') {
        let p = part.trim();
        if p.is_empty() {
            continue;
        }
        let (name, rest) = p.split_once('(').ok_or_else(|| format!("bad operation {:?}", p))?;
        let args: Vec<&str> = rest.trim_end_matches(')').split(',').map(|x| x.trim()).filter(|x| !x.is_empty()).collect();
        let u = |i: usize| -> Result<usize, String> { args.get(i).and_then(|x| x.parse::<usize>().ok()).ok_or_else(|| format!("bad number in {:?}", p)) };
        let h = |i: usize| -> Result<Vec<u8>, String> { args.get(i).and_then(|x| parse_hex(x)).ok_or_else(|| format!("bad bytes in {:?}", p)) };
        out.push(match name.trim() {
            "new_context" => Op::NewContext,
            "free_context" => Op::FreeContext,
            "resize" => Op::Resize(u(0)?),
            "set" => Op::Set(u(0)?, h(1)?),
            "set_byte" => Op::SetByte(u(0)?, u(1)? as u8),
            "set_word" => Op::SetWord(u(0)?, h(1)?),
            "set_u256" => Op::SetU256(u(0)?, args.get(1).and_then(|x| U256::from_str_radix(x.trim_start_matches("0x"), 16).ok()).ok_or_else(|| format!("bad word in {:?}", p))?),
            "set_data" => Op::SetData(u(0)?, u(1)?, u(2)?, h(3).unwrap_or_default()),
            "copy" => Op::Copy(u(0)?, u(1)?, u(2)?),
            "slice" => Op::Slice(u(0)?, u(1)?),
            "get_byte" => Op::GetByte(u(0)?),
            "get_word" => Op::GetWord(u(0)?),
            "get_u256" => Op::GetU256(u(0)?),
            other => return Err(format!("unknown operation {:?}", other)),
        });
    }
    Ok(out)
}

/// Yellow Paper (326): C_mem(a) = 3 a + floor(a^2 / 512)
fn cmem(words: u128) -> u128 {
    3 * words + words * words / 512
}
fn ceil32(n: u128) -> u128 {
    (n + 31) / 32
}

/// the model: one Vec per context, the last one is the active memory. `in_bounds`: the operation's precondition.
fn in_bounds(cur: &[u8], op: &Op) -> bool {
    let n = cur.len();
    match op {
        Op::Set(o, v) => v.is_empty() || o + v.len() <= n,
        Op::SetByte(o, _) | Op::GetByte(o) => o + 1 <= n,
        Op::SetWord(o, v) => v.len() == 32 && o + 32 <= n,
        Op::SetU256(o, _) | Op::GetWord(o) | Op::GetU256(o) => o + 32 <= n,
        Op::SetData(m, _, l, _) => m + l <= n,
        Op::Copy(d, s, l) => s + l <= n && d + l <= n,
        Op::Slice(o, l) => o + l <= n,
        Op::Resize(k) => *k <= 4096,
        Op::NewContext | Op::FreeContext => true,
    }
}

fn run_seq(ops: &[Op]) -> String {
    let mut mem = SharedMemory::new();
    let mut model: Vec<Vec<u8>> = vec![Vec::new()];
    for (step, op) in ops.iter().enumerate() {
        let fail = |what: String| format!("step {} `{}`: {}", step + 1, op_text(op), what);
        if !in_bounds(model.last().unwrap(), op) {
            continue; // out of bounds accesses are outside the methods' preconditions
        }
        if matches!(op, Op::NewContext) && model.len() >= 5 {
            continue;
        }
        let cur = model.len() - 1;
        match op {
            Op::NewContext => {
                mem.new_context();
                model.push(Vec::new());
            }
            Op::FreeContext => {
                mem.free_context();
                if model.len() > 1 {
                    model.pop();
                } // without an open context: no effect
            }
            Op::Resize(n) => {
                mem.resize(*n);
                model[cur].resize(*n, 0);
            }
            Op::Set(o, v) => {
                mem.set(*o, v);
                if !v.is_empty() {
                    model[cur][*o..*o + v.len()].copy_from_slice(v);
                }
            }
            Op::SetByte(o, b) => {
                mem.set_byte(*o, *b);
                model[cur][*o] = *b;
            }
            Op::SetWord(o, v) => {
                mem.set_word(*o, &B256::from_slice(v));
                model[cur][*o..*o + 32].copy_from_slice(v);
            }
            Op::SetU256(o, v) => {
                mem.set_u256(*o, *v);
                // big-endian image of the word
                for i in 0..32 {
                    model[cur][*o + i] = ((*v >> (8 * (31 - i))) & U256::from(0xff)).as_limbs()[0] as u8;
                }
            }
            Op::SetData(m, d, l, data) => {
                mem.set_data(*m, *d, *l, data);
                // data[d .. d + l] zero-extended
                for i in 0..*l {
                    model[cur][*m + i] = data.get(*d + i).copied().unwrap_or(0);
                }
            }
            Op::Copy(d, s, l) => {
                mem.copy(*d, *s, *l);
                let tmp: Vec<u8> = model[cur][*s..*s + *l].to_vec();
                model[cur][*d..*d + *l].copy_from_slice(&tmp);
            }
            Op::Slice(o, l) => {
                let got = mem.slice(*o, *l).to_vec();
                if got != model[cur][*o..*o + *l] {
                    return fail(format!("returned {}, expected {}", hex_of(&got), hex_of(&model[cur][*o..*o + *l])));
                }
            }
            Op::GetByte(o) => {
                let got = mem.get_byte(*o);
                if got != model[cur][*o] {
                    return fail(format!("returned {}, expected {}", got, model[cur][*o]));
                }
            }
            Op::GetWord(o) => {
                let got = mem.get_word(*o);
                if got.as_slice() != &model[cur][*o..*o + 32] {
                    return fail(format!("returned {}, expected {}", got, hex_of(&model[cur][*o..*o + 32])));
                }
            }
            Op::GetU256(o) => {
                let got = mem.get_u256(*o);
                let mut exp = U256::ZERO;
                for b in &model[cur][*o..*o + 32] {
                    exp = (exp << 8) | U256::from(*b);
                }
                if got != exp {
                    return fail(format!("returned {:#x}, expected {:#x}", got, exp));
                }
            }
        }
        let m = model.last().unwrap();
        if mem.len() != m.len() || mem.is_empty() != m.is_empty() {
            return fail(format!("len() = {} is_empty() = {}, expected {} {}", mem.len(), mem.is_empty(), m.len(), m.is_empty()));
        }
        if mem.context_memory() != &m[..] {
            return fail(format!("context memory = {}, expected {}", hex_of(mem.context_memory()), hex_of(m)));
        }
        if mem.context_memory_mut() != &m[..] {
            return fail("context_memory_mut() differs from context_memory()".into());
        }
        let exp_cost = cmem(ceil32(m.len() as u128));
        if mem.current_expansion_cost() as u128 != exp_cost {
            return fail(format!("current_expansion_cost() = {}, expected {}", mem.current_expansion_cost(), exp_cost));
        }
    }
    // unwind: every parent must come back exactly as it was left
    while model.len() > 1 {
        mem.free_context();
        model.pop();
        let m = model.last().unwrap();
        if mem.len() != m.len() || mem.context_memory() != &m[..] {
            return format!("after the final free_context() (back in context {}): memory = {}, expected {}", model.len() - 1, hex_of(mem.context_memory()), hex_of(m));
        }
    }
    "ok".into()
}

fn pattern(r: &mut Rng, n: usize) -> Vec<u8> {
    (0..n).map(|_| 1 + r.below(255) as u8).collect()
}

/// `focus`: operation kind that appears more often (0..=12), 99 = none
fn rand_seq(r: &mut Rng, focus: u64) -> Vec<Op> {
    let mut ops = Vec::new();
    let mut lens: Vec<usize> = vec![0];
    let n = 3 + r.below(10);
    while (ops.len() as u64) < n {
        let cur = *lens.last().unwrap();
        let kind = match r.below(8) {
            0 | 1 if focus < 13 => focus,
            2 => 2,
            _ => r.below(13),
        };
        let off = |r: &mut Rng, need: usize| -> Option<usize> {
            if cur < need {
                None
            } else {
                Some(r.below((cur - need) as u64 + 1) as usize)
            }
        };
        let op = match kind {
            0 => {
                lens.push(0);
                Op::NewContext
            }
            1 => {
                if lens.len() > 1 {
                    lens.pop();
                }
                Op::FreeContext
            }
            2 => {
                let k = r.pick(&[0usize, 32, 64, 96, 128, 33, 1, 160]);
                *lens.last_mut().unwrap() = k;
                Op::Resize(k)
            }
            3 => {
                let l = r.below(40) as usize;
                match off(r, l) {
                    Some(o) => Op::Set(o, pattern(r, l)),
                    None => continue,
                }
            }
            4 => match off(r, 1) {
                Some(o) => Op::SetByte(o, r.next() as u8),
                None => continue,
            },
            5 => match off(r, 32) {
                Some(o) => Op::SetWord(o, pattern(r, 32)),
                None => continue,
            },
            6 => match off(r, 32) {
                Some(o) => Op::SetU256(o, r.w()),
                None => continue,
            },
            7 => {
                let l = r.below(50) as usize;
                match off(r, l) {
                    Some(o) => {
                        let dl = r.below(40) as usize;
                        Op::SetData(o, r.below(45) as usize, l, pattern(r, dl))
                    }
                    None => continue,
                }
            }
            8 => {
                let l = r.below(cur as u64 + 1) as usize;
                match (off(r, l), off(r, l)) {
                    (Some(d), Some(s)) => Op::Copy(d, s, l),
                    _ => continue,
                }
            }
            9 => {
                let l = r.below(cur as u64 + 1) as usize;
                match off(r, l) {
                    Some(o) => Op::Slice(o, l),
                    None => continue,
                }
            }
            10 => match off(r, 1) {
                Some(o) => Op::GetByte(o),
                None => continue,
            },
            11 => match off(r, 32) {
                Some(o) => Op::GetWord(o),
                None => continue,
            },
            _ => match off(r, 32) {
                Some(o) => Op::GetU256(o),
                None => continue,
            },
        };
        ops.push(op);
    }
    ops
}

fn boundary_seqs() -> Vec<Vec<Op>> {
    use Op::*;
    let p = |seed: u8, n: usize| -> Vec<u8> { (0..n).map(|i| seed.wrapping_add(i as u8) | 1).collect() };
    vec![
        // the reference mutation (copy with absolute buffer offsets in a child context)
        vec![Resize(64), Set(0, p(0x10, 64)), NewContext, Resize(64), Set(0, p(0x80, 64)), Copy(0, 32, 16), Slice(0, 64), FreeContext, Slice(0, 64)],
        vec![Resize(96), Set(0, p(1, 96)), NewContext, Resize(32), NewContext, Resize(64), Set(0, p(0x41, 64)), Copy(32, 0, 32), Copy(1, 0, 40), FreeContext, FreeContext],
        vec![Resize(64), Set(0, p(7, 64)), Copy(0, 16, 32), Copy(16, 0, 48), Copy(5, 5, 10), Copy(0, 0, 0), Copy(64, 64, 0)],
        vec![Resize(32), NewContext, Resize(64), SetByte(0, 0xAA), SetByte(63, 0xBB), GetByte(0), GetByte(63), FreeContext, GetByte(0)],
        vec![Resize(64), SetWord(0, p(3, 32)), SetWord(32, p(9, 32)), GetWord(0), GetWord(16), GetU256(32), NewContext, Resize(32), GetWord(0), SetU256(0, U256::MAX - U256::from(5)), GetU256(0), FreeContext, GetU256(32)],
        vec![Resize(64), Set(0, p(0x21, 64)), SetData(0, 0, 32, p(0x61, 8)), SetData(32, 4, 8, p(0x71, 8)), SetData(40, 100, 8, p(0x11, 8)), SetData(48, 8, 0, p(0x11, 8)), SetData(50, 7, 5, p(0x91, 8))],
        vec![Resize(64), Set(0, p(0x31, 64)), NewContext, Resize(64), SetData(0, 0, 64, p(0x51, 10)), FreeContext, Slice(0, 64)],
        vec![FreeContext, Resize(32), FreeContext, Slice(0, 32), NewContext, FreeContext, FreeContext],
        vec![Resize(64), Set(10, p(0x41, 20)), Resize(32), Resize(64), Slice(0, 64), NewContext, Resize(33), Resize(1), Resize(0), FreeContext, Slice(0, 64)],
        vec![Resize(32), Set(0, vec![]), Set(32, vec![]), Slice(32, 0), Slice(0, 0)],
        vec![Resize(128), Set(0, p(0x15, 128)), NewContext, Resize(128), Set(0, p(0x95, 128)), NewContext, Resize(32), Copy(0, 0, 32), FreeContext, Copy(64, 0, 64), Slice(0, 128), FreeContext, Slice(0, 128)],
    ]
}

const SEQ_NAMES: [(&str, u64); 22] = [
    ("new", 99),
    ("with_capacity", 99),
    ("new_context", 0),
    ("free_context", 1),
    ("resize", 2),
    ("set", 3),
    ("set_byte", 4),
    ("set_word", 5),
    ("set_u256", 6),
    ("set_data", 7),
    ("copy", 8),
    ("slice", 9),
    ("slice_range", 9),
    ("slice_mut", 3),
    ("get_byte", 10),
    ("get_word", 11),
    ("get_u256", 12),
    ("len", 2),
    ("is_empty", 2),
    ("current_expansion_cost", 2),
    ("context_memory", 0),
    ("context_memory_mut", 0),
];

// ---------------------------------------------------------------------------------- (c) instructions

type IFn = fn(&mut Interpreter, &mut DummyHost);

fn filler(i: usize) -> U256 {
    U256::from_limbs([0xF111E4 + i as u64, 0xA5A5A5A5A5A5A5A5, 0x5A5A5A5A5A5A5A5A, 0xC0FFEE0000000000 + i as u64])
}
fn parent_bytes() -> Vec<u8> {
    (0..96).map(|i| 0xC0u8.wrapping_add(i as u8) | 1).collect()
}

fn render(result: &str, limit: u64, remaining: u64, stack: &[U256], mem: &[u8], parent_ok: bool) -> String {
    let mut s = format!("result={} gas_limit={} gas_remaining={} stack(bottom..top)=[", result, limit, remaining);
    for (i, w) in stack.iter().enumerate() {
        if i > 0 {
            s.push_str(", ");
        }
        s.push_str(&format!("{:#x}", w));
    }
    s.push_str(&format!("] memory={} parent_memory_intact={}", hex_of(mem), parent_ok));
    s
}

#[derive(Clone, Copy, PartialEq)]
enum MI {
    Mload,
    Mstore,
    Mstore8,
    Msize,
    Mcopy,
}

fn effective_spec(s: SpecId) -> SpecId {
    revm_primitives::spec_to_generic!(s, <SPEC as Spec>::SPEC_ID)
}
fn mcopy_fn(s: SpecId) -> IFn {
    revm_primitives::spec_to_generic!(s, mi::mcopy::<DummyHost, SPEC>)
}

/// operands[0] is the top of the stack. `words` = total words on the stack (fillers beneath, or fewer operands)
fn pre_stack(operands: &[U256], words: usize) -> Vec<U256> {
    let n = operands.len();
    let mut s = Vec::new();
    if words >= n {
        for i in 0..(words - n) {
            s.push(filler(i));
        }
        for k in (0..n).rev() {
            s.push(operands[k]);
        }
    } else {
        for k in (0..words).rev() {
            s.push(operands[k]);
        }
    }
    s
}

fn small(x: U256) -> Option<u128> {
    let l = x.as_limbs();
    if l[1] == 0 && l[2] == 0 && l[3] == 0 {
        Some(l[0] as u128)
    } else {
        None
    }
}

/// Yellow Paper: touching [off, off + l) with l > 0 grows the active memory to 32 * ceil((off + l) / 32), new bytes zero
fn touch(mem: &[u8], need: u128) -> (Vec<u8>, u128) {
    if need > mem.len() as u128 {
        let new_len = 32 * ceil32(need);
        let cost = cmem(new_len / 32) - cmem(ceil32(mem.len() as u128));
        let mut m = mem.to_vec();
        if new_len <= (1 << 24) {
            m.resize(new_len as usize, 0);
        }
        (m, cost)
    } else {
        (mem.to_vec(), 0)
    }
}

// args: [a, (b), (c), gas_limit, stack_words, memory (hex, active context), spec]
fn mi_arity(k: MI) -> usize {
    match k {
        MI::Mload => 1,
        MI::Mstore | MI::Mstore8 => 2,
        MI::Msize => 0,
        MI::Mcopy => 3,
    }
}

fn mi_expected(k: MI, a: &[Val]) -> Option<String> {
    let n = mi_arity(k);
    let ops: Vec<U256> = a[..n].iter().map(|v| v.w()).collect();
    let (gas, words, mem, spec) = (a[n].u64(), a[n + 1].u8() as usize, a[n + 2].bytes().to_vec(), effective_spec(a[n + 3].s()));
    if mem.len() % 32 != 0 || gas > (1 << 40) {
        return None; // the frame invariant: word-aligned memory, realistic gas
    }
    let s = pre_stack(&ops, words);
    let g = gas as u128;
    let out = |res: &str, charged: u128, st: &[U256], m: &[u8]| Some(render(res, gas, (g - charged) as u64, st, m, true));
    let popped = |k: usize| -> Vec<U256> { s[..s.len() - k].to_vec() };
    match k {
        MI::Msize => {
            if g < 2 {
                return out("OutOfGas", 0, &s, &mem);
            }
            let mut t = s.clone();
            t.push(U256::from(mem.len()));
            out("Continue", 2, &t, &mem)
        }
        MI::Mload | MI::Mstore | MI::Mstore8 => {
            if g < 3 {
                return out("OutOfGas", 0, &s, &mem);
            }
            if s.len() < n {
                return out("StackUnderflow", 3, &s, &mem);
            }
            let after_pop = if k == MI::Mload { s.clone() } else { popped(2) };
            let Some(off) = small(ops[0]) else { return out("InvalidOperandOOG", 3, &after_pop, &mem) };
            let width = if k == MI::Mstore8 { 1 } else { 32 };
            let (mut m, c) = touch(&mem, off + width);
            if g - 3 < c {
                return out("MemoryOOG", 3, &after_pop, &mem);
            }
            if m.len() as u128 > (1 << 24) || (m.len() as u128) < off + width {
                return None; // too large for this oracle
            }
            let off = off as usize;
            match k {
                MI::Mload => {
                    let mut w = U256::ZERO;
                    for b in &m[off..off + 32] {
                        w = (w << 8) | U256::from(*b);
                    }
                    let mut t = popped(1);
                    t.push(w);
                    out("Continue", 3 + c, &t, &m)
                }
                MI::Mstore => {
                    for i in 0..32 {
                        m[off + i] = ((ops[1] >> (8 * (31 - i))) & U256::from(0xff)).as_limbs()[0] as u8;
                    }
                    out("Continue", 3 + c, &after_pop, &m)
                }
                _ => {
                    m[off] = (ops[1] & U256::from(0xff)).as_limbs()[0] as u8;
                    out("Continue", 3 + c, &after_pop, &m)
                }
            }
        }
        MI::Mcopy => {
            if !ge(spec, SpecId::CANCUN) {
                return out("NotActivated", 0, &s, &mem);
            }
            if s.len() < 3 {
                return out("StackUnderflow", 0, &s, &mem);
            }
            let t = popped(3);
            let Some(len) = small(ops[2]) else { return out("InvalidOperandOOG", 0, &t, &mem) };
            // EIP-5656: G_verylow + G_copy * ceil(len / 32)
            let cc = 3 + 3 * ceil32(len);
            if g < cc {
                return out("OutOfGas", 0, &t, &mem);
            }
            if len == 0 {
                return out("Continue", cc, &t, &mem);
            }
            let Some(dst) = small(ops[0]) else { return out("InvalidOperandOOG", cc, &t, &mem) };
            let Some(src) = small(ops[1]) else { return out("InvalidOperandOOG", cc, &t, &mem) };
            let (m1, c) = touch(&mem, dst.max(src) + len);
            if g - cc < c {
                return out("MemoryOOG", cc, &t, &mem);
            }
            if m1.len() as u128 > (1 << 24) || (m1.len() as u128) < dst.max(src) + len {
                return None;
            }
            let (dst, src, len) = (dst as usize, src as usize, len as usize);
            let mut m2 = m1.clone();
            m2[dst..dst + len].copy_from_slice(&m1[src..src + len]);
            out("Continue", cc + c, &t, &m2)
        }
    }
}

fn mi_observed(k: MI, a: &[Val]) -> String {
    let n = mi_arity(k);
    let ops: Vec<U256> = a[..n].iter().map(|v| v.w()).collect();
    let (gas, words, mem, spec) = (a[n].u64(), a[n + 1].u8() as usize, a[n + 2].bytes(), a[n + 3].s());
    let mut interp = Interpreter::new(Contract::default(), gas, false);
    // a parent context with data, then the frame's own context
    let mut sm = SharedMemory::new();
    let parent = parent_bytes();
    sm.resize(parent.len());
    sm.set(0, &parent);
    sm.new_context();
    sm.resize(mem.len());
    sm.set(0, mem);
    interp.shared_memory = sm;
    for w in pre_stack(&ops, words) {
        interp.stack.push(w).expect("push");
    }
    let mut host = DummyHost::default();
    let f: IFn = match k {
        MI::Mload => mi::mload::<DummyHost>,
        MI::Mstore => mi::mstore::<DummyHost>,
        MI::Mstore8 => mi::mstore8::<DummyHost>,
        MI::Msize => mi::msize::<DummyHost>,
        MI::Mcopy => mcopy_fn(spec),
    };
    f(&mut interp, &mut host);
    let active = interp.shared_memory.context_memory().to_vec();
    let mut sm = std::mem::replace(&mut interp.shared_memory, SharedMemory::new());
    sm.free_context();
    let parent_ok = sm.context_memory() == &parent[..];
    render(&format!("{:?}", interp.instruction_result), interp.gas.limit(), interp.gas.remaining(), interp.stack.data(), &active, parent_ok)
}

fn mems() -> Vec<Vec<u8>> {
    vec![vec![], (0..32).map(|i| 0x11 + i as u8).collect(), (0..64).map(|i| 0x41u8.wrapping_add(i as u8 * 3) | 1).collect(), (0..128).map(|i| 0x81u8.wrapping_add(i as u8) | 1).collect()]
}

fn mi_case(name: &'static str, k: MI) -> Case {
    let n = mi_arity(k);
    let mut schema: Vec<(&'static str, Kind)> = match k {
        MI::Mload => vec![("offset", Kind::W)],
        MI::Mstore | MI::Mstore8 => vec![("offset", Kind::W), ("value", Kind::W)],
        MI::Msize => vec![],
        MI::Mcopy => vec![("dst", Kind::W), ("src", Kind::W), ("len", Kind::W)],
    };
    schema.extend([("gas_limit", Kind::U64), ("stack_words", Kind::U8), ("memory", Kind::Hex), ("spec_id", Kind::S)]);
    let offs = || -> Vec<U256> {
        let mut v: Vec<U256> = [0u64, 1, 31, 32, 33, 63, 64, 65, 96, 127, 128, 129, 1000, 4096, 1 << 20, 1 << 32, u64::MAX - 31, u64::MAX].iter().map(|x| U256::from(*x)).collect();
        v.extend([U256::from(1) << 64, U256::MAX, U256::from(1) << 255]);
        v
    };
    let vals = || -> Vec<U256> { vec![U256::ZERO, U256::from(0x1234), U256::MAX, U256::from_limbs([0x0123456789abcdef, 0xfedcba9876543210, 0x0f1e2d3c4b5a6978, 0x8796a5b4c3d2e1f0])] };
    let mk = move |ops: &[U256], gas: u64, words: u8, mem: &[u8], spec: SpecId| -> Args {
        let mut v: Args = ops.iter().map(|w| Val::W(*w)).collect();
        v.extend([Val::U64(gas), Val::U8(words), Val::Hex(mem.to_vec()), Val::S(spec)]);
        v
    };
    mk_case(
        &format!("instr::{}", name),
        &[name],
        false,
        schema,
        move || {
            let mut v = Vec::new();
            let tuples: Vec<Vec<U256>> = match k {
                MI::Msize => vec![vec![]],
                MI::Mload => offs().into_iter().map(|o| vec![o]).collect(),
                MI::Mstore | MI::Mstore8 => {
                    let mut t = Vec::new();
                    for o in offs() {
                        for x in vals() {
                            t.push(vec![o, x]);
                        }
                    }
                    t
                }
                MI::Mcopy => {
                    let small_offs: Vec<U256> = [0u64, 1, 16, 31, 32, 33, 64, 96, 128, 200].iter().map(|x| U256::from(*x)).collect();
                    let lens: Vec<U256> = [0u64, 1, 31, 32, 33, 64, 100].iter().map(|x| U256::from(*x)).collect();
                    let mut t = Vec::new();
                    for d in &small_offs {
                        for s in &small_offs {
                            for l in &lens {
                                t.push(vec![*d, *s, *l]);
                            }
                        }
                    }
                    for big in [U256::from(1) << 64, U256::MAX, U256::from(1u64 << 40)] {
                        t.push(vec![big, U256::ZERO, U256::from(1)]);
                        t.push(vec![U256::ZERO, big, U256::from(1)]);
                        t.push(vec![U256::ZERO, U256::ZERO, big]);
                        t.push(vec![big, big, U256::ZERO]);
                    }
                    t
                }
            };
            let specs = if k == MI::Mcopy { all_specs() } else { vec![SpecId::LATEST] };
            for t in &tuples {
                for m in mems() {
                    v.push(mk(t, 1_000_000, n as u8, &m, SpecId::LATEST));
                }
            }
            // gas boundaries, stack shapes, forks on a few tuples
            for t in tuples.iter().step_by((tuples.len() / 12).max(1)) {
                let m = &mems()[1];
                let base = mi_expected(k, &mk(t, 1_000_000, n as u8, m, SpecId::LATEST)).map(|_| 0u64);
                let _ = base;
                for g in [0u64, 1, 2, 3, 4, 5, 6, 8, 9, 11, 12, 14, 15, 20, 30, 100] {
                    for w in 0..=(n as u8 + 1) {
                        for s in &specs {
                            v.push(mk(t, g, w, m, *s));
                        }
                    }
                }
            }
            v
        },
        move |r| {
            let mut ops: Vec<U256> = Vec::new();
            for i in 0..n {
                let is_value = (k == MI::Mstore || k == MI::Mstore8) && i == 1;
                ops.push(if is_value {
                    r.w()
                } else {
                    match r.below(12) {
                        0 => r.w(),
                        1 => U256::from(r.u64b()),
                        _ => U256::from(r.below(300)),
                    }
                });
            }
            let gas = match r.below(4) {
                0 => r.below(40),
                1 => r.below(400),
                _ => 1_000_000,
            };
            let words = if r.below(8) == 0 { r.below(n as u64 + 2) as u8 } else { n as u8 + r.below(2) as u8 };
            let m = r.pick(&mems());
            let spec = if k == MI::Mcopy && r.below(3) == 0 { r.spec() } else { SpecId::LATEST };
            mk(&ops, gas, words, &m, spec)
        },
        move |a| mi_expected(k, a),
        move |a| mi_observed(k, a),
    )
}

// ---------------------------------------------------------------------------------- cases

pub fn cases() -> Vec<Case> {
    let mut out = Vec::new();
    for (name, focus) in SEQ_NAMES {
        out.push(mk_case(
            &format!("SharedMemory::sequence[{}]", name),
            &[name],
            false,
            vec![("ops", Kind::Str)],
            || boundary_seqs().into_iter().map(|q| vec![Val::Str(ops_text(&q))]).collect(),
            move |r| vec![Val::Str(ops_text(&rand_seq(r, focus)))],
            |a| parse_ops(a[0].str()).ok().map(|_| "ok".to_string()),
            |a| match parse_ops(a[0].str()) {
                Ok(ops) => run_seq(&ops),
                Err(e) => e,
            },
        ));
    }

    // (b) resize_memory(memory, gas, new_size): precondition new_size >= len (call sites), sizes small
    out.push(mk_case(
        "interpreter::resize_memory",
        &["resize_memory"],
        false,
        vec![("current_len", Kind::U64), ("new_size", Kind::U64), ("gas_remaining", Kind::U64), ("in_child_context", Kind::B)],
        || {
            let mut v = Vec::new();
            for cur in [0u64, 32, 64, 1024] {
                for new in [0u64, 1, 31, 32, 33, 64, 65, 1023, 1024, 1025, 4096, 724 * 32, 725 * 32, 100_000] {
                    if new < cur {
                        continue;
                    }
                    let cost = (cmem(ceil32(new as u128)) - cmem(ceil32(cur as u128))) as u64;
                    for g in [0u64, cost.saturating_sub(1), cost, cost + 1, 1_000_000] {
                        for child in [false, true] {
                            v.push(vec![Val::U64(cur), Val::U64(new), Val::U64(g), Val::B(child)]);
                        }
                    }
                }
            }
            v
        },
        |r| {
            let cur = 32 * r.below(40);
            let new = cur + r.below(5000);
            let cost = (cmem(ceil32(new as u128)) - cmem(ceil32(cur as u128))) as u64;
            vec![Val::U64(cur), Val::U64(new), Val::U64(if r.bool() { cost.wrapping_add(r.below(3)).wrapping_sub(1) } else { r.below(3000) }), Val::B(r.bool())]
        },
        |a| {
            let (cur, new, g) = (a[0].u64(), a[1].u64(), a[2].u64());
            if new < cur || cur % 32 != 0 || new > (1 << 22) {
                return None;
            }
            // C_mem(new) - C_mem(old)
            let cost = cmem(ceil32(new as u128)) - cmem(ceil32(cur as u128));
            let ok = cost <= g as u128;
            let len = if ok { 32 * ceil32(new as u128) } else { cur as u128 };
            Some(format!("success={} gas_remaining={} len={} old_bytes_kept=true new_bytes_zero=true parent_memory_intact=true", ok, if ok { g as u128 - cost } else { g as u128 }, len))
        },
        |a| {
            let (cur, new, g, child) = (a[0].u64() as usize, a[1].u64() as usize, a[2].u64(), a[3].b());
            let mut sm = SharedMemory::new();
            let parent = parent_bytes();
            if child {
                sm.resize(parent.len());
                sm.set(0, &parent);
                sm.new_context();
            }
            let old: Vec<u8> = (0..cur).map(|i| (i as u8) | 1).collect();
            sm.resize(cur);
            sm.set(0, &old);
            let mut gas = Gas::new(g);
            let ok = revm_interpreter::interpreter::resize_memory(&mut sm, &mut gas, new);
            let m = sm.context_memory().to_vec();
            let kept = m.len() >= cur && m[..cur] == old[..];
            let zero = m.len() < cur || m[cur..].iter().all(|b| *b == 0);
            let len = sm.len();
            let parent_ok = if child {
                sm.free_context();
                sm.context_memory() == &parent[..]
            } else {
                true
            };
            format!("success={} gas_remaining={} len={} old_bytes_kept={} new_bytes_zero={} parent_memory_intact={}", ok, gas.remaining(), len, kept, zero, parent_ok)
        },
    ));

    out.push(mi_case("mload", MI::Mload));
    out.push(mi_case("mstore", MI::Mstore));
    out.push(mi_case("mstore8", MI::Mstore8));
    out.push(mi_case("msize", MI::Msize));
    out.push(mi_case("mcopy", MI::Mcopy));
    out
}
