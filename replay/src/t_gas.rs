//! C13: the gas meter `Gas` (crates/interpreter/src/gas.rs). Oracles = the clauses of contracts/gas.vc over
//! mathematical integers (i128). The struct's fields are private: states are built and read through the public
//! API only, never through the method under test.
use crate::core::*;
use revm_interpreter::Gas;

#[derive(Clone, Copy, Debug)]
struct St {
    limit: u64,
    remaining: u64,
    refunded: i64,
}

impl St {
    fn wf(&self) -> bool {
        self.remaining <= self.limit
    }
    fn spent(&self) -> i128 {
        self.limit as i128 - self.remaining as i128
    }
}

/// reach the state (limit, remaining, refunded) without calling `avoid`; None if that is impossible or the getters
/// (other than `avoid`) do not confirm the state
fn mk(st: St, avoid: &str) -> Option<Gas> {
    let mut g = Gas::new(st.limit);
    if st.remaining <= st.limit {
        let spent = st.limit - st.remaining;
        if avoid != "set_spent" {
            g.set_spent(spent);
        } else if !g.record_cost(spent) {
            return None;
        }
    } else {
        if avoid == "erase_cost" {
            return None;
        }
        g.erase_cost(st.remaining - st.limit);
    }
    if avoid != "set_refund" {
        g.set_refund(st.refunded);
    } else {
        g.record_refund(st.refunded);
    }
    if avoid != "limit" && g.limit() != st.limit {
        return None;
    }
    if avoid != "remaining" {
        if g.remaining() != st.remaining {
            return None;
        }
    } else if st.wf() && g.spent() != st.limit - st.remaining {
        return None;
    }
    if avoid != "refunded" && g.refunded() != st.refunded {
        return None;
    }
    Some(g)
}

fn snap(limit: i128, remaining: i128, refunded: i128) -> String {
    format!("limit={} remaining={} refunded={}", limit, remaining, refunded)
}

fn snap_g(g: &Gas) -> String {
    snap(g.limit() as i128, g.remaining() as i128, g.refunded() as i128)
}

fn st_of(a: &[Val]) -> St {
    St { limit: a[0].u64(), remaining: a[1].u64(), refunded: a[2].i64() }
}

fn limits() -> Vec<u64> {
    vec![0, 1, 2, 5, 63, 64, 65, 100, 127, 128, 129, 2300, 21000, 1 << 32, i64::MAX as u64, (i64::MAX as u64) + 1, u64::MAX - 1, u64::MAX]
}

fn remainings(limit: u64, nonwf: bool) -> Vec<u64> {
    let mut v: Vec<u64> = vec![0, 1, 2, 62, 63, 64, 65, 126, 127, 128, 129, 4095, 4096, limit / 2, limit.saturating_sub(64), limit.saturating_sub(1), limit];
    v.retain(|r| *r <= limit);
    if nonwf && limit < u64::MAX {
        v.push(limit + 1);
        v.push(u64::MAX);
    }
    v.sort();
    v.dedup();
    v
}

fn refundeds(st_limit: u64, remaining: u64, neg: bool) -> Vec<i64> {
    let spent = st_limit.saturating_sub(remaining);
    let mut v: Vec<i64> = vec![0, 1, 2, 5, i64::MAX, i64::MAX - 1];
    for q in [spent / 5, spent / 2, spent] {
        for d in [-1i128, 0, 1] {
            let x = q as i128 + d;
            if x >= 0 && x <= i64::MAX as i128 {
                v.push(x as i64);
            }
        }
    }
    if neg {
        v.extend([-1, -2, i64::MIN, i64::MIN + 1]);
    }
    v.sort();
    v.dedup();
    v
}

fn rand_state(r: &mut Rng, nonwf: bool, neg: bool) -> St {
    let limit = match r.below(4) {
        0 => r.pick(&limits()),
        _ => r.u64b(),
    };
    let remaining = match r.below(6) {
        0 => limit,
        1 => 0,
        2 => limit.saturating_sub(r.below(200)),
        3 => r.below(200).min(limit),
        4 if nonwf => r.u64b(),
        _ => r.below(limit.wrapping_add(1).max(1)),
    };
    let spent = limit.saturating_sub(remaining);
    let refunded = match r.below(7) {
        0 => 0,
        1 => r.below(100) as i64,
        2 => ((spent / 5) as i128 + r.below(5) as i128 - 2).clamp(0, i64::MAX as i128) as i64,
        3 => ((spent / 2) as i128 + r.below(5) as i128 - 2).clamp(0, i64::MAX as i128) as i64,
        4 => (r.next() >> 1) as i64,
        5 if neg => r.next() as i64,
        _ => (r.u64b() >> 1) as i64,
    };
    St { limit, remaining, refunded }
}

struct M {
    name: &'static str,
    arg: Option<(&'static str, Kind)>,
    nonwf: bool,
    neg: bool,
    /// boundary values of the argument for a state
    arg_bounds: fn(St) -> Vec<Val>,
    arg_rand: fn(&mut Rng, St) -> Val,
    /// oracle; None = precondition of the contract false
    expected: fn(St, Option<&Val>) -> Option<String>,
    observed: fn(Gas, Option<&Val>) -> String,
}

fn no_arg_b(_: St) -> Vec<Val> {
    vec![]
}
fn no_arg_r(_: &mut Rng, _: St) -> Val {
    Val::B(false)
}

fn u64_around(st: St) -> Vec<Val> {
    let mut v: Vec<u64> = vec![0, 1, 2, 63, 64, 65, u64::MAX, u64::MAX - 1, i64::MAX as u64, (i64::MAX as u64) + 1];
    for base in [st.remaining, st.limit, st.limit.wrapping_sub(st.remaining)] {
        v.extend([base.wrapping_sub(1), base, base.wrapping_add(1)]);
    }
    v.sort();
    v.dedup();
    v.into_iter().map(Val::U64).collect()
}

fn u64_rand(r: &mut Rng, st: St) -> Val {
    Val::U64(match r.below(6) {
        0 => st.remaining,
        1 => st.remaining.wrapping_add(r.below(3)),
        2 => st.remaining.wrapping_sub(r.below(3)),
        3 => r.below(st.remaining.wrapping_add(1).max(1)),
        4 => st.limit.wrapping_sub(st.remaining).wrapping_add(r.below(3)).wrapping_sub(1),
        _ => r.u64b(),
    })
}

fn methods() -> Vec<M> {
    vec![
        M {
            name: "record_cost",
            arg: Some(("cost", Kind::U64)),
            nonwf: false,
            neg: true,
            arg_bounds: u64_around,
            arg_rand: u64_rand,
            expected: |st, a| {
                if !st.wf() {
                    return None;
                }
                let cost = a.unwrap().u64();
                let success = cost <= st.remaining;
                // success == (cost <= remaining); success ==> remaining' == remaining - cost; !success ==> unchanged; limit, refunded unchanged
                let rem = if success { st.remaining as i128 - cost as i128 } else { st.remaining as i128 };
                Some(format!("ret={} {}", success, snap(st.limit as i128, rem, st.refunded as i128)))
            },
            observed: |mut g, a| {
                let r = g.record_cost(a.unwrap().u64());
                format!("ret={} {}", r, snap_g(&g))
            },
        },
        M {
            name: "erase_cost",
            arg: Some(("returned", Kind::U64)),
            nonwf: false,
            neg: true,
            arg_bounds: u64_around,
            arg_rand: |r, st| Val::U64(match r.below(4) {
                0 => st.limit - st.remaining.min(st.limit),
                1 => r.below((st.limit - st.remaining.min(st.limit)).wrapping_add(1).max(1)),
                2 => r.below(100),
                _ => r.u64b(),
            }),
            expected: |st, a| {
                let ret = a.unwrap().u64();
                if !st.wf() || st.remaining as i128 + ret as i128 > st.limit as i128 {
                    return None;
                }
                Some(snap(st.limit as i128, st.remaining as i128 + ret as i128, st.refunded as i128))
            },
            observed: |mut g, a| {
                g.erase_cost(a.unwrap().u64());
                snap_g(&g)
            },
        },
        M {
            name: "set_final_refund",
            arg: Some(("is_london", Kind::B)),
            nonwf: false,
            neg: false,
            arg_bounds: |_| vec![Val::B(false), Val::B(true)],
            arg_rand: |r, _| Val::B(r.bool()),
            expected: |st, a| {
                if !st.wf() || st.refunded < 0 {
                    return None;
                }
                // EIP-3529 (London): cap spent/5; before: spent/2
                let cap = if a.unwrap().b() { st.spent() / 5 } else { st.spent() / 2 };
                let r = if (st.refunded as i128) <= cap { st.refunded as i128 } else { cap };
                Some(snap(st.limit as i128, st.remaining as i128, r))
            },
            observed: |mut g, a| {
                g.set_final_refund(a.unwrap().b());
                snap_g(&g)
            },
        },
        M {
            name: "set_spent",
            arg: Some(("spent", Kind::U64)),
            nonwf: true,
            neg: true,
            arg_bounds: u64_around,
            arg_rand: u64_rand,
            expected: |st, a| {
                let spent = a.unwrap().u64();
                let s = if spent <= st.limit { spent } else { st.limit };
                Some(snap(st.limit as i128, st.limit as i128 - s as i128, st.refunded as i128))
            },
            observed: |mut g, a| {
                g.set_spent(a.unwrap().u64());
                snap_g(&g)
            },
        },
        M {
            name: "spent",
            arg: None,
            nonwf: false,
            neg: true,
            arg_bounds: no_arg_b,
            arg_rand: no_arg_r,
            expected: |st, _| if st.wf() { Some(st.spent().to_string()) } else { None },
            observed: |g, _| g.spent().to_string(),
        },
        M {
            name: "spent_sub_refunded",
            arg: None,
            nonwf: false,
            neg: false,
            arg_bounds: no_arg_b,
            arg_rand: no_arg_r,
            expected: |st, _| {
                if !st.wf() || st.refunded < 0 {
                    return None;
                }
                let d = st.spent() - st.refunded as i128;
                Some((if d >= 0 { d } else { 0 }).to_string())
            },
            observed: |g, _| g.spent_sub_refunded().to_string(),
        },
        M {
            name: "remaining_63_of_64_parts",
            arg: None,
            nonwf: true,
            neg: true,
            arg_bounds: no_arg_b,
            arg_rand: no_arg_r,
            // EIP-150: all but one 64th
            expected: |st, _| Some((st.remaining as i128 - st.remaining as i128 / 64).to_string()),
            observed: |g, _| g.remaining_63_of_64_parts().to_string(),
        },
        M {
            name: "spend_all",
            arg: None,
            nonwf: false,
            neg: true,
            arg_bounds: no_arg_b,
            arg_rand: no_arg_r,
            expected: |st, _| if st.wf() { Some(snap(st.limit as i128, 0, st.refunded as i128)) } else { None },
            observed: |mut g, _| {
                g.spend_all();
                snap_g(&g)
            },
        },
        M {
            name: "record_refund",
            arg: Some(("refund", Kind::I64)),
            nonwf: true,
            neg: true,
            arg_bounds: |st| {
                let mut v: Vec<i64> = vec![0, 1, -1, 4800, 15000, -15000, i64::MAX, i64::MIN];
                v.push((i64::MAX as i128 - st.refunded as i128).clamp(i64::MIN as i128, i64::MAX as i128) as i64);
                v.push((i64::MIN as i128 - st.refunded as i128).clamp(i64::MIN as i128, i64::MAX as i128) as i64);
                v.into_iter().map(Val::I64).collect()
            },
            arg_rand: |r, _| Val::I64(match r.below(3) {
                0 => r.below(40000) as i64 - 20000,
                1 => r.next() as i64,
                _ => (r.u64b() >> 1) as i64,
            }),
            expected: |st, a| {
                let s = st.refunded as i128 + a.unwrap().i64() as i128;
                if s < i64::MIN as i128 || s > i64::MAX as i128 {
                    return None;
                }
                Some(snap(st.limit as i128, st.remaining as i128, s))
            },
            observed: |mut g, a| {
                g.record_refund(a.unwrap().i64());
                snap_g(&g)
            },
        },
        M {
            name: "set_refund",
            arg: Some(("refund", Kind::I64)),
            nonwf: true,
            neg: true,
            arg_bounds: |_| [0i64, 1, -1, 4800, i64::MAX, i64::MIN].into_iter().map(Val::I64).collect(),
            arg_rand: |r, _| Val::I64(r.next() as i64),
            expected: |st, a| Some(snap(st.limit as i128, st.remaining as i128, a.unwrap().i64() as i128)),
            observed: |mut g, a| {
                g.set_refund(a.unwrap().i64());
                snap_g(&g)
            },
        },
        M {
            name: "limit",
            arg: None,
            nonwf: true,
            neg: true,
            arg_bounds: no_arg_b,
            arg_rand: no_arg_r,
            expected: |st, _| Some(st.limit.to_string()),
            observed: |g, _| g.limit().to_string(),
        },
        M {
            name: "remaining",
            arg: None,
            nonwf: true,
            neg: true,
            arg_bounds: no_arg_b,
            arg_rand: no_arg_r,
            expected: |st, _| Some(st.remaining.to_string()),
            observed: |g, _| g.remaining().to_string(),
        },
        M {
            name: "refunded",
            arg: None,
            nonwf: true,
            neg: true,
            arg_bounds: no_arg_b,
            arg_rand: no_arg_r,
            expected: |st, _| Some(st.refunded.to_string()),
            observed: |g, _| g.refunded().to_string(),
        },
        M {
            name: "memory",
            arg: None,
            nonwf: true,
            neg: true,
            arg_bounds: no_arg_b,
            arg_rand: no_arg_r,
            expected: |_, _| Some("0".to_string()),
            #[allow(deprecated)]
            observed: |g, _| g.memory().to_string(),
        },
    ]
}

pub fn cases() -> Vec<Case> {
    let mut out = Vec::new();
    for m in methods() {
        let mut schema = vec![("limit", Kind::U64), ("remaining", Kind::U64), ("refunded", Kind::I64)];
        if let Some(a) = m.arg {
            schema.push(a);
        }
        let has_arg = m.arg.is_some();
        let (name, nonwf, neg) = (m.name, m.nonwf, m.neg);
        let (ab, ar, ex, ob) = (m.arg_bounds, m.arg_rand, m.expected, m.observed);
        out.push(Case {
            id: format!("Gas::{}", name),
            names: vec![name.to_string()],
            finding: false,
            schema,
            boundary: Box::new(move || {
                let mut v = Vec::new();
                for l in limits() {
                    for rem in remainings(l, nonwf) {
                        for rf in refundeds(l, rem, neg) {
                            let st = St { limit: l, remaining: rem, refunded: rf };
                            let base = vec![Val::U64(l), Val::U64(rem), Val::I64(rf)];
                            if has_arg {
                                for a in ab(st) {
                                    let mut x = base.clone();
                                    x.push(a);
                                    v.push(x);
                                }
                            } else {
                                v.push(base);
                            }
                        }
                    }
                }
                // plain states first (well-formed meter, non-negative refund counter): simpler witnesses
                v.sort_by_key(|x: &Args| (x[1].u64() > x[0].u64(), x[2].i64() < 0));
                v
            }),
            random: Box::new(move |r| {
                let st = rand_state(r, nonwf, neg);
                let mut x = vec![Val::U64(st.limit), Val::U64(st.remaining), Val::I64(st.refunded)];
                if has_arg {
                    x.push(ar(r, st));
                }
                x
            }),
            expected: Box::new(move |a| {
                let st = st_of(a);
                let e = ex(st, a.get(3))?;
                mk(st, name)?; // the state must be reachable through the other public methods
                Some(e)
            }),
            observed: Box::new(move |a| {
                let g = mk(st_of(a), name).expect("state reachable (checked by the domain test)");
                ob(g, a.get(3))
            }),
        });
    }
    // constructors
    for (name, spent) in [("new", false), ("new_spent", true)] {
        out.push(Case {
            id: format!("Gas::{}", name),
            names: vec![name.to_string()],
            finding: false,
            schema: vec![("limit", Kind::U64)],
            boundary: Box::new(|| bounds_u64().into_iter().map(|l| vec![Val::U64(l)]).collect()),
            random: Box::new(|r| vec![Val::U64(r.u64b())]),
            expected: Box::new(move |a| {
                let l = a[0].u64() as i128;
                Some(snap(l, if spent { 0 } else { l }, 0))
            }),
            observed: Box::new(move |a| {
                let g = if spent { Gas::new_spent(a[0].u64()) } else { Gas::new(a[0].u64()) };
                snap_g(&g)
            }),
        });
    }
    out
}
