//! Shared machinery: argument values, cases, the seeded generator, JSON in/out, big-integer helpers.
//! Nothing in here calls a function under test.
use revm_primitives::ruint::Uint;
use revm_primitives::{SpecId, U256};
use std::fmt::Write as _;

pub type U512 = Uint<512, 8>;

// ------------------------------------------------------------------------------------------------
// argument values

#[derive(Clone, Debug, PartialEq)]
pub enum Val {
    U64(u64),
    I64(i64),
    U8(u8),
    W(U256),
    B(bool),
    S(SpecId),
    OB(Option<bool>),
    Str(String),
    Hex(Vec<u8>),
}

#[derive(Clone, Copy, Debug)]
pub enum Kind {
    U64,
    I64,
    U8,
    W,
    B,
    S,
    OB,
    Str,
    Hex,
}

impl Val {
    pub fn u64(&self) -> u64 {
        match self {
            Val::U64(v) => *v,
            _ => panic!("arg kind: u64 expected, got {:?}", self),
        }
    }
    pub fn i64(&self) -> i64 {
        match self {
            Val::I64(v) => *v,
            _ => panic!("arg kind: i64 expected, got {:?}", self),
        }
    }
    pub fn u8(&self) -> u8 {
        match self {
            Val::U8(v) => *v,
            _ => panic!("arg kind: u8 expected, got {:?}", self),
        }
    }
    pub fn w(&self) -> U256 {
        match self {
            Val::W(v) => *v,
            _ => panic!("arg kind: U256 expected, got {:?}", self),
        }
    }
    pub fn b(&self) -> bool {
        match self {
            Val::B(v) => *v,
            _ => panic!("arg kind: bool expected, got {:?}", self),
        }
    }
    pub fn s(&self) -> SpecId {
        match self {
            Val::S(v) => *v,
            _ => panic!("arg kind: SpecId expected, got {:?}", self),
        }
    }
    pub fn ob(&self) -> Option<bool> {
        match self {
            Val::OB(v) => *v,
            _ => panic!("arg kind: Option<bool> expected, got {:?}", self),
        }
    }
    pub fn str(&self) -> &str {
        match self {
            Val::Str(v) => v,
            _ => panic!("arg kind: string expected, got {:?}", self),
        }
    }

    pub fn bytes(&self) -> &[u8] {
        match self {
            Val::Hex(v) => v,
            _ => panic!("arg kind: bytes expected, got {:?}", self),
        }
    }

    pub fn render(&self) -> String {
        match self {
            Val::U64(v) => v.to_string(),
            Val::I64(v) => v.to_string(),
            Val::U8(v) => v.to_string(),
            Val::W(v) => format!("{:#x}", v),
            Val::B(v) => v.to_string(),
            Val::S(v) => format!("{:?}", v),
            Val::OB(None) => "None".to_string(),
            Val::OB(Some(b)) => format!("Some({})", b),
            Val::Str(s) => s.clone(),
            Val::Hex(b) => hex_of(b),
        }
    }

    pub fn parse(kind: Kind, s: &str) -> Result<Val, String> {
        let e = |_| format!("cannot parse {:?} as {:?}", s, kind);
        Ok(match kind {
            Kind::U64 => Val::U64(parse_u64(s).ok_or_else(|| e(()))?),
            Kind::I64 => Val::I64(s.parse::<i64>().map_err(|_| e(()))?),
            Kind::U8 => Val::U8(s.parse::<u8>().map_err(|_| e(()))?),
            Kind::W => Val::W(parse_w(s).ok_or_else(|| e(()))?),
            Kind::B => Val::B(match s {
                "true" => true,
                "false" => false,
                _ => return Err(e(())),
            }),
            Kind::S => Val::S(all_specs().into_iter().find(|x| format!("{:?}", x) == s).ok_or_else(|| e(()))?),
            Kind::OB => Val::OB(match s {
                "None" => None,
                "Some(true)" => Some(true),
                "Some(false)" => Some(false),
                _ => return Err(e(())),
            }),
            Kind::Str => Val::Str(s.to_string()),
            Kind::Hex => Val::Hex(parse_hex(s).ok_or_else(|| e(()))?),
        })
    }
}

pub fn hex_of(b: &[u8]) -> String {
    let mut s = String::with_capacity(2 + 2 * b.len());
    s.push_str("0x");
    for x in b {
        let _ = write!(s, "{:02x}", x);
    }
    s
}

pub fn parse_hex(s: &str) -> Option<Vec<u8>> {
    let h = s.strip_prefix("0x").unwrap_or(s);
    if h.len() % 2 != 0 {
        return None;
    }
    (0..h.len() / 2).map(|i| u8::from_str_radix(&h[2 * i..2 * i + 2], 16).ok()).collect()
}

fn parse_u64(s: &str) -> Option<u64> {
    if let Some(h) = s.strip_prefix("0x") {
        u64::from_str_radix(h, 16).ok()
    } else {
        s.parse::<u64>().ok()
    }
}

fn parse_w(s: &str) -> Option<U256> {
    if let Some(h) = s.strip_prefix("0x") {
        U256::from_str_radix(h, 16).ok()
    } else {
        U256::from_str_radix(s, 10).ok()
    }
}

/// every SpecId the compiled crate knows (discriminant order)
pub fn all_specs() -> Vec<SpecId> {
    static C: std::sync::OnceLock<Vec<SpecId>> = std::sync::OnceLock::new();
    C.get_or_init(|| (0..=255u8).filter_map(SpecId::try_from_u8).collect()).clone()
}

// ------------------------------------------------------------------------------------------------
// A mutated real function may crash (undefined behaviour behind `unsafe`, abort) or never return. The search
// and the replay therefore run in a child process that records which input it is on; signal handlers
// report that position (`CRASH ...` / `HANG ...` on stdout) and the parent turns it into a witness.

use std::sync::atomic::{AtomicU64, Ordering::Relaxed};
pub static CUR_CASE: AtomicU64 = AtomicU64::new(0);
pub static CUR_PHASE: AtomicU64 = AtomicU64::new(0); // 0 boundary list, 1 seeded random, 2 replay of one input
pub static CUR_IDX: AtomicU64 = AtomicU64::new(0);
static IN_REAL: AtomicU64 = AtomicU64::new(0);
static LAST_SEEN: AtomicU64 = AtomicU64::new(u64::MAX);
static STUCK: AtomicU64 = AtomicU64::new(0);
pub const HANG_SECONDS: u64 = 5;

extern "C" {
    fn signal(signum: i32, handler: usize) -> usize;
    fn write(fd: i32, buf: *const u8, n: usize) -> isize;
    fn _exit(code: i32) -> !;
    fn alarm(seconds: u32) -> u32;
}

fn put(buf: &mut [u8; 160], n: &mut usize, s: &[u8]) {
    for c in s {
        if *n < buf.len() {
            buf[*n] = *c;
            *n += 1;
        }
    }
}
fn put_num(buf: &mut [u8; 160], n: &mut usize, mut v: u64) {
    let mut d = [0u8; 20];
    let mut k = 0;
    loop {
        d[k] = b'0' + (v % 10) as u8;
        v /= 10;
        k += 1;
        if v == 0 {
            break;
        }
    }
    while k > 0 {
        k -= 1;
        put(buf, n, &d[k..k + 1]);
    }
}
/// async-signal-safe: atomics, a stack buffer, write(2), _exit(2)
fn report(kind: &[u8], sig: i32, code: i32) -> ! {
    let mut buf = [0u8; 160];
    let mut n = 0usize;
    put(&mut buf, &mut n, b"\n");
    put(&mut buf, &mut n, kind);
    put(&mut buf, &mut n, b" case=");
    put_num(&mut buf, &mut n, CUR_CASE.load(Relaxed));
    put(&mut buf, &mut n, b" phase=");
    put_num(&mut buf, &mut n, CUR_PHASE.load(Relaxed));
    put(&mut buf, &mut n, b" idx=");
    put_num(&mut buf, &mut n, CUR_IDX.load(Relaxed));
    put(&mut buf, &mut n, b" sig=");
    put_num(&mut buf, &mut n, sig as u64);
    put(&mut buf, &mut n, b" in_real=");
    put_num(&mut buf, &mut n, IN_REAL.load(Relaxed));
    put(&mut buf, &mut n, b"\n");
    unsafe {
        write(1, buf.as_ptr(), n);
        _exit(code)
    }
}
extern "C" fn on_crash(sig: i32) {
    report(b"CRASH", sig, 3)
}
extern "C" fn on_alarm(_sig: i32) {
    if IN_REAL.load(Relaxed) == 1 {
        let pos = (CUR_PHASE.load(Relaxed) << 56) ^ (CUR_CASE.load(Relaxed) << 44) ^ CUR_IDX.load(Relaxed);
        if LAST_SEEN.load(Relaxed) == pos {
            if STUCK.fetch_add(1, Relaxed) + 1 >= HANG_SECONDS {
                report(b"HANG", 14, 4)
            }
        } else {
            LAST_SEEN.store(pos, Relaxed);
            STUCK.store(0, Relaxed);
        }
    } else {
        LAST_SEEN.store(u64::MAX, Relaxed);
        STUCK.store(0, Relaxed);
    }
    unsafe {
        alarm(1);
    }
}
/// child processes only
pub fn install_guards() {
    unsafe {
        for s in [4, 6, 7, 8, 11] {
            // SIGILL SIGABRT SIGBUS SIGFPE SIGSEGV
            signal(s, on_crash as extern "C" fn(i32) as usize);
        }
        signal(14, on_alarm as extern "C" fn(i32) as usize);
        alarm(1);
    }
}

pub fn signal_name(sig: u64) -> &'static str {
    match sig {
        4 => "SIGILL",
        6 => "SIGABRT",
        7 => "SIGBUS",
        8 => "SIGFPE",
        11 => "SIGSEGV",
        14 => "SIGALRM",
        _ => "signal",
    }
}

// ------------------------------------------------------------------------------------------------
// a function under a contract: its input generator, its oracle and the call of the real code

pub type Args = Vec<Val>;

pub struct Case {
    /// unambiguous identifier written into the witness ("Gas::record_cost", "instr::sar", ...)
    pub id: String,
    /// names under which `search` finds it (last path segment of the failed obligation, aliases of
    /// private helpers that are only reachable through this function)
    pub names: Vec<String>,
    /// a known-finding domain (`<fn>__finding_<tag>`): expected to disagree on the unchanged tree
    pub finding: bool,
    pub schema: Vec<(&'static str, Kind)>,
    /// boundary inputs, tried first, in order
    pub boundary: Box<dyn Fn() -> Vec<Args>>,
    /// one seeded pseudo-random input
    pub random: Box<dyn Fn(&mut Rng) -> Args>,
    /// ORACLE: the executable twin of the postcondition. None = outside the contract's domain (precondition
    /// false, or a known-finding domain that the verified contract excludes from its exactness claim).
    pub expected: Box<dyn Fn(&[Val]) -> Option<String>>,
    /// the REAL function of the repository, result rendered the same way as the oracle renders its value
    pub observed: Box<dyn Fn(&[Val]) -> String>,
}

/// convenience constructor used by the case modules
#[allow(clippy::too_many_arguments)]
pub fn mk_case(
    id: &str,
    names: &[&str],
    finding: bool,
    schema: Vec<(&'static str, Kind)>,
    boundary: impl Fn() -> Vec<Args> + 'static,
    random: impl Fn(&mut Rng) -> Args + 'static,
    expected: impl Fn(&[Val]) -> Option<String> + 'static,
    observed: impl Fn(&[Val]) -> String + 'static,
) -> Case {
    Case {
        id: id.to_string(),
        names: names.iter().map(|s| s.to_string()).collect(),
        finding,
        schema,
        boundary: Box::new(boundary),
        random: Box::new(random),
        expected: Box::new(expected),
        observed: Box::new(observed),
    }
}

pub struct Outcome {
    pub args: Args,
    pub observed: String,
    pub expected: String,
}

impl Case {
    /// None: out of domain. Some(outcome): evaluated (agreeing or not)
    pub fn evaluate(&self, args: &[Val]) -> Option<Outcome> {
        let expected = (self.expected)(args)?;
        IN_REAL.store(1, Relaxed);
        let r = std::panic::catch_unwind(std::panic::AssertUnwindSafe(|| (self.observed)(args)));
        IN_REAL.store(0, Relaxed);
        let observed = match r {
            Ok(s) => s,
            Err(p) => {
                let msg = if let Some(s) = p.downcast_ref::<&str>() {
                    s.to_string()
                } else if let Some(s) = p.downcast_ref::<String>() {
                    s.clone()
                } else {
                    "?".to_string()
                };
                format!("panic({})", msg)
            }
        };
        Some(Outcome { args: args.to_vec(), observed, expected })
    }

    pub fn witness_json(&self, o: &Outcome, seed: u64, evals: u64) -> String {
        let mut s = String::new();
        s.push_str("{\"function\": ");
        json_str(&mut s, &self.id);
        s.push_str(", \"args\": {");
        for (i, ((name, _), v)) in self.schema.iter().zip(o.args.iter()).enumerate() {
            if i > 0 {
                s.push_str(", ");
            }
            json_str(&mut s, name);
            s.push_str(": ");
            json_str(&mut s, &v.render());
        }
        s.push_str("}, \"observed\": ");
        json_str(&mut s, &o.observed);
        s.push_str(", \"expected\": ");
        json_str(&mut s, &o.expected);
        let _ = write!(s, ", \"seed\": {}, \"evaluations_until_found\": {}", seed, evals);
        s.push_str(", \"kind\": \"replay-crate-search\"}");
        s
    }
}

pub struct SearchStats {
    pub evaluated: u64,
    pub skipped: u64,
    pub boundary_inputs: u64,
}

fn case_rng(case: &Case, seed: u64) -> Rng {
    let mut h: u64 = 0xcbf29ce484222325;
    for c in case.id.bytes() {
        h = (h ^ c as u64).wrapping_mul(0x100000001b3);
    }
    Rng::new(seed ^ h)
}

/// the input the search was on (the generator is deterministic): phase 0 = boundary list, 1 = idx-th random draw
pub fn nth_input(case: &Case, seed: u64, phase: u64, idx: u64) -> Option<Args> {
    if phase == 0 {
        (case.boundary)().get(idx as usize).cloned()
    } else {
        let mut rng = case_rng(case, seed);
        for _ in 0..idx {
            (case.random)(&mut rng);
        }
        Some((case.random)(&mut rng))
    }
}

/// boundary inputs first, then seeded random ones, until `max_evals` in-domain evaluations or `max_ms`
pub fn search_case(case: &Case, seed: u64, max_evals: u64, max_ms: u128) -> (Option<Outcome>, SearchStats) {
    let t0 = std::time::Instant::now();
    let mut st = SearchStats { evaluated: 0, skipped: 0, boundary_inputs: 0 };
    let b = (case.boundary)();
    st.boundary_inputs = b.len() as u64;
    CUR_PHASE.store(0, Relaxed);
    for (k, args) in b.iter().enumerate() {
        CUR_IDX.store(k as u64, Relaxed);
        match case.evaluate(args) {
            None => st.skipped += 1,
            Some(o) => {
                st.evaluated += 1;
                if o.observed != o.expected {
                    return (Some(o), st);
                }
            }
        }
        // the boundary list is finite and always run to the end unless it alone exceeds 3x the time budget
        if k % 256 == 255 && t0.elapsed().as_millis() > 3 * max_ms {
            break;
        }
    }
    let mut rng = case_rng(case, seed);
    let mut n: u64 = 0;
    CUR_PHASE.store(1, Relaxed);
    while st.evaluated < max_evals {
        CUR_IDX.store(n, Relaxed); // number of random inputs drawn before this one
        n += 1;
        if n % 128 == 0 && t0.elapsed().as_millis() > max_ms {
            break;
        }
        if st.skipped > 50 * (st.evaluated + 1000) {
            break; // generator (almost) never hits the domain
        }
        let args = (case.random)(&mut rng);
        match case.evaluate(&args) {
            None => st.skipped += 1,
            Some(o) => {
                st.evaluated += 1;
                if o.observed != o.expected {
                    return (Some(o), st);
                }
            }
        }
    }
    (None, st)
}

// ------------------------------------------------------------------------------------------------
// seeded generator: xorshift64*

pub struct Rng(u64);

impl Rng {
    pub fn new(seed: u64) -> Self {
        let mut s = seed ^ 0x9E3779B97F4A7C15;
        if s == 0 {
            s = 0x2545F4914F6CDD1D;
        }
        let mut r = Rng(s);
        for _ in 0..8 {
            r.next();
        }
        r
    }
    pub fn next(&mut self) -> u64 {
        let mut x = self.0;
        x ^= x >> 12;
        x ^= x << 25;
        x ^= x >> 27;
        self.0 = x;
        x.wrapping_mul(0x2545F4914F6CDD1D)
    }
    pub fn below(&mut self, n: u64) -> u64 {
        if n == 0 {
            0
        } else {
            self.next() % n
        }
    }
    pub fn bool(&mut self) -> bool {
        self.next() & 1 == 1
    }
    pub fn pick<T: Clone>(&mut self, xs: &[T]) -> T {
        xs[self.below(xs.len() as u64) as usize].clone()
    }
    /// u64 with weight on the boundaries
    pub fn u64b(&mut self) -> u64 {
        let b = bounds_u64();
        match self.below(8) {
            0 | 1 => self.next(),
            2 | 3 => self.pick(&b),
            4 => self.pick(&b).wrapping_add(self.below(70)),
            5 => self.pick(&b).wrapping_sub(self.below(70)),
            6 => self.below(3000),
            _ => {
                let sh = self.below(64) as u32;
                self.next() >> sh
            }
        }
    }
    /// U256 with weight on the boundaries
    pub fn w(&mut self) -> U256 {
        let b = bounds_w();
        match self.below(10) {
            0 | 1 => U256::from_limbs([self.next(), self.next(), self.next(), self.next()]),
            2 | 3 => self.pick(&b),
            4 => self.pick(&b).wrapping_add(U256::from(self.below(70))),
            5 => self.pick(&b).wrapping_sub(U256::from(self.below(70))),
            6 => U256::from(self.below(600)),
            7 => U256::MAX.wrapping_sub(U256::from(self.below(600))),
            8 => U256::from(self.u64b()),
            _ => {
                let sh = self.below(256) as usize;
                U256::from_limbs([self.next(), self.next(), self.next(), self.next()]) >> sh
            }
        }
    }
    pub fn spec(&mut self) -> SpecId {
        let s = all_specs();
        self.pick(&s)
    }
    pub fn ob(&mut self) -> Option<bool> {
        match self.below(3) {
            0 => None,
            1 => Some(false),
            _ => Some(true),
        }
    }
}

pub const KS: [u32; 13] = [7, 8, 15, 16, 31, 32, 33, 63, 64, 127, 128, 255, 256];

/// 0, 1, 2, 2^k-1, 2^k, 2^k+1 (k < 64), u64::MAX-33 .. u64::MAX, gas / length landmarks
pub fn bounds_u64() -> Vec<u64> {
    static C: std::sync::OnceLock<Vec<u64>> = std::sync::OnceLock::new();
    C.get_or_init(build_bounds_u64).clone()
}

fn build_bounds_u64() -> Vec<u64> {
    let mut v: Vec<u64> = vec![0, 1, 2, 3, 5, 10, 31, 32, 33, 62, 63, 64, 65, 100, 511, 512, 513, 1024, 2299, 2300, 2301, 2302, 21000, 24576, 49152];
    for k in KS {
        if k < 64 {
            let p = 1u64 << k;
            v.extend([p - 1, p, p + 1]);
        }
    }
    for d in 0..=34u64 {
        v.push(u64::MAX - d);
    }
    v.extend([i64::MAX as u64 - 1, i64::MAX as u64, i64::MAX as u64 + 1, i64::MAX as u64 + 2]);
    v.extend([(1u64 << 32) * 32, (1u64 << 32) * 32 - 32, (1u64 << 32) * 32 - 31, (1u64 << 32) * 32 + 1]);
    v.extend([192204552, 192204553, 284284038, 284284039, 3338477, 5007716, 393216, 786432, 131072]);
    v.sort();
    v.dedup();
    v
}

/// 0, 1, 2, 2^k-1, 2^k, 2^k+1, sign boundaries, shift amounts 255/256/257, -1, -2, MAX
pub fn bounds_w() -> Vec<U256> {
    static C: std::sync::OnceLock<Vec<U256>> = std::sync::OnceLock::new();
    C.get_or_init(build_bounds_w).clone()
}

fn build_bounds_w() -> Vec<U256> {
    let one = U256::from(1);
    let mut v: Vec<U256> = vec![U256::ZERO, one, U256::from(2), U256::from(3), U256::from(30), U256::from(31), U256::from(32), U256::from(33)];
    for k in KS {
        let p = if k < 256 { one << (k as usize) } else { U256::ZERO }; // 2^256 wraps to 0
        v.extend([p.wrapping_sub(one), p, p.wrapping_add(one)]);
    }
    for k in [254usize, 248, 247, 192, 191, 129, 65] {
        v.push(one << k);
    }
    v.extend([U256::from(254), U256::from(255), U256::from(256), U256::from(257), U256::from(258), U256::from(511), U256::from(512)]);
    v.extend([U256::MAX, U256::MAX - one, U256::MAX - U256::from(2), U256::MAX - U256::from(255), U256::MAX - U256::from(256)]);
    // -2^255 + 1, -(2^127), patterns
    v.push((one << 255) + one);
    v.push(U256::MAX - (one << 127) + one);
    v.push(U256::from_limbs([0xAAAAAAAAAAAAAAAA; 4]));
    v.push(U256::from_limbs([0x5555555555555555; 4]));
    v.push(U256::from_limbs([0x0123456789abcdef, 0xfedcba9876543210, 0x0f1e2d3c4b5a6978, 0x8796a5b4c3d2e1f0]));
    v.push(U256::from_limbs([0x8080808080808080; 4]));
    v.push(U256::from_limbs([0x7f7f7f7f7f7f7f7f; 4]));
    v.push(U256::from_limbs([u64::MAX, 0, 0, 0]));
    v.push(U256::from_limbs([0, 1, 0, 0]));
    v.push(U256::from_limbs([0, 0, 0, 1]));
    v.sort();
    v.dedup();
    v
}

/// a smaller set for three-operand products
pub fn bounds_w_small() -> Vec<U256> {
    let one = U256::from(1);
    let mut v = vec![
        U256::ZERO,
        one,
        U256::from(2),
        U256::from(3),
        U256::from(255),
        U256::from(256),
        U256::from(u64::MAX),
        U256::from(u64::MAX) + one,
        (one << 128) - one,
        one << 128,
        (one << 255) - one,
        one << 255,
        (one << 255) + one,
        U256::MAX - one,
        U256::MAX,
        U256::from_limbs([0x0123456789abcdef, 0xfedcba9876543210, 0x0f1e2d3c4b5a6978, 0x8796a5b4c3d2e1f0]),
    ];
    v.sort();
    v.dedup();
    v
}

// ------------------------------------------------------------------------------------------------
// big-integer helpers for the oracles

pub fn widen(x: U256) -> U512 {
    let l = x.as_limbs();
    U512::from_limbs([l[0], l[1], l[2], l[3], 0, 0, 0, 0])
}

/// x mod 2^256
pub fn low256(x: U512) -> U256 {
    let l = x.as_limbs();
    U256::from_limbs([l[0], l[1], l[2], l[3]])
}

pub fn pow2_512(k: usize) -> U512 {
    assert!(k < 512);
    U512::from(1u64) << k
}

pub fn big(x: u128) -> U512 {
    U512::from(x)
}

/// a mathematical integer of magnitude < 2^256
#[derive(Clone, Copy, Debug, PartialEq, Eq)]
pub struct SInt {
    pub neg: bool,
    pub mag: U256,
}

/// the signed integer a 256-bit word stands for (two's complement)
pub fn to_signed(x: U256) -> SInt {
    let p255 = U256::from(1) << 255;
    if x < p255 {
        SInt { neg: false, mag: x }
    } else {
        // x - 2^256 = -(2^256 - x), and 2^256 - x <= 2^255
        SInt { neg: true, mag: low256(pow2_512(256) - widen(x)) }
    }
}

/// the 256-bit word that stands for the integer v: v mod 2^256   (|v| < 2^256)
pub fn word_of_int(v: SInt) -> U256 {
    if !v.neg || v.mag.is_zero() {
        v.mag
    } else {
        low256(pow2_512(256) - widen(v.mag))
    }
}

pub fn sint_lt(a: SInt, b: SInt) -> bool {
    let an = a.neg && !a.mag.is_zero();
    let bn = b.neg && !b.mag.is_zero();
    match (an, bn) {
        (true, false) => true,
        (false, true) => false,
        (false, false) => a.mag < b.mag,
        (true, true) => a.mag > b.mag,
    }
}

pub fn opt64(v: u128) -> Option<u64> {
    if v <= u64::MAX as u128 {
        Some(v as u64)
    } else {
        None
    }
}

pub fn fmt_opt64(v: Option<u64>) -> String {
    match v {
        Some(x) => format!("Some({})", x),
        None => "None".to_string(),
    }
}

/// fork bracket: `s` is `f` or later (order of the discriminants)
pub fn ge(s: SpecId, f: SpecId) -> bool {
    s as u8 >= f as u8
}

// ------------------------------------------------------------------------------------------------
// minimal JSON (objects, strings, numbers, booleans, null, arrays) -- no dependency outside the repository's lock file

pub fn json_str(out: &mut String, s: &str) {
    out.push('"');
    for c in s.chars() {
        match c {
            '"' => out.push_str("\\\""),
            '\\' => out.push_str("\\\\"),
            '\n' => out.push_str("\\n"),
            '\r' => out.push_str("\\r"),
            '\t' => out.push_str("\\t"),
            c if (c as u32) < 0x20 => {
                let _ = write!(out, "\\u{:04x}", c as u32);
            }
            c => out.push(c),
        }
    }
    out.push('"');
}

#[derive(Clone, Debug)]
#[allow(dead_code)]
pub enum Json {
    Null,
    Bool(bool),
    Num(String),
    Str(String),
    Arr(Vec<Json>),
    Obj(Vec<(String, Json)>),
}

impl Json {
    pub fn get(&self, k: &str) -> Option<&Json> {
        match self {
            Json::Obj(v) => v.iter().find(|(n, _)| n == k).map(|(_, j)| j),
            _ => None,
        }
    }
    pub fn as_str(&self) -> Option<String> {
        match self {
            Json::Str(s) => Some(s.clone()),
            Json::Num(s) => Some(s.clone()),
            Json::Bool(b) => Some(b.to_string()),
            _ => None,
        }
    }
}

pub fn json_parse(s: &str) -> Result<Json, String> {
    let b: Vec<char> = s.chars().collect();
    let mut i = 0usize;
    let v = parse_value(&b, &mut i)?;
    skip_ws(&b, &mut i);
    if i != b.len() {
        return Err(format!("trailing characters at {}", i));
    }
    Ok(v)
}

fn skip_ws(b: &[char], i: &mut usize) {
    while *i < b.len() && b[*i].is_whitespace() {
        *i += 1;
    }
}

fn parse_value(b: &[char], i: &mut usize) -> Result<Json, String> {
    skip_ws(b, i);
    if *i >= b.len() {
        return Err("unexpected end".into());
    }
    match b[*i] {
        '{' => {
            *i += 1;
            let mut v = Vec::new();
            skip_ws(b, i);
            if *i < b.len() && b[*i] == '}' {
                *i += 1;
                return Ok(Json::Obj(v));
            }
            loop {
                skip_ws(b, i);
                let k = match parse_value(b, i)? {
                    Json::Str(s) => s,
                    _ => return Err("object key must be a string".into()),
                };
                skip_ws(b, i);
                if *i >= b.len() || b[*i] != ':' {
                    return Err("':' expected".into());
                }
                *i += 1;
                let val = parse_value(b, i)?;
                v.push((k, val));
                skip_ws(b, i);
                if *i < b.len() && b[*i] == ',' {
                    *i += 1;
                    continue;
                }
                if *i < b.len() && b[*i] == '}' {
                    *i += 1;
                    return Ok(Json::Obj(v));
                }
                return Err("',' or '}' expected".into());
            }
        }
        '[' => {
            *i += 1;
            let mut v = Vec::new();
            skip_ws(b, i);
            if *i < b.len() && b[*i] == ']' {
                *i += 1;
                return Ok(Json::Arr(v));
            }
            loop {
                v.push(parse_value(b, i)?);
                skip_ws(b, i);
                if *i < b.len() && b[*i] == ',' {
                    *i += 1;
                    continue;
                }
                if *i < b.len() && b[*i] == ']' {
                    *i += 1;
                    return Ok(Json::Arr(v));
                }
                return Err("',' or ']' expected".into());
            }
        }
        '"' => {
            *i += 1;
            let mut s = String::new();
            while *i < b.len() {
                let c = b[*i];
                *i += 1;
                match c {
                    '"' => return Ok(Json::Str(s)),
                    '\\' => {
                        if *i >= b.len() {
                            break;
                        }
                        let e = b[*i];
                        *i += 1;
                        match e {
                            'n' => s.push('\n'),
                            't' => s.push('\t'),
                            'r' => s.push('\r'),
                            'b' => s.push('\u{8}'),
                            'f' => s.push('\u{c}'),
                            'u' => {
                                if *i + 4 > b.len() {
                                    return Err("bad \\u escape".into());
                                }
                                let h: String = b[*i..*i + 4].iter().collect();
                                *i += 4;
                                let cp = u32::from_str_radix(&h, 16).map_err(|_| "bad \\u escape".to_string())?;
                                s.push(char::from_u32(cp).unwrap_or('?'));
                            }
                            other => s.push(other),
                        }
                    }
                    c => s.push(c),
                }
            }
            Err("unterminated string".into())
        }
        't' if b[*i..].starts_with(&['t', 'r', 'u', 'e']) => {
            *i += 4;
            Ok(Json::Bool(true))
        }
        'f' if b[*i..].starts_with(&['f', 'a', 'l', 's', 'e']) => {
            *i += 5;
            Ok(Json::Bool(false))
        }
        'n' if b[*i..].starts_with(&['n', 'u', 'l', 'l']) => {
            *i += 4;
            Ok(Json::Null)
        }
        c if c == '-' || c.is_ascii_digit() => {
            let st = *i;
            while *i < b.len() && (b[*i].is_ascii_digit() || "+-.eE".contains(b[*i])) {
                *i += 1;
            }
            Ok(Json::Num(b[st..*i].iter().collect()))
        }
        c => Err(format!("unexpected character {:?} at {}", c, *i)),
    }
}
