//! C03 (instruction level): arithmetic.rs and bitwise.rs driven through a REAL `Interpreter`
//! (`Interpreter::new(Contract::default(), gas_limit, false)`, operands pushed on `interp.stack`, the real
//! instruction function called with `DummyHost`). Compared: instruction_result, gas meter, the whole stack.
//! Oracle = Yellow Paper appendix H.2 / EIP-145 / EIP-160 on mathematical integers (U512, sign + magnitude),
//! shape of units/prelude/stackop.rs:
//!   gas_remaining < g              -> OutOfGas, stack and meter unchanged
//!   enough gas, fewer than n words -> StackUnderflow, stack unchanged, g charged
//!   otherwise                      -> top n words replaced by f(top, second, ..), exactly g charged
//!   EXP pops before it charges; SHL/SHR/SAR are NotActivated before Constantinople.
use crate::core::*;
use crate::t_i256::{scmp_spec, sdiv_spec, smod_spec};
use revm_interpreter::instructions::{arithmetic, bitwise};
use revm_interpreter::{Contract, DummyHost, Interpreter};
use revm_primitives::{Spec, SpecId, U256};
use std::cmp::Ordering;

type IFn = fn(&mut Interpreter, &mut DummyHost);

// ---------------------------------------------------------------------------------- oracle: value functions

fn b2w(c: bool) -> U256 {
    if c {
        U256::from(1)
    } else {
        U256::ZERO
    }
}
fn yp_add(a: U256, b: U256) -> U256 {
    low256(widen(a) + widen(b))
}
fn yp_mul(a: U256, b: U256) -> U256 {
    low256(widen(a) * widen(b))
}
fn yp_sub(a: U256, b: U256) -> U256 {
    // (a - b) mod 2^256
    low256(widen(a) + pow2_512(256) - widen(b))
}
fn yp_div(a: U256, b: U256) -> U256 {
    if b.is_zero() {
        U256::ZERO
    } else {
        low256(widen(a) / widen(b))
    }
}
fn yp_mod(a: U256, b: U256) -> U256 {
    if b.is_zero() {
        U256::ZERO
    } else {
        low256(widen(a) % widen(b))
    }
}
fn yp_addmod(a: U256, b: U256, c: U256) -> U256 {
    if c.is_zero() {
        U256::ZERO
    } else {
        low256((widen(a) + widen(b)) % widen(c))
    }
}
fn yp_mulmod(a: U256, b: U256, c: U256) -> U256 {
    if c.is_zero() {
        U256::ZERO
    } else {
        low256((widen(a) * widen(b)) % widen(c))
    }
}
/// a^b mod 2^256 by square and multiply on 512-bit products
fn yp_exp(a: U256, b: U256) -> U256 {
    let mut result = U256::from(1);
    let mut base = a;
    for i in 0..256usize {
        if b.bit(i) {
            result = low256(widen(result) * widen(base));
        }
        base = low256(widen(base) * widen(base));
    }
    result
}
/// SIGNEXTEND: k >= 31: x; else with t = 8k+7: bit i = x bit i (i <= t), x bit t (i > t)
fn yp_signextend(k: U256, x: U256) -> U256 {
    if k >= U256::from(31) {
        return x;
    }
    let t = 8 * (k.as_limbs()[0] as usize) + 7;
    let mut r = U256::ZERO;
    for i in 0..256usize {
        let bit = x.bit(if i <= t { i } else { t });
        r.set_bit(i, bit);
    }
    r
}
fn bitwise_by_bits(a: U256, b: U256, f: fn(bool, bool) -> bool) -> U256 {
    let mut r = U256::ZERO;
    for i in 0..256usize {
        r.set_bit(i, f(a.bit(i), b.bit(i)));
    }
    r
}
/// BYTE: byte i counted from the most significant end: (x / 256^(31-i)) mod 256, 0 for i >= 32
fn yp_byte(i: U256, x: U256) -> U256 {
    if i < U256::from(32) {
        let k = 8 * (31 - i.as_limbs()[0] as usize);
        low256((widen(x) / pow2_512(k)) % big(256))
    } else {
        U256::ZERO
    }
}
/// EIP-145 SHL: (x * 2^s) mod 2^256
fn yp_shl(s: U256, x: U256) -> U256 {
    if s >= U256::from(256) {
        U256::ZERO // a multiple of 2^256
    } else {
        low256(widen(x) * pow2_512(s.as_limbs()[0] as usize))
    }
}
/// EIP-145 SHR: floor(x / 2^s)
fn yp_shr(s: U256, x: U256) -> U256 {
    if s >= U256::from(256) {
        U256::ZERO // x < 2^256 <= 2^s
    } else {
        low256(widen(x) / pow2_512(s.as_limbs()[0] as usize))
    }
}
/// EIP-145 SAR: floor(to_signed(x) / 2^s) as a word
fn yp_sar(s: U256, x: U256) -> U256 {
    let v = to_signed(x);
    let negative = v.neg && !v.mag.is_zero();
    if s >= U256::from(256) {
        // |v| <= 2^255 < 2^s: floor is 0 for v >= 0 and -1 for v < 0
        return if negative { U256::MAX } else { U256::ZERO };
    }
    let d = pow2_512(s.as_limbs()[0] as usize);
    if !negative {
        low256(widen(v.mag) / d)
    } else {
        // floor(-m / d) = -ceil(m / d)
        let c = (widen(v.mag) + d - big(1)) / d;
        word_of_int(SInt { neg: true, mag: low256(c) })
    }
}
fn byte_len(n: U256) -> u64 {
    let mut n = n;
    let mut k = 0;
    while !n.is_zero() {
        n = n / U256::from(256);
        k += 1;
    }
    k
}

// ---------------------------------------------------------------------------------- the instruction table

#[derive(Clone, Copy)]
enum Value {
    Un(fn(U256) -> U256),
    Bin(fn(U256, U256) -> U256),
    Ter(fn(U256, U256, U256) -> U256),
}

#[derive(Clone, Copy, PartialEq)]
enum Flavor {
    /// static gas charged first
    Plain,
    /// EIP-145: NotActivated before Constantinople, then Plain
    Eip145,
    /// EXP: pops first, dynamic gas 10 + (50 | 10) * bytes(exponent)
    Exp,
}

struct Op {
    name: &'static str,
    aliases: &'static [&'static str],
    gas: u64,
    value: Value,
    flavor: Flavor,
    real: fn(SpecId) -> IFn,
}

/// the SpecId the generic instantiation chosen for `s` carries (FRONTIER_THAWING runs FrontierSpec, ...)
fn effective_spec(s: SpecId) -> SpecId {
    revm_primitives::spec_to_generic!(s, <SPEC as Spec>::SPEC_ID)
}

macro_rules! plain {
    ($m:ident :: $f:ident) => {
        |_s: SpecId| -> IFn { $m::$f::<DummyHost> }
    };
}
macro_rules! spec {
    ($m:ident :: $f:ident) => {
        |s: SpecId| -> IFn { revm_primitives::spec_to_generic!(s, $m::$f::<DummyHost, SPEC>) }
    };
}

fn ops() -> &'static Vec<Op> {
    static OPS: std::sync::OnceLock<Vec<Op>> = std::sync::OnceLock::new();
    OPS.get_or_init(build_ops)
}

fn build_ops() -> Vec<Op> {
    use Flavor::*;
    use Value::*;
    vec![
        Op { name: "add", aliases: &[], gas: 3, value: Bin(yp_add), flavor: Plain, real: plain!(arithmetic::add) },
        Op { name: "mul", aliases: &[], gas: 5, value: Bin(yp_mul), flavor: Plain, real: plain!(arithmetic::mul) },
        Op { name: "sub", aliases: &[], gas: 3, value: Bin(yp_sub), flavor: Plain, real: plain!(arithmetic::sub) },
        Op { name: "div", aliases: &[], gas: 5, value: Bin(yp_div), flavor: Plain, real: plain!(arithmetic::div) },
        Op { name: "sdiv", aliases: &[], gas: 5, value: Bin(sdiv_spec), flavor: Plain, real: plain!(arithmetic::sdiv) },
        Op { name: "rem", aliases: &["mod"], gas: 5, value: Bin(yp_mod), flavor: Plain, real: plain!(arithmetic::rem) },
        Op { name: "smod", aliases: &[], gas: 5, value: Bin(smod_spec), flavor: Plain, real: plain!(arithmetic::smod) },
        Op { name: "addmod", aliases: &[], gas: 8, value: Ter(yp_addmod), flavor: Plain, real: plain!(arithmetic::addmod) },
        Op { name: "mulmod", aliases: &[], gas: 8, value: Ter(yp_mulmod), flavor: Plain, real: plain!(arithmetic::mulmod) },
        Op { name: "exp", aliases: &[], gas: 0, value: Bin(yp_exp), flavor: Exp, real: spec!(arithmetic::exp) },
        Op { name: "signextend", aliases: &[], gas: 5, value: Bin(yp_signextend), flavor: Plain, real: plain!(arithmetic::signextend) },
        Op { name: "lt", aliases: &[], gas: 3, value: Bin(|a, b| b2w(a < b)), flavor: Plain, real: plain!(bitwise::lt) },
        Op { name: "gt", aliases: &[], gas: 3, value: Bin(|a, b| b2w(a > b)), flavor: Plain, real: plain!(bitwise::gt) },
        Op { name: "slt", aliases: &[], gas: 3, value: Bin(|a, b| b2w(scmp_spec(a, b) == Ordering::Less)), flavor: Plain, real: plain!(bitwise::slt) },
        Op { name: "sgt", aliases: &[], gas: 3, value: Bin(|a, b| b2w(scmp_spec(a, b) == Ordering::Greater)), flavor: Plain, real: plain!(bitwise::sgt) },
        Op { name: "eq", aliases: &[], gas: 3, value: Bin(|a, b| b2w(a == b)), flavor: Plain, real: plain!(bitwise::eq) },
        Op { name: "iszero", aliases: &[], gas: 3, value: Un(|a| b2w(a.is_zero())), flavor: Plain, real: plain!(bitwise::iszero) },
        Op { name: "bitand", aliases: &["and"], gas: 3, value: Bin(|a, b| bitwise_by_bits(a, b, |x, y| x && y)), flavor: Plain, real: plain!(bitwise::bitand) },
        Op { name: "bitor", aliases: &["or"], gas: 3, value: Bin(|a, b| bitwise_by_bits(a, b, |x, y| x || y)), flavor: Plain, real: plain!(bitwise::bitor) },
        Op { name: "bitxor", aliases: &["xor"], gas: 3, value: Bin(|a, b| bitwise_by_bits(a, b, |x, y| x != y)), flavor: Plain, real: plain!(bitwise::bitxor) },
        Op { name: "not", aliases: &[], gas: 3, value: Un(|a| bitwise_by_bits(a, a, |x, _| !x)), flavor: Plain, real: plain!(bitwise::not) },
        Op { name: "byte", aliases: &[], gas: 3, value: Bin(yp_byte), flavor: Plain, real: plain!(bitwise::byte) },
        Op { name: "shl", aliases: &[], gas: 3, value: Bin(yp_shl), flavor: Eip145, real: spec!(bitwise::shl) },
        Op { name: "shr", aliases: &[], gas: 3, value: Bin(yp_shr), flavor: Eip145, real: spec!(bitwise::shr) },
        Op { name: "sar", aliases: &[], gas: 3, value: Bin(yp_sar), flavor: Eip145, real: spec!(bitwise::sar) },
    ]
}

// ---------------------------------------------------------------------------------- stack shapes

fn arity(v: Value) -> usize {
    match v {
        Value::Un(_) => 1,
        Value::Bin(_) => 2,
        Value::Ter(_) => 3,
    }
}

fn filler(i: usize) -> U256 {
    U256::from_limbs([0xF111E4 + i as u64, 0xA5A5A5A5A5A5A5A5, 0x5A5A5A5A5A5A5A5A, 0xC0FFEE0000000000 + i as u64])
}

/// stack before the instruction, bottom first. `shape` = total number of words: below `n` only (the top-most)
/// operands are present, above `n` fillers lie beneath the operands. operands[0] is the top word.
fn pre_stack(operands: &[U256], shape: usize) -> Vec<U256> {
    let n = operands.len();
    let mut s = Vec::new();
    if shape >= n {
        for i in 0..(shape - n) {
            s.push(filler(i));
        }
        for k in (0..n).rev() {
            s.push(operands[k]);
        }
    } else {
        for k in (0..shape).rev() {
            s.push(operands[k]);
        }
    }
    s
}

fn render(result: &str, limit: u64, remaining: u64, refunded: i64, stack: &[U256]) -> String {
    let mut s = format!("result={} gas_limit={} gas_remaining={} gas_refunded={} stack(bottom..top)=[", result, limit, remaining, refunded);
    for (i, w) in stack.iter().enumerate() {
        if i > 0 {
            s.push_str(", ");
        }
        s.push_str(&format!("{:#x}", w));
    }
    s.push(']');
    s
}

// args: [a, (b), (c), gas, shape, (spec)]
struct Parsed {
    operands: Vec<U256>,
    gas: u64,
    shape: usize,
    spec: SpecId,
}

fn parse(op: &Op, a: &[Val]) -> Parsed {
    let n = arity(op.value);
    let operands: Vec<U256> = a[..n].iter().map(|v| v.w()).collect();
    let spec = if op.flavor == Flavor::Plain { SpecId::LATEST } else { a[n + 2].s() };
    Parsed { operands, gas: a[n].u64(), shape: a[n + 1].u8() as usize, spec }
}

fn expected(op: &Op, a: &[Val]) -> Option<String> {
    let p = parse(op, a);
    let n = p.operands.len();
    let pre = pre_stack(&p.operands, p.shape);
    let spec = effective_spec(p.spec);
    let value = || match op.value {
        Value::Un(f) => f(p.operands[0]),
        Value::Bin(f) => f(p.operands[0], p.operands[1]),
        Value::Ter(f) => f(p.operands[0], p.operands[1], p.operands[2]),
    };
    let done = |g: u64| {
        let mut post = pre[..pre.len() - n].to_vec();
        post.push(value());
        render("Continue", p.gas, p.gas - g, 0, &post)
    };
    Some(match op.flavor {
        Flavor::Eip145 if !ge(spec, SpecId::CONSTANTINOPLE) => render("NotActivated", p.gas, p.gas, 0, &pre),
        Flavor::Plain | Flavor::Eip145 => {
            if p.gas < op.gas {
                render("OutOfGas", p.gas, p.gas, 0, &pre)
            } else if pre.len() < n {
                render("StackUnderflow", p.gas, p.gas - op.gas, 0, &pre)
            } else {
                done(op.gas)
            }
        }
        Flavor::Exp => {
            if pre.len() < 2 {
                render("StackUnderflow", p.gas, p.gas, 0, &pre)
            } else {
                // Yellow Paper 10 + 10 per exponent byte; EIP-160 (Spurious Dragon): 10 + 50 per byte
                let g = 10 + (if ge(spec, SpecId::SPURIOUS_DRAGON) { 50 } else { 10 }) * byte_len(p.operands[1]);
                if p.gas < g {
                    render("OutOfGas", p.gas, p.gas, 0, &pre[..pre.len() - 1])
                } else {
                    done(g)
                }
            }
        }
    })
}

fn observed(op: &Op, a: &[Val]) -> String {
    let p = parse(op, a);
    let pre = pre_stack(&p.operands, p.shape);
    let mut interp = Interpreter::new(Contract::default(), p.gas, false);
    for w in &pre {
        interp.stack.push(*w).expect("stack push");
    }
    let mut host = DummyHost::default();
    let f = (op.real)(p.spec);
    f(&mut interp, &mut host);
    render(
        &format!("{:?}", interp.instruction_result),
        interp.gas.limit(),
        interp.gas.remaining(),
        interp.gas.refunded(),
        interp.stack.data(),
    )
}

fn gas_points(op: &Op) -> Vec<u64> {
    if op.flavor == Flavor::Exp {
        vec![0, 9, 10, 11, 19, 20, 59, 60, 61, 109, 110, 329, 330, 1609, 1610, 1611, 100000, u64::MAX]
    } else {
        vec![0, op.gas - 1, op.gas, op.gas + 1, 100000, u64::MAX]
    }
}

fn specs_for(op: &Op) -> Vec<SpecId> {
    if op.flavor == Flavor::Plain {
        vec![]
    } else {
        all_specs()
    }
}

pub fn cases() -> Vec<Case> {
    let mut out = Vec::new();
    for (idx, op) in ops().iter().enumerate() {
        let n = arity(op.value);
        let mut schema: Vec<(&'static str, Kind)> = Vec::new();
        let opnames: &[&'static str] = match (op.name, n) {
            ("exp", _) => &["base", "exponent"],
            ("signextend", _) => &["ext", "x"],
            ("byte", _) => &["index", "x"],
            ("shl", _) | ("shr", _) | ("sar", _) => &["shift", "value"],
            (_, 1) => &["a"],
            (_, 2) => &["a", "b"],
            _ => &["a", "b", "n"],
        };
        for nm in opnames {
            schema.push((nm, Kind::W));
        }
        schema.push(("gas_limit", Kind::U64));
        schema.push(("stack_words", Kind::U8));
        if op.flavor != Flavor::Plain {
            schema.push(("spec_id", Kind::S));
        }
        let mut names: Vec<String> = vec![op.name.to_string()];
        names.extend(op.aliases.iter().map(|s| s.to_string()));
        let mk_args = move |operands: &[U256], gas: u64, shape: u8, spec: Option<SpecId>| -> Args {
            let mut v: Args = operands.iter().map(|w| Val::W(*w)).collect();
            v.push(Val::U64(gas));
            v.push(Val::U8(shape));
            if let Some(s) = spec {
                v.push(Val::S(s));
            }
            v
        };
        out.push(Case {
            id: format!("instr::{}", op.name),
            names,
            finding: false,
            schema,
            boundary: Box::new(move || {
                let op = &ops()[idx];
                let specs = specs_for(op);
                let latest = if specs.is_empty() { None } else { Some(SpecId::LATEST) };
                let mut v: Vec<Args> = Vec::new();
                // 1. every combination of boundary operands, ample gas, exactly the operands on the stack
                let ws = if n == 3 { bounds_w_small() } else { bounds_w() };
                let mut combos: Vec<Vec<U256>> = vec![vec![]];
                for _ in 0..n {
                    let mut next = Vec::new();
                    for c in &combos {
                        for w in &ws {
                            let mut c2 = c.clone();
                            c2.push(*w);
                            next.push(c2);
                        }
                    }
                    combos = next;
                }
                for c in &combos {
                    v.push(mk_args(c, 100000, n as u8, latest));
                }
                // 2. gas boundaries x stack shapes x every SpecId, on a few operand tuples
                let few: Vec<Vec<U256>> = {
                    let pick = [U256::from(3), U256::from(2), U256::from(7), U256::MAX, U256::from(1) << 255, U256::from(256), U256::from(255)];
                    let mut f = Vec::new();
                    for i in 0..pick.len() {
                        f.push((0..n).map(|k| pick[(i + k) % pick.len()]).collect());
                    }
                    f
                };
                let spec_opts: Vec<Option<SpecId>> = if specs.is_empty() { vec![None] } else { specs.iter().map(|s| Some(*s)).collect() };
                for c in &few {
                    for g in gas_points(op) {
                        for shape in 0..=(n as u8 + 2) {
                            for s in &spec_opts {
                                v.push(mk_args(c, g, shape, *s));
                            }
                        }
                    }
                }
                // 3. shift / index / exponent sweeps
                if matches!(op.name, "shl" | "shr" | "sar" | "byte" | "signextend") {
                    let vals = [U256::MAX, U256::from(1) << 255, (U256::from(1) << 255) - U256::from(1), U256::from(1), U256::from_limbs([0x0123456789abcdef, 0xfedcba9876543210, 0x0f1e2d3c4b5a6978, 0x8796a5b4c3d2e1f0])];
                    for s in 0..=258u64 {
                        for x in vals {
                            v.push(mk_args(&[U256::from(s), x], 100000, 2, latest));
                        }
                    }
                }
                if op.name == "exp" {
                    for s in specs.iter() {
                        for k in 0..256usize {
                            v.push(mk_args(&[U256::from(3), U256::from(1) << k], 100000, 2, Some(*s)));
                        }
                    }
                }
                v
            }),
            random: Box::new(move |r| {
                let op = &ops()[idx];
                let mut operands: Vec<U256> = (0..n).map(|_| r.w()).collect();
                if n >= 2 && r.below(8) == 0 {
                    operands[1] = operands[0];
                }
                if matches!(op.name, "shl" | "shr" | "sar" | "byte" | "signextend") && r.below(3) > 0 {
                    operands[0] = U256::from(r.below(300));
                }
                if op.name == "exp" && r.bool() {
                    operands[1] = U256::from(r.below(600));
                }
                let gas = match r.below(6) {
                    0 => r.below(12),
                    1 if op.flavor == Flavor::Exp => r.below(1700),
                    _ => 100000 + r.below(1000),
                };
                let shape = if r.below(6) == 0 { r.below(n as u64 + 3) as u8 } else { n as u8 + (r.below(3) as u8) };
                let spec = if op.flavor == Flavor::Plain { None } else { Some(r.spec()) };
                mk_args(&operands, gas, shape, spec)
            }),
            expected: Box::new(move |a| expected(&ops()[idx], a)),
            observed: Box::new(move |a| observed(&ops()[idx], a)),
        });
    }
    out
}
