//! C03 (helpers): crates/interpreter/src/instructions/i256.rs. Oracle = contracts/i256.vc (Yellow Paper H.2):
//! words are two's complement signed 256-bit integers; SDIV truncates toward zero with the -2^255 / -1 case,
//! SMOD takes the sign of the dividend. Computed on sign + magnitude, never with the functions under test.
use crate::core::*;
use revm_interpreter::instructions::i256 as ri;
use revm_primitives::U256;
use std::cmp::Ordering;

pub fn sdiv_spec(a: U256, b: U256) -> U256 {
    if b.is_zero() {
        return U256::ZERO;
    }
    let (sa, sb) = (to_signed(a), to_signed(b));
    let p255 = U256::from(1) << 255;
    if sa.neg && sa.mag == p255 && sb.neg && sb.mag == U256::from(1) {
        return p255; // the Yellow Paper's explicit overflow case: -2^255
    }
    // sgn(a / b) * floor(|a| / |b|)
    let q = sa.mag / sb.mag;
    word_of_int(SInt { neg: sa.neg != sb.neg, mag: q })
}

pub fn smod_spec(a: U256, b: U256) -> U256 {
    if b.is_zero() {
        return U256::ZERO;
    }
    let (sa, sb) = (to_signed(a), to_signed(b));
    // sgn(a) * (|a| mod |b|)
    word_of_int(SInt { neg: sa.neg, mag: sa.mag % sb.mag })
}

pub fn scmp_spec(a: U256, b: U256) -> Ordering {
    let (sa, sb) = (to_signed(a), to_signed(b));
    if sint_lt(sa, sb) {
        Ordering::Less
    } else if sint_lt(sb, sa) {
        Ordering::Greater
    } else {
        Ordering::Equal
    }
}

fn pairs() -> Vec<Args> {
    let b = bounds_w();
    let mut v = Vec::new();
    for x in &b {
        for y in &b {
            v.push(vec![Val::W(*x), Val::W(*y)]);
        }
    }
    v
}

fn rand_pair(r: &mut Rng) -> Args {
    let a = r.w();
    let b = match r.below(8) {
        0 => a,
        1 => a.wrapping_neg(),
        2 => U256::from(1),
        3 => U256::MAX,
        _ => r.w(),
    };
    vec![Val::W(a), Val::W(b)]
}

fn singles() -> Vec<Args> {
    bounds_w().into_iter().map(|x| vec![Val::W(x)]).collect()
}

fn hex(x: U256) -> String {
    format!("{:#x}", x)
}

fn mk(
    id: &str,
    names: &[&str],
    schema: Vec<(&'static str, Kind)>,
    boundary: fn() -> Vec<Args>,
    random: fn(&mut Rng) -> Args,
    expected: impl Fn(&[Val]) -> Option<String> + 'static,
    observed: impl Fn(&[Val]) -> String + 'static,
) -> Case {
    Case {
        id: id.to_string(),
        names: names.iter().map(|s| s.to_string()).collect(),
        finding: false,
        schema,
        boundary: Box::new(boundary),
        random: Box::new(random),
        expected: Box::new(expected),
        observed: Box::new(observed),
    }
}

pub fn cases() -> Vec<Case> {
    let two = || vec![("first", Kind::W), ("second", Kind::W)];
    let one = || vec![("val", Kind::W)];
    let sign_name = |x: U256| {
        let p255 = U256::from(1) << 255;
        if x >= p255 {
            "Minus"
        } else if x.is_zero() {
            "Zero"
        } else {
            "Plus"
        }
    };
    vec![
        // u256_remove_sign is private: reachable through i256_div / i256_mod only
        mk("i256::i256_div", &["i256_div", "u256_remove_sign"], two(), pairs, rand_pair, |a| Some(hex(sdiv_spec(a[0].w(), a[1].w()))), |a| hex(ri::i256_div(a[0].w(), a[1].w()))),
        mk("i256::i256_mod", &["i256_mod", "u256_remove_sign"], two(), pairs, rand_pair, |a| Some(hex(smod_spec(a[0].w(), a[1].w()))), |a| hex(ri::i256_mod(a[0].w(), a[1].w()))),
        mk(
            "i256::i256_cmp",
            &["i256_cmp"],
            two(),
            pairs,
            rand_pair,
            |a| Some(format!("{:?}", scmp_spec(a[0].w(), a[1].w()))),
            |a| format!("{:?}", ri::i256_cmp(&a[0].w(), &a[1].w())),
        ),
        mk(
            "i256::i256_sign",
            &["i256_sign"],
            one(),
            singles,
            |r| vec![Val::W(r.w())],
            move |a| Some(sign_name(a[0].w()).to_string()),
            |a| format!("{:?}", ri::i256_sign(&a[0].w())),
        ),
        mk(
            "i256::two_compl",
            &["two_compl"],
            one(),
            singles,
            |r| vec![Val::W(r.w())],
            // word_of_int(-x)
            |a| Some(hex(word_of_int(SInt { neg: true, mag: a[0].w() }))),
            |a| hex(ri::two_compl(a[0].w())),
        ),
        mk(
            "i256::two_compl_mut",
            &["two_compl_mut"],
            one(),
            singles,
            |r| vec![Val::W(r.w())],
            |a| Some(hex(word_of_int(SInt { neg: true, mag: a[0].w() }))),
            |a| {
                let mut x = a[0].w();
                ri::two_compl_mut(&mut x);
                hex(x)
            },
        ),
        mk(
            "i256::i256_sign_compl",
            &["i256_sign_compl"],
            one(),
            singles,
            |r| vec![Val::W(r.w())],
            // the sign, and |x| left in place
            move |a| Some(format!("{} abs={}", sign_name(a[0].w()), hex(to_signed(a[0].w()).mag))),
            |a| {
                let mut x = a[0].w();
                let s = ri::i256_sign_compl(&mut x);
                format!("{:?} abs={}", s, hex(x))
            },
        ),
        mk(
            "i256::constants",
            &["MAX_POSITIVE_VALUE", "MIN_NEGATIVE_VALUE"],
            vec![("constant", Kind::Str)],
            || vec![vec![Val::Str("MAX_POSITIVE_VALUE".into())], vec![Val::Str("MIN_NEGATIVE_VALUE".into())]],
            |r| vec![Val::Str(if r.bool() { "MAX_POSITIVE_VALUE".into() } else { "MIN_NEGATIVE_VALUE".into() })],
            |a| {
                let p255 = U256::from(1) << 255;
                Some(hex(if a[0].str() == "MAX_POSITIVE_VALUE" { p255 - U256::from(1) } else { p255 }))
            },
            |a| hex(if a[0].str() == "MAX_POSITIVE_VALUE" { ri::MAX_POSITIVE_VALUE } else { ri::MIN_NEGATIVE_VALUE }),
        ),
    ]
}
