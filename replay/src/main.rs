//! verif-replay: witness search and replay on the REAL functions of the repository under check.
//!
//!   verif-replay search <fn> <seed>    boundary values, then seeded pseudo-random inputs, for the function whose
//!                                      obligation failed (last path segment); prints `WITNESS <json>` on the first
//!                                      input where the real function disagrees with the executable twin of its
//!                                      postcondition; prints nothing if none is found or the name is unknown; exit 0
//!   verif-replay replay '<json>'       re-run exactly that input; exit 1 if observed != expected, 0 if they agree
//!   verif-replay selftest [ms]         every generator for `ms` (default 2000) per case against the tree it was
//!                                      built from; exit 1 if a twin disagrees outside the known-finding domains
//!   verif-replay list                  the cases and the names they answer to
//!
//! The search is never the deciding step: the failed obligation is. It only supplies a concrete input.
#![allow(deprecated)]
mod core;
mod t_blob;
mod t_gas;
mod t_gascalc;
mod t_i256;
mod t_instr;

use crate::core::*;

const MAX_EVALS: u64 = 200_000;
const MAX_MS: u128 = 20_000;

fn registry() -> Vec<Case> {
    let mut v = Vec::new();
    v.extend(t_gas::cases());
    v.extend(t_gascalc::cases());
    v.extend(t_blob::cases());
    v.extend(t_i256::cases());
    v.extend(t_instr::cases());
    v
}

fn cmd_search(name: &str, seed: u64) -> i32 {
    let reg = registry();
    let hits: Vec<&Case> = reg.iter().filter(|c| c.names.iter().any(|n| n == name) || c.id == name).collect();
    if hits.is_empty() {
        return 0;
    }
    let per_ms = MAX_MS / hits.len() as u128;
    for c in hits {
        let (w, st) = search_case(c, seed, MAX_EVALS, per_ms);
        eprintln!("search {}: {} evaluated, {} outside the domain, {} boundary inputs", c.id, st.evaluated, st.skipped, st.boundary_inputs);
        if let Some(o) = w {
            println!("WITNESS {}", c.witness_json(&o, seed, st.evaluated));
            return 0;
        }
    }
    0
}

fn cmd_replay(js: &str) -> i32 {
    let j = match json_parse(js) {
        Ok(j) => j,
        Err(e) => {
            println!("replay: cannot parse the witness: {}", e);
            return 2;
        }
    };
    let Some(fid) = j.get("function").and_then(|x| x.as_str()) else {
        println!("replay: witness has no \"function\" field (not produced by this binary's search); cannot re-execute");
        return 2;
    };
    let reg = registry();
    let Some(case) = reg.iter().find(|c| c.id == fid) else {
        println!("replay: unknown function {:?}", fid);
        return 2;
    };
    let mut args: Args = Vec::new();
    for (name, kind) in &case.schema {
        let Some(s) = j.get("args").and_then(|a| a.get(name)).and_then(|x| x.as_str()) else {
            println!("replay: argument {:?} missing", name);
            return 2;
        };
        match Val::parse(*kind, &s) {
            Ok(v) => args.push(v),
            Err(e) => {
                println!("replay: {}", e);
                return 2;
            }
        }
    }
    println!("function: {}", case.id);
    for ((name, _), v) in case.schema.iter().zip(args.iter()) {
        println!("  {} = {}", name, v.render());
    }
    match case.evaluate(&args) {
        None => {
            println!("input is outside the domain of the contract (precondition false): nothing to compare");
            0
        }
        Some(o) => {
            println!("observed (real function): {}", o.observed);
            println!("expected (oracle):        {}", o.expected);
            if o.observed != o.expected {
                println!("REPRODUCED: the real function still disagrees with its contract on this input");
                1
            } else {
                println!("agrees: the violation does not reproduce on this tree");
                0
            }
        }
    }
}

fn cmd_selftest(ms: u128) -> i32 {
    let n = registry().len();
    let threads = 4usize;
    let mut handles = Vec::new();
    for t in 0..threads {
        handles.push(std::thread::spawn(move || {
            let reg = registry();
            let mut lines: Vec<(usize, String, bool)> = Vec::new();
            for (i, c) in reg.iter().enumerate() {
                if i % threads != t {
                    continue;
                }
                let (w, st) = search_case(c, 0, u64::MAX, ms);
                let stat = format!("evaluated={} outside_domain={} boundary_inputs={}", st.evaluated, st.skipped, st.boundary_inputs);
                let (line, bad) = match (w, c.finding) {
                    (None, false) if st.evaluated == 0 => (format!("VACUOUS  {} {} (generator never hits the domain)", c.id, stat), true),
                    (None, false) => (format!("ok       {} {}", c.id, stat), false),
                    (Some(o), false) => (format!("MISMATCH {} {} WITNESS {}", c.id, stat, c.witness_json(&o, 0, st.evaluated)), true),
                    (Some(o), true) => (format!("finding  {} reproduced (expected, known_findings.txt) WITNESS {}", c.id, c.witness_json(&o, 0, st.evaluated)), false),
                    (None, true) => (format!("finding  {} NOT reproduced ({}) -- the code may have been fixed", c.id, stat), false),
                };
                lines.push((i, line, bad));
            }
            lines
        }));
    }
    let mut all: Vec<(usize, String, bool)> = Vec::new();
    for h in handles {
        all.extend(h.join().expect("selftest thread"));
    }
    all.sort_by_key(|x| x.0);
    let mut bad = 0;
    for (_, l, b) in &all {
        println!("{}", l);
        if *b {
            bad += 1;
        }
    }
    println!("selftest: {} cases, {} disagree outside the known-finding domains", n, bad);
    if bad > 0 {
        1
    } else {
        0
    }
}

fn main() {
    // panics of the code under test are caught and reported as the observed value; keep stderr quiet
    std::panic::set_hook(Box::new(|_| {}));
    let a: Vec<String> = std::env::args().collect();
    let rc = match a.get(1).map(|s| s.as_str()) {
        Some("search") if a.len() >= 3 => {
            let seed = a.get(3).and_then(|s| s.parse::<u64>().ok()).unwrap_or(0);
            cmd_search(&a[2], seed)
        }
        Some("replay") if a.len() >= 3 => cmd_replay(&a[2]),
        Some("selftest") => cmd_selftest(a.get(2).and_then(|s| s.parse::<u128>().ok()).unwrap_or(2000)),
        Some("list") => {
            for c in registry() {
                println!("{}{}  names={:?} args={:?}", c.id, if c.finding { " [finding]" } else { "" }, c.names, c.schema.iter().map(|s| s.0).collect::<Vec<_>>());
            }
            0
        }
        _ => {
            eprintln!("usage: verif-replay search <fn> <seed> | replay '<json>' | selftest [ms] | list");
            2
        }
    };
    std::process::exit(rc);
}
