//! verif-replay: witness search and replay on the REAL functions of the repository under check.
//!
//!   verif-replay search <fn> <seed>    boundary values, then seeded pseudo-random inputs, for the function whose
//!                                      obligation failed (last path segment); prints `WITNESS <json>` on the first
//!                                      input where the real function disagrees with the executable twin of its
//!                                      postcondition; prints nothing if none is found or the name is unknown; exit 0
//!   verif-replay replay '<json>'       re-run exactly that input; exit 1 if observed != expected, 0 if they agree
//!   verif-replay selftest [ms]         every generator for `ms` (default 2000) per case against the tree it was
//!                                      built from; exit 1 if a twin disagrees outside the known-finding domains
//!   verif-replay list                  the cases and the names they answer to
//!
//! The search is never the deciding step: the failed obligation is. It only supplies a concrete input.
//!
//! `search` / `replay` run the real code in a child process (`search-child` / `replay-child`): a mutated function
//! that crashes (UB behind `unsafe`, abort) or does not return within 5 s is reported as the observed behaviour
//! on the input the child was on (the generator is deterministic, the parent recomputes that input).
//!
//! Modules: t_gas (C13), t_gascalc (C14), t_blob (C32), t_i256 / t_instr (C03), t_precompile (C23 / C05: modexp, identity,
//! padding, alt_bn128 framing, from_spec_id), t_journal (C06 / C07 / C08 / C34: operation sequences on a real JournaledState),
//! t_memory (C11: SharedMemory sequences, resize_memory, MLOAD .. MCOPY), t_bytecode (C27), t_stack (C12).
//!
//! Adding a twin (builders): one `Case` per function in a `t_<unit>.rs` module, registered in `registry()`:
//! `names` = last path segment of the Verus obligation (+ names of private helpers only reachable through it),
//! `expected` = the postcondition of the contract store as executable code over big integers (NEVER a call of
//! the function under test; None outside the precondition / outside the domain where the contract claims the
//! EIP value), `observed` = the call of the real function, rendered like the oracle renders its value,
//! `boundary` + `random` = inputs. Known findings get their own case `<fn>__finding_<tag>` (finding: true).
//! Then run `verif-replay selftest`: it must stay clean on the unchanged tree.
//! The crate is built by vf/replay.py build() from Cargo.toml.in (@REPO@ = repository under check).
#![allow(deprecated)]
mod core;
mod t_blob;
mod t_gas;
mod t_gascalc;
mod t_i256;
mod t_instr;
mod t_journal;
mod t_memory;
mod t_stack;
mod t_static;
mod t_env;
mod t_bytecode;
mod t_precompile;

use crate::core::*;

const MAX_EVALS: u64 = 200_000;
const MAX_MS: u128 = 20_000;

fn registry() -> Vec<Case> {
    let mut v = Vec::new();
    v.extend(t_gas::cases());
    v.extend(t_gascalc::cases());
    v.extend(t_blob::cases());
    v.extend(t_i256::cases());
    v.extend(t_instr::cases());
    v.extend(t_precompile::cases());
    v.extend(t_journal::cases());
    v.extend(t_memory::cases());
    v.extend(t_bytecode::cases());
    v.extend(t_stack::cases());
    v.extend(t_static::cases());
    v.extend(t_env::cases());
    v
}

/// in the child process: the actual search
fn cmd_search_child(name: &str, seed: u64) -> i32 {
    install_guards();
    let reg = registry();
    let hits: Vec<(usize, &Case)> = reg.iter().enumerate().filter(|(_, c)| c.names.iter().any(|n| n == name) || c.id == name).collect();
    if hits.is_empty() {
        return 0;
    }
    let per_ms = MAX_MS / hits.len() as u128;
    for (i, c) in hits {
        CUR_CASE.store(i as u64, std::sync::atomic::Ordering::Relaxed);
        let (w, st) = search_case(c, seed, MAX_EVALS, per_ms);
        eprintln!("search {}: {} evaluated, {} outside the domain, {} boundary inputs", c.id, st.evaluated, st.skipped, st.boundary_inputs);
        if let Some(o) = w {
            println!("WITNESS {}", c.witness_json(&o, seed, st.evaluated));
            return 0;
        }
    }
    0
}

/// `key=value` fields of a CRASH / HANG line
fn field(line: &str, key: &str) -> Option<u64> {
    line.split_whitespace().find_map(|t| t.strip_prefix(key).and_then(|r| r.strip_prefix('=')).and_then(|v| v.parse::<u64>().ok()))
}

fn abnormal(line: &str) -> Option<String> {
    if line.starts_with("CRASH ") {
        let sig = field(line, "sig").unwrap_or(0);
        Some(format!("crash: signal {} ({}) inside the real function", sig, signal_name(sig)))
    } else if line.starts_with("HANG ") {
        Some(format!("no return from the real function within {} s (evaluation aborted)", HANG_SECONDS))
    } else {
        None
    }
}

fn run_child(args: &[&str], timeout_s: u64) -> (String, String, Option<i32>) {
    use std::io::Read;
    let exe = std::env::current_exe().expect("current_exe");
    let mut child = match std::process::Command::new(exe).args(args).stdout(std::process::Stdio::piped()).stderr(std::process::Stdio::piped()).spawn() {
        Ok(c) => c,
        Err(e) => return (String::new(), format!("cannot spawn the child process: {}", e), None),
    };
    let mut so = child.stdout.take().unwrap();
    let mut se = child.stderr.take().unwrap();
    let t1 = std::thread::spawn(move || {
        let mut s = Vec::new();
        let _ = so.read_to_end(&mut s);
        String::from_utf8_lossy(&s).to_string()
    });
    let t2 = std::thread::spawn(move || {
        let mut s = Vec::new();
        let _ = se.read_to_end(&mut s);
        String::from_utf8_lossy(&s).to_string()
    });
    let t0 = std::time::Instant::now();
    let code = loop {
        match child.try_wait() {
            Ok(Some(st)) => break st.code(),
            Ok(None) => {
                if t0.elapsed().as_secs() > timeout_s {
                    let _ = child.kill();
                    let _ = child.wait();
                    break None;
                }
                std::thread::sleep(std::time::Duration::from_millis(20));
            }
            Err(_) => break None,
        }
    };
    (t1.join().unwrap_or_default(), t2.join().unwrap_or_default(), code)
}

/// parent: runs the search in a child process; a crash or hang of the real function becomes the witness
fn cmd_search(name: &str, seed: u64) -> i32 {
    let reg = registry();
    if !reg.iter().any(|c| c.names.iter().any(|n| n == name) || c.id == name) {
        return 0;
    }
    let seed_s = seed.to_string();
    let (out, err, _code) = run_child(&["search-child", name, &seed_s], (MAX_MS / 1000) as u64 * 4 + 60);
    eprint!("{}", err);
    for line in out.lines() {
        if line.starts_with("WITNESS ") {
            println!("{}", line);
            return 0;
        }
        if let Some(what) = abnormal(line) {
            // the generator is deterministic: recompute the input the child was on, confirm it alone
            let (Some(ci), Some(ph), Some(idx)) = (field(line, "case"), field(line, "phase"), field(line, "idx")) else { return 0 };
            let Some(case) = reg.get(ci as usize) else { return 0 };
            if field(line, "in_real") != Some(1) {
                eprintln!("search {}: {} outside the call of the real function; no witness", case.id, line);
                return 0;
            }
            let Some(args) = nth_input(case, seed, ph, idx) else { return 0 };
            let Some(expected) = (case.expected)(&args) else { return 0 };
            let o = Outcome { args, observed: what, expected };
            let js = case.witness_json(&o, seed, idx + 1);
            let (rout, _, rcode) = run_child(&["replay-child", &js], HANG_SECONDS + 30);
            if rcode == Some(0) {
                eprintln!("search {}: {} -- not reproduced on that input alone (memory corrupted by an earlier input?); no witness", case.id, line);
                return 0;
            }
            let _ = rout;
            println!("WITNESS {}", js);
            return 0;
        }
    }
    0
}

fn cmd_replay_child(js: &str) -> i32 {
    install_guards();
    CUR_PHASE.store(2, std::sync::atomic::Ordering::Relaxed);
    let j = match json_parse(js) {
        Ok(j) => j,
        Err(e) => {
            println!("replay: cannot parse the witness: {}", e);
            return 2;
        }
    };
    let Some(fid) = j.get("function").and_then(|x| x.as_str()) else {
        println!("replay: witness has no \"function\" field (not produced by this binary's search); cannot re-execute");
        return 2;
    };
    let reg = registry();
    let Some(case) = reg.iter().find(|c| c.id == fid) else {
        println!("replay: unknown function {:?}", fid);
        return 2;
    };
    let mut args: Args = Vec::new();
    for (name, kind) in &case.schema {
        let Some(s) = j.get("args").and_then(|a| a.get(name)).and_then(|x| x.as_str()) else {
            println!("replay: argument {:?} missing", name);
            return 2;
        };
        match Val::parse(*kind, &s) {
            Ok(v) => args.push(v),
            Err(e) => {
                println!("replay: {}", e);
                return 2;
            }
        }
    }
    println!("function: {}", case.id);
    for ((name, _), v) in case.schema.iter().zip(args.iter()) {
        println!("  {} = {}", name, v.render());
    }
    match case.evaluate(&args) {
        None => {
            println!("input is outside the domain of the contract (precondition false): nothing to compare");
            0
        }
        Some(o) => {
            println!("observed (real function): {}", o.observed);
            println!("expected (oracle):        {}", o.expected);
            if o.observed != o.expected {
                println!("REPRODUCED: the real function still disagrees with its contract on this input");
                1
            } else {
                println!("agrees: the violation does not reproduce on this tree");
                0
            }
        }
    }
}

/// parent: exit 1 if the violation reproduces (values differ, or the real function crashes / hangs), 0 if it agrees
fn cmd_replay(js: &str) -> i32 {
    let (out, err, code) = run_child(&["replay-child", js], HANG_SECONDS + 60);
    let mut abn = None;
    for line in out.lines() {
        if let Some(what) = abnormal(line) {
            abn = Some(what);
        } else if !line.is_empty() {
            println!("{}", line);
        }
    }
    eprint!("{}", err);
    if let Some(what) = abn {
        println!("observed (real function): {}", what);
        if let Ok(j) = json_parse(js) {
            if let Some(e) = j.get("expected").and_then(|x| x.as_str()) {
                println!("expected (oracle):        {}", e);
            }
        }
        println!("REPRODUCED: the real function still fails on this input");
        return 1;
    }
    match code {
        Some(c) => c,
        None => {
            println!("observed (real function): the child process was killed (signal or time-out)");
            println!("REPRODUCED: the real function still fails on this input");
            1
        }
    }
}

fn cmd_selftest(ms: u128) -> i32 {
    let n = registry().len();
    let threads = 4usize;
    let mut handles = Vec::new();
    for t in 0..threads {
        handles.push(std::thread::spawn(move || {
            let reg = registry();
            let mut lines: Vec<(usize, String, bool)> = Vec::new();
            for (i, c) in reg.iter().enumerate() {
                if i % threads != t {
                    continue;
                }
                let (w, st) = search_case(c, 0, u64::MAX, ms);
                let stat = format!("evaluated={} outside_domain={} boundary_inputs={}", st.evaluated, st.skipped, st.boundary_inputs);
                let (line, bad) = match (w, c.finding) {
                    (None, false) if st.evaluated == 0 => (format!("VACUOUS  {} {} (generator never hits the domain)", c.id, stat), true),
                    (None, false) => (format!("ok       {} {}", c.id, stat), false),
                    (Some(o), false) => (format!("MISMATCH {} {} WITNESS {}", c.id, stat, c.witness_json(&o, 0, st.evaluated)), true),
                    (Some(o), true) => (format!("finding  {} reproduced (expected, known_findings.txt) WITNESS {}", c.id, c.witness_json(&o, 0, st.evaluated)), false),
                    (None, true) => (format!("finding  {} NOT reproduced ({}) -- the code may have been fixed", c.id, stat), false),
                };
                lines.push((i, line, bad));
            }
            lines
        }));
    }
    let mut all: Vec<(usize, String, bool)> = Vec::new();
    for h in handles {
        all.extend(h.join().expect("selftest thread"));
    }
    all.sort_by_key(|x| x.0);
    let mut bad = 0;
    for (_, l, b) in &all {
        println!("{}", l);
        if *b {
            bad += 1;
        }
    }
    println!("selftest: {} cases, {} disagree outside the known-finding domains", n, bad);
    if bad > 0 {
        1
    } else {
        0
    }
}

fn main() {
    // panics of the code under test are caught and reported as the observed value; keep stderr quiet
    std::panic::set_hook(Box::new(|_| {}));
    let a: Vec<String> = std::env::args().collect();
    let rc = match a.get(1).map(|s| s.as_str()) {
        Some("search") if a.len() >= 3 => {
            let seed = a.get(3).and_then(|s| s.parse::<u64>().ok()).unwrap_or(0);
            cmd_search(&a[2], seed)
        }
        Some("search-child") if a.len() >= 3 => {
            let seed = a.get(3).and_then(|s| s.parse::<u64>().ok()).unwrap_or(0);
            cmd_search_child(&a[2], seed)
        }
        Some("replay") if a.len() >= 3 => cmd_replay(&a[2]),
        Some("replay-child") if a.len() >= 3 => cmd_replay_child(&a[2]),
        Some("selftest") => cmd_selftest(a.get(2).and_then(|s| s.parse::<u128>().ok()).unwrap_or(2000)),
        Some("list") => {
            for c in registry() {
                println!("{}{}  names={:?} args={:?}", c.id, if c.finding { " [finding]" } else { "" }, c.names, c.schema.iter().map(|s| s.0).collect::<Vec<_>>());
            }
            0
        }
        _ => {
            eprintln!("usage: verif-replay search <fn> <seed> | replay '<json>' | selftest [ms] | list");
            2
        }
    };
    std::process::exit(rc);
}
