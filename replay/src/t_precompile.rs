//! C23 / C05: crates/precompile -- modexp (EIP-198 / EIP-2565), identity, padding helpers, alt_bn128 framing,
//! PrecompileSpecId::from_spec_id. Oracles = the spec functions of units/precompile.rs.in, over big integers:
//! the gas of MODEXP is computed from the ZERO-EXTENDED input (an input that ends inside the header, the base,
//! the exponent head or the modulus is the same call as the explicitly padded one), OutOfGas iff cost > gas_limit,
//! output = base^exp mod modulus left-padded to mod_len (square and multiply on 2048-bit integers, small sizes).
//! Known findings (known_findings.txt): byzantium_gas_calc / berlin_gas_calc saturate the iteration count before
//! the multiplication -- visible only for exp_len > 2^61 + 32, i.e. gas_limit >= 922337203685477580; the main cases
//! stay below that, the finding domains are separate cases.
use crate::core::*;
use revm_precompile::{bn128, identity, modexp, utilities, PrecompileSpecId};
use revm_primitives::ruint::Uint;
use revm_primitives::{Bytes, PrecompileErrors, PrecompileResult, SpecId, U256};

type U2048 = Uint<2048, 32>;

// ---------------------------------------------------------------------------------- oracle

fn in_byte(inp: &[u8], i: u128) -> u8 {
    if i < inp.len() as u128 {
        inp[i as usize]
    } else {
        0
    }
}
/// n bytes of the zero-extended input starting at `off`
fn in_bytes(inp: &[u8], off: u128, n: usize) -> Vec<u8> {
    (0..n).map(|i| in_byte(inp, off + i as u128)).collect()
}
fn be_w(b: &[u8]) -> U256 {
    let mut x = U256::ZERO;
    for v in b {
        x = (x << 8) | U256::from(*v);
    }
    x
}
/// number of bits of n: 0 for 0, floor(log2 n) + 1 otherwise
fn bit_length(n: U256) -> u128 {
    let mut n = n;
    let mut k = 0;
    while !n.is_zero() {
        n >>= 1;
        k += 1;
    }
    k
}
/// EIP-198 mult_complexity
fn eip198_mult_complexity(x: u64) -> U512 {
    let x = big(x as u128);
    if x <= big(64) {
        x * x
    } else if x <= big(1024) {
        (x * x) / big(4) + big(96) * x - big(3072)
    } else {
        (x * x) / big(16) + big(480) * x - big(199680)
    }
}
/// EIP-198 ADJUSTED_EXPONENT_LENGTH; head = first min(len, 32) bytes of the exponent as a big-endian number
fn adjusted_exponent_length(len: u64, head: U256) -> U512 {
    if len <= 32 && head.is_zero() {
        big(0)
    } else if len <= 32 {
        big(bit_length(head) - 1)
    } else if !head.is_zero() {
        big(8) * big(len as u128 - 32) + big(bit_length(head) - 1)
    } else {
        big(8) * big(len as u128 - 32)
    }
}
fn bmax(a: U512, b: U512) -> U512 {
    if a >= b {
        a
    } else {
        b
    }
}
fn iteration_count(el: u64, head: U256) -> U512 {
    bmax(adjusted_exponent_length(el, head), big(1))
}
/// EIP-198: floor(mult_complexity(max(mod_len, base_len)) * max(adjusted_exponent_length, 1) / 20)
fn eip198_gas(bl: u64, el: u64, ml: u64, head: U256) -> U512 {
    eip198_mult_complexity(bl.max(ml)) * iteration_count(el, head) / big(20)
}
/// EIP-2565: max(200, floor(ceil(max_len / 8)^2 * iteration_count / 3))
fn eip2565_gas(bl: u64, el: u64, ml: u64, head: U256) -> U512 {
    let w = big((bl.max(ml) as u128 + 7) / 8);
    bmax(big(200), w * w * iteration_count(el, head) / big(3))
}
fn sat64(v: U512) -> u64 {
    if v > big(u64::MAX as u128) {
        u64::MAX
    } else {
        v.as_limbs()[0]
    }
}

fn be_wide(b: &[u8]) -> U2048 {
    U2048::try_from_be_slice(b).expect("at most 256 bytes")
}
/// base^exp mod modulus on mathematical integers, as mod_len bytes (0 when the modulus is 0)
fn modexp_oracle(base: &[u8], exp: &[u8], modulus: &[u8]) -> Vec<u8> {
    let ml = modulus.len();
    let m = be_wide(modulus);
    if m.is_zero() {
        return vec![0; ml];
    }
    // operands < 2^1024: products fit 2048 bits
    let b = be_wide(base) % m;
    let mut r = U2048::from(1u64) % m;
    for byte in exp {
        for bit in (0..8).rev() {
            r = (r * r) % m;
            if (byte >> bit) & 1 == 1 {
                r = (r * b) % m;
            }
        }
    }
    let full = r.to_be_bytes::<256>();
    full[256 - ml..].to_vec()
}

const GAS_BOUND: u64 = 922337203685477580; // floor((2^64 - 1) / 20)
const SMALL: u64 = 128; // sizes for which the result is computed by the oracle

fn render(r: &PrecompileResult) -> String {
    match r {
        Ok(o) => format!("Ok(gas_used={} bytes={})", o.gas_used, hex_of(&o.bytes)),
        Err(PrecompileErrors::Error(e)) => format!("Err({:?})", e),
        Err(PrecompileErrors::Fatal { msg }) => format!("Err(Fatal({}))", msg),
    }
}
fn ok_str(gas: u64, bytes: &[u8]) -> String {
    format!("Ok(gas_used={} bytes={})", gas, hex_of(bytes))
}

/// ORACLE modexp_outcome; None = outside the domain (gas_limit at or above the saturation bound, or sizes too large for
/// the square-and-multiply oracle)
fn modexp_expected(inp: &[u8], gas_limit: u64, berlin: bool) -> Option<String> {
    if gas_limit >= GAS_BOUND {
        return None;
    }
    let min_gas = if berlin { 200 } else { 0 };
    if min_gas > gas_limit {
        return Some("Err(OutOfGas)".into());
    }
    let bl = be_w(&in_bytes(inp, 0, 32));
    let el = be_w(&in_bytes(inp, 32, 32));
    let ml = be_w(&in_bytes(inp, 64, 32));
    let umax = U256::from(u64::MAX);
    if bl > umax {
        return Some("Err(ModexpBaseOverflow)".into());
    }
    if ml > umax {
        return Some("Err(ModexpModOverflow)".into());
    }
    if bl.is_zero() && ml.is_zero() {
        return Some(ok_str(min_gas, &[]));
    }
    if el > umax {
        return Some("Err(ModexpModOverflow)".into());
    }
    let (bl, el, ml) = (bl.as_limbs()[0], el.as_limbs()[0], ml.as_limbs()[0]);
    let head = be_w(&in_bytes(inp, 96 + bl as u128, el.min(32) as usize));
    let c = if berlin { eip2565_gas(bl, el, ml, head) } else { eip198_gas(bl, el, ml, head) };
    if c > big(gas_limit as u128) {
        return Some("Err(OutOfGas)".into());
    }
    if bl > SMALL || el > SMALL || ml > SMALL {
        return None;
    }
    let base = in_bytes(inp, 96, bl as usize);
    let exp = in_bytes(inp, 96 + bl as u128, el as usize);
    let modulus = in_bytes(inp, 96 + bl as u128 + el as u128, ml as usize);
    Some(ok_str(sat64(c), &modexp_oracle(&base, &exp, &modulus)))
}

fn modexp_cost(inp: &[u8], berlin: bool) -> Option<u64> {
    let bl = be_w(&in_bytes(inp, 0, 32));
    let el = be_w(&in_bytes(inp, 32, 32));
    let ml = be_w(&in_bytes(inp, 64, 32));
    let umax = U256::from(u64::MAX);
    if bl > umax || ml > umax || el > umax {
        return None;
    }
    let (bl, el, ml) = (bl.as_limbs()[0], el.as_limbs()[0], ml.as_limbs()[0]);
    let head = be_w(&in_bytes(inp, 96 + bl as u128, el.min(32) as usize));
    let c = if berlin { eip2565_gas(bl, el, ml, head) } else { eip198_gas(bl, el, ml, head) };
    if c > big(u64::MAX as u128) {
        None
    } else {
        Some(c.as_limbs()[0])
    }
}

// ---------------------------------------------------------------------------------- generators (modexp)

fn word32(v: u64) -> Vec<u8> {
    let mut w = vec![0u8; 32];
    w[24..].copy_from_slice(&v.to_be_bytes());
    w
}
fn build(bl: u64, el: u64, ml: u64, base: &[u8], exp: &[u8], modulus: &[u8]) -> Vec<u8> {
    let mut v = Vec::new();
    v.extend(word32(bl));
    v.extend(word32(el));
    v.extend(word32(ml));
    v.extend_from_slice(base);
    v.extend_from_slice(exp);
    v.extend_from_slice(modulus);
    v
}
fn gas_points(inp: &[u8], berlin: bool) -> Vec<u64> {
    let mut g = vec![0u64, 199, 200, 201, 10_000_000];
    if let Some(c) = modexp_cost(inp, berlin) {
        g.extend([c.saturating_sub(1), c, c.saturating_add(1)]);
    }
    g.retain(|x| *x < GAS_BOUND);
    g.sort();
    g.dedup();
    g
}
/// structural cut points of an input with lengths (bl, el, ml)
fn cuts(bl: u64, el: u64, ml: u64) -> Vec<usize> {
    let (b, e, m) = (bl as usize, el as usize, ml as usize);
    let h = e.min(32);
    let mut c = vec![0, 1, 31, 32, 33, 63, 64, 65, 95, 96];
    c.extend([96 + b / 2, 96 + b]);
    for d in 1..=h {
        c.push(96 + b + d); // inside / at the end of the exponent head
    }
    c.extend([96 + b + e / 2, 96 + b + e, 96 + b + e + m / 2, 96 + b + e + m.saturating_sub(1), 96 + b + e + m]);
    c.retain(|x| *x <= 96 + b + e + m);
    c.sort();
    c.dedup();
    c
}

fn modexp_boundary(berlin: bool) -> Vec<Args> {
    let mut v = Vec::new();
    let mut push = |inp: Vec<u8>| {
        for g in gas_points(&inp, berlin) {
            v.push(vec![Val::Hex(inp.clone()), Val::U64(g)]);
        }
    };
    let tuples: [(u64, u64, u64); 14] = [(0, 32, 64), (1, 1, 1), (0, 0, 0), (0, 1, 0), (1, 0, 1), (0, 0, 1), (2, 33, 3), (32, 32, 32), (1, 64, 2), (64, 1, 64), (65, 2, 65), (3, 40, 5), (8, 8, 9), (1, 32, 33)];
    for (bl, el, ml) in tuples {
        let pats: Vec<(u8, Vec<u8>)> = {
            let e = el as usize;
            let mut one_then_zeros = vec![0u8; e];
            if e > 0 {
                one_then_zeros[0] = 1;
            }
            let mut low_one = vec![0u8; e];
            if e > 0 {
                low_one[e - 1] = 1;
            }
            vec![(3, one_then_zeros), (0xfe, vec![0xff; e]), (2, vec![0; e]), (0x7f, low_one), (5, (0..e).map(|i| (i as u8).wrapping_mul(37).wrapping_add(1)).collect())]
        };
        for (fill, exp) in pats {
            let base: Vec<u8> = (0..bl).map(|i| fill.wrapping_add(i as u8)).collect();
            let mut modulus: Vec<u8> = (0..ml).map(|i| fill.wrapping_mul(3).wrapping_add(i as u8) | 1).collect();
            if fill == 2 && ml > 0 {
                modulus = vec![0; ml as usize]; // modulus 0
            }
            let full = build(bl, el, ml, &base, &exp, &modulus);
            for c in cuts(bl, el, ml) {
                push(full[..c.min(full.len())].to_vec());
            }
            let mut longer = full.clone();
            longer.extend([0xAB; 7]);
            push(longer);
        }
    }
    // the seeded shape: data = 0x01 only
    push(build(0, 32, 64, &[], &[1], &[]));
    // lengths beyond the address space / huge exponents (cost beyond any admissible gas limit, or error paths)
    for (a, b, c) in [(U256::from(1) << 64, U256::from(1), U256::from(1)), (U256::from(1), U256::from(1), U256::from(1) << 64), (U256::from(1), U256::from(1) << 64, U256::from(1)), (U256::ZERO, U256::MAX, U256::ZERO), (U256::from(u64::MAX), U256::from(1), U256::from(1)), (U256::from(1), U256::from(u64::MAX), U256::from(1)), (U256::from(1u64 << 40), U256::from(1u64 << 40), U256::from(1u64 << 40))] {
        let mut inp = Vec::new();
        inp.extend(a.to_be_bytes::<32>());
        inp.extend(b.to_be_bytes::<32>());
        inp.extend(c.to_be_bytes::<32>());
        inp.extend([1, 2, 3]);
        push(inp);
    }
    v
}

fn modexp_random(r: &mut Rng, berlin: bool) -> Args {
    let len = |r: &mut Rng| -> u64 {
        match r.below(10) {
            0 => 0,
            1 => 32,
            2 => 33,
            3 => 64 + r.below(3),
            4 => 100 + r.below(29),
            _ => r.below(40),
        }
    };
    let (bl, el, ml) = (len(r), len(r), len(r));
    let bytes = |r: &mut Rng, n: u64, style: u64| -> Vec<u8> {
        (0..n)
            .map(|i| match style {
                0 => r.next() as u8,
                1 => 0,
                2 => {
                    if i == 0 {
                        1 + r.below(255) as u8
                    } else {
                        0
                    }
                }
                3 => {
                    if i + 1 == n {
                        r.next() as u8
                    } else {
                        0
                    }
                }
                _ => {
                    if i < n / 2 {
                        0
                    } else {
                        r.next() as u8
                    }
                }
            })
            .collect()
    };
    let bs = r.below(2);
    let base = bytes(r, bl, bs);
    let es = r.below(5);
    let exp = bytes(r, el, es);
    let ms = if r.below(12) == 0 { 1 } else { 0 };
    let modulus = bytes(r, ml, ms);
    let mut inp = build(bl, el, ml, &base, &exp, &modulus);
    match r.below(6) {
        0 => {
            let c = cuts(bl, el, ml);
            let k = c[r.below(c.len() as u64) as usize];
            inp.truncate(k);
        }
        1 => {
            let k = r.below(inp.len() as u64 + 1) as usize;
            inp.truncate(k);
        }
        2 => {
            // cut inside the exponent head
            let h = el.min(32);
            if h > 0 {
                inp.truncate(96 + bl as usize + r.below(h) as usize + 1);
            }
        }
        3 => inp.extend((0..r.below(9)).map(|_| r.next() as u8)),
        _ => {}
    }
    if r.below(40) == 0 {
        // a huge length in the header
        let w = r.pick(&[U256::from(1) << 64, U256::MAX, U256::from(u64::MAX), U256::from(1u64 << 50)]);
        let k = r.below(3) as usize;
        inp.resize(inp.len().max(96), 0);
        inp[32 * k..32 * k + 32].copy_from_slice(&w.to_be_bytes::<32>());
        inp.truncate(96 + r.below(8) as usize);
    }
    let g = gas_points(&inp, berlin);
    let gas = match r.below(4) {
        0 => r.below(100_000),
        _ => g[r.below(g.len() as u64) as usize],
    };
    vec![Val::Hex(inp), Val::U64(gas)]
}

// ---------------------------------------------------------------------------------- alt_bn128 framing

fn h32(s: &str) -> Vec<u8> {
    parse_hex(s).expect("hex literal")
}
/// (point bytes 64, what reading it gives): infinity, the generator (1, 2), its double, a coordinate >= the field
/// modulus, a pair that is not on the curve
fn bn_points() -> Vec<(&'static str, Vec<u8>)> {
    let mut g = vec![0u8; 64];
    g[31] = 1;
    g[63] = 2;
    let mut dbl = h32("030644e72e131a029b85045b68181585d97816a916871ca8d3c208c16d87cfd3");
    dbl.extend(h32("15ed738c0e0a7c92e7845f96b2ae9c0a68a6a449e3538fc7ff3ebf7a5a18a2c4"));
    let mut big_x = h32("30644e72e131a029b85045b68181585d97816a916871ca8d3c208c16d87cfd47"); // the field modulus itself
    big_x.extend(vec![0u8; 32]);
    let mut off = vec![0u8; 64];
    off[31] = 1;
    off[63] = 3;
    vec![("inf", vec![0u8; 64]), ("G", g), ("2G", dbl), ("not_a_member", big_x), ("not_on_curve", off)]
}
fn bn_err(kind: &str) -> Option<&'static str> {
    match kind {
        "not_a_member" => Some("Err(Bn128FieldPointNotAMember)"),
        "not_on_curve" => Some("Err(Bn128AffineGFailedToCreate)"),
        _ => None,
    }
}
fn bn_bytes(kind: &str) -> Vec<u8> {
    bn_points().into_iter().find(|(k, _)| *k == kind).map(|(_, b)| b).expect("known point")
}

// ---------------------------------------------------------------------------------- cases

pub fn cases() -> Vec<Case> {
    let mut out = Vec::new();
    let schema = || vec![("input", Kind::Hex), ("gas_limit", Kind::U64)];

    for (name, berlin) in [("byzantium_run", false), ("berlin_run", true)] {
        out.push(mk_case(
            &format!("modexp::{}", name),
            &[name, "run_inner"],
            false,
            schema(),
            move || modexp_boundary(berlin),
            move |r| modexp_random(r, berlin),
            move |a| modexp_expected(a[0].bytes(), a[1].u64(), berlin),
            move |a| {
                let inp = Bytes::from(a[0].bytes().to_vec());
                render(&if berlin { modexp::berlin_run(&inp, a[1].u64()) } else { modexp::byzantium_run(&inp, a[1].u64()) })
            },
        ));
    }

    // ---- the gas functions
    let lens = || -> Vec<u64> { vec![0, 1, 7, 8, 9, 31, 32, 33, 63, 64, 65, 1023, 1024, 1025, 4096, 1 << 20, 1 << 32, (1 << 61) + 31, (1 << 61) + 32, (1 << 61) + 33, 4611686018427387936, u64::MAX - 1, u64::MAX] };
    let heads = || -> Vec<U256> { vec![U256::ZERO, U256::from(1), U256::from(2), U256::from(255), U256::from(256), U256::from(1) << 255, U256::MAX, U256::from(1) << 128] };
    let gas_schema = || vec![("base_len", Kind::U64), ("exp_len", Kind::U64), ("mod_len", Kind::U64), ("exp_highp", Kind::W)];
    let gas_bounds = move |witness_first: bool| {
        move || {
            let mut v: Vec<Args> = Vec::new();
            if witness_first {
                v.push(vec![Val::U64(1), Val::U64(4611686018427387936), Val::U64(1), Val::W(U256::ZERO)]); // recorded witness
            }
            for b in lens() {
                for e in lens() {
                    for m in lens() {
                        for h in heads() {
                            v.push(vec![Val::U64(b), Val::U64(e), Val::U64(m), Val::W(h)]);
                        }
                    }
                }
            }
            v
        }
    };
    let gas_rand = |r: &mut Rng| -> Args {
        let l = |r: &mut Rng| match r.below(4) {
            0 => r.below(2000),
            1 => r.u64b(),
            _ => r.below(100),
        };
        vec![Val::U64(l(r)), Val::U64(l(r)), Val::U64(l(r)), Val::W(if r.bool() { r.w() } else { U256::from(r.below(70000)) })]
    };
    type GasFn = fn(u64, u64, u64, U256) -> U512;
    let gas_fns: [(&str, GasFn, fn(u64, u64, u64, &U256) -> u64); 2] = [("byzantium_gas_calc", eip198_gas, modexp::byzantium_gas_calc), ("berlin_gas_calc", eip2565_gas, modexp::berlin_gas_calc)];
    for (name, orc, real) in gas_fns {
        out.push(mk_case(
            &format!("modexp::{}", name),
            &[name, "mul_complexity", "calculate_multiplication_complexity"],
            false,
            gas_schema(),
            gas_bounds(false),
            gas_rand,
            move |a| {
                // the EIP value (saturated to u64) on the domain where the iteration count fits u64
                if iteration_count(a[1].u64(), a[3].w()) > big(u64::MAX as u128) {
                    return None; // finding domain
                }
                Some(sat64(orc(a[0].u64(), a[1].u64(), a[2].u64(), a[3].w())).to_string())
            },
            move |a| real(a[0].u64(), a[1].u64(), a[2].u64(), &a[3].w()).to_string(),
        ));
        out.push(mk_case(
            &format!("modexp::{}__finding_iter_count_saturates_first", name),
            &[&format!("{}__finding_iter_count_saturates_first", name)],
            true,
            gas_schema(),
            gas_bounds(true),
            gas_rand,
            move |a| Some(sat64(orc(a[0].u64(), a[1].u64(), a[2].u64(), a[3].w())).to_string()),
            move |a| real(a[0].u64(), a[1].u64(), a[2].u64(), &a[3].w()).to_string(),
        ));
    }
    out.push(mk_case(
        "modexp::calculate_iteration_count",
        &["calculate_iteration_count"],
        false,
        vec![("exp_length", Kind::U64), ("exp_highp", Kind::W)],
        move || {
            let mut v = Vec::new();
            for e in lens() {
                for h in bounds_w() {
                    v.push(vec![Val::U64(e), Val::W(h)]);
                }
            }
            v
        },
        |r| vec![Val::U64(if r.bool() { r.below(70) } else { r.u64b() }), Val::W(r.w())],
        |a| Some(sat64(iteration_count(a[0].u64(), a[1].w())).to_string()),
        |a| modexp::calculate_iteration_count(a[0].u64(), &a[1].w()).to_string(),
    ));

    // ---- identity
    out.push(mk_case(
        "identity::identity_run",
        &["identity_run"],
        false,
        schema(),
        || {
            let mut v = Vec::new();
            for n in [0usize, 1, 31, 32, 33, 63, 64, 65, 95, 96, 97, 1024] {
                let inp: Vec<u8> = (0..n).map(|i| (i * 7 + 1) as u8).collect();
                let c = 15 + 3 * ((n as u64 + 31) / 32);
                for g in [0, 14, 15, 16, c - 1, c, c + 1, u64::MAX] {
                    v.push(vec![Val::Hex(inp.clone()), Val::U64(g)]);
                }
            }
            v
        },
        |r| {
            let n = r.below(200);
            let inp: Vec<u8> = (0..n).map(|_| r.next() as u8).collect();
            let c = 15 + 3 * ((n + 31) / 32);
            vec![Val::Hex(inp), Val::U64(if r.bool() { c - 1 + r.below(3) } else { r.u64b() })]
        },
        |a| {
            // Yellow Paper appendix E: 15 + 3 * ceil(|data| / 32)
            let c = 15 + 3 * ((a[0].bytes().len() as u128 + 31) / 32);
            Some(if c > a[1].u64() as u128 { "Err(OutOfGas)".to_string() } else { ok_str(c as u64, a[0].bytes()) })
        },
        |a| render(&identity::identity_run(&Bytes::from(a[0].bytes().to_vec()), a[1].u64())),
    ));
    out.push(mk_case(
        "precompile::calc_linear_cost_u32",
        &["calc_linear_cost_u32"],
        false,
        vec![("len", Kind::U64), ("base", Kind::U64), ("word", Kind::U64)],
        || {
            let mut v = Vec::new();
            for l in bounds_u64() {
                for (b, w) in [(15u64, 3u64), (60, 12), (600, 120), (0, 0), (1, 1), (u64::MAX, 0), (0, u64::MAX)] {
                    v.push(vec![Val::U64(l), Val::U64(b), Val::U64(w)]);
                }
            }
            v
        },
        |r| vec![Val::U64(r.u64b()), Val::U64(r.below(1000)), Val::U64(r.below(200))],
        |a| {
            let v = ((a[0].u64() as u128 + 31) / 32) * a[2].u64() as u128 + a[1].u64() as u128;
            if v > u64::MAX as u128 {
                return None; // precondition: the value fits
            }
            Some(v.to_string())
        },
        |a| revm_precompile::calc_linear_cost_u32(a[0].u64() as usize, a[1].u64(), a[2].u64()).to_string(),
    ));

    // ---- padding helpers: data cut / zero-extended to exactly n bytes
    let right_pad_spec = |s: &[u8], n: usize| -> Vec<u8> { (0..n).map(|i| if i < s.len() { s[i] } else { 0 }).collect() };
    let left_pad_spec = |s: &[u8], n: usize| -> Vec<u8> {
        (0..n)
            .map(|i| {
                if s.len() >= n {
                    s[i]
                } else if i < n - s.len() {
                    0
                } else {
                    s[i - (n - s.len())]
                }
            })
            .collect()
    };
    let from_offset = |s: &[u8], off: usize| -> Vec<u8> { if off <= s.len() { s[off..].to_vec() } else { vec![] } };
    let pad_schema = || vec![("data", Kind::Hex), ("offset", Kind::U64), ("len", Kind::U64)];
    let pad_bounds = || {
        let mut v = Vec::new();
        for n in [0usize, 1, 31, 32, 33, 63, 64, 65, 100] {
            let d: Vec<u8> = (0..n).map(|i| (i + 1) as u8).collect();
            for off in [0u64, 1, 31, 32, 33, 64, 99, 100, 101, u64::MAX] {
                for len in [0u64, 1, 31, 32, 33, 64, 128] {
                    v.push(vec![Val::Hex(d.clone()), Val::U64(off), Val::U64(len)]);
                }
            }
        }
        v
    };
    let pad_rand = |r: &mut Rng| -> Args {
        let n = r.below(140);
        let d: Vec<u8> = (0..n).map(|_| 1 + r.below(255) as u8).collect();
        vec![Val::Hex(d), Val::U64(if r.below(8) == 0 { r.u64b() } else { r.below(150) }), Val::U64(r.pick(&[0u64, 1, 31, 32, 33, 64, 128, 96]))]
    };
    // const-generic LEN: instantiated at 32, 64, 96, 128 (the sizes the crate uses); `len` selects the instance
    fn pick_len(l: u64) -> usize {
        match l {
            64 => 64,
            96 => 96,
            128 => 128,
            _ => 32,
        }
    }
    out.push(mk_case(
        "utilities::right_pad",
        &["right_pad"],
        false,
        pad_schema(),
        pad_bounds,
        pad_rand,
        move |a| Some(format!("{} borrowed={}", hex_of(&right_pad_spec(a[0].bytes(), pick_len(a[2].u64()))), a[0].bytes().len() >= pick_len(a[2].u64()))),
        |a| {
            let d = a[0].bytes();
            let (v, b) = match pick_len(a[2].u64()) {
                64 => {
                    let c = utilities::right_pad::<64>(d);
                    (c.to_vec(), matches!(c, std::borrow::Cow::Borrowed(_)))
                }
                96 => {
                    let c = utilities::right_pad::<96>(d);
                    (c.to_vec(), matches!(c, std::borrow::Cow::Borrowed(_)))
                }
                128 => {
                    let c = utilities::right_pad::<128>(d);
                    (c.to_vec(), matches!(c, std::borrow::Cow::Borrowed(_)))
                }
                _ => {
                    let c = utilities::right_pad::<32>(d);
                    (c.to_vec(), matches!(c, std::borrow::Cow::Borrowed(_)))
                }
            };
            format!("{} borrowed={}", hex_of(&v), b)
        },
    ));
    out.push(mk_case(
        "utilities::left_pad",
        &["left_pad"],
        false,
        pad_schema(),
        pad_bounds,
        pad_rand,
        move |a| Some(format!("{} borrowed={}", hex_of(&left_pad_spec(a[0].bytes(), pick_len(a[2].u64()))), a[0].bytes().len() >= pick_len(a[2].u64()))),
        |a| {
            let d = a[0].bytes();
            let (v, b) = match pick_len(a[2].u64()) {
                64 => {
                    let c = utilities::left_pad::<64>(d);
                    (c.to_vec(), matches!(c, std::borrow::Cow::Borrowed(_)))
                }
                96 => {
                    let c = utilities::left_pad::<96>(d);
                    (c.to_vec(), matches!(c, std::borrow::Cow::Borrowed(_)))
                }
                128 => {
                    let c = utilities::left_pad::<128>(d);
                    (c.to_vec(), matches!(c, std::borrow::Cow::Borrowed(_)))
                }
                _ => {
                    let c = utilities::left_pad::<32>(d);
                    (c.to_vec(), matches!(c, std::borrow::Cow::Borrowed(_)))
                }
            };
            format!("{} borrowed={}", hex_of(&v), b)
        },
    ));
    out.push(mk_case(
        "utilities::right_pad_with_offset",
        &["right_pad_with_offset"],
        false,
        pad_schema(),
        pad_bounds,
        pad_rand,
        move |a| Some(hex_of(&right_pad_spec(&from_offset(a[0].bytes(), a[1].u64() as usize), pick_len(a[2].u64())))),
        |a| {
            let (d, off) = (a[0].bytes(), a[1].u64() as usize);
            hex_of(&match pick_len(a[2].u64()) {
                64 => utilities::right_pad_with_offset::<64>(d, off).to_vec(),
                96 => utilities::right_pad_with_offset::<96>(d, off).to_vec(),
                128 => utilities::right_pad_with_offset::<128>(d, off).to_vec(),
                _ => utilities::right_pad_with_offset::<32>(d, off).to_vec(),
            })
        },
    ));
    out.push(mk_case(
        "utilities::right_pad_vec",
        &["right_pad_vec"],
        false,
        pad_schema(),
        pad_bounds,
        pad_rand,
        move |a| Some(format!("{} borrowed={}", hex_of(&right_pad_spec(a[0].bytes(), a[2].u64() as usize)), a[0].bytes().len() as u64 >= a[2].u64())),
        |a| {
            let c = utilities::right_pad_vec(a[0].bytes(), a[2].u64() as usize);
            format!("{} borrowed={}", hex_of(&c), matches!(c, std::borrow::Cow::Borrowed(_)))
        },
    ));
    out.push(mk_case(
        "utilities::left_pad_vec",
        &["left_pad_vec"],
        false,
        pad_schema(),
        pad_bounds,
        pad_rand,
        move |a| Some(format!("{} borrowed={}", hex_of(&left_pad_spec(a[0].bytes(), a[2].u64() as usize)), a[0].bytes().len() as u64 >= a[2].u64())),
        |a| {
            let c = utilities::left_pad_vec(a[0].bytes(), a[2].u64() as usize);
            format!("{} borrowed={}", hex_of(&c), matches!(c, std::borrow::Cow::Borrowed(_)))
        },
    ));
    out.push(mk_case(
        "utilities::right_pad_with_offset_vec",
        &["right_pad_with_offset_vec"],
        false,
        pad_schema(),
        pad_bounds,
        pad_rand,
        move |a| Some(hex_of(&right_pad_spec(&from_offset(a[0].bytes(), a[1].u64() as usize), a[2].u64() as usize))),
        |a| hex_of(&utilities::right_pad_with_offset_vec(a[0].bytes(), a[1].u64() as usize, a[2].u64() as usize)),
    ));
    out.push(mk_case(
        "utilities::bool_to_bytes32",
        &["bool_to_bytes32", "bool_to_b256"],
        false,
        vec![("value", Kind::B)],
        || vec![vec![Val::B(false)], vec![Val::B(true)]],
        |r| vec![Val::B(r.bool())],
        |a| {
            let mut w = vec![0u8; 32];
            if a[0].b() {
                w[31] = 1;
            }
            Some(hex_of(&w))
        },
        |a| hex_of(&utilities::bool_to_bytes32(a[0].b())),
    ));

    // ---- alt_bn128 ECADD / ECMUL framing (EIP-196): gas, virtual right-padding / cut to 128 resp. 96 bytes, errors
    let bn_schema = || vec![("p1", Kind::Str), ("p2_or_scalar", Kind::Str), ("input_len", Kind::U64), ("gas_cost", Kind::U64), ("gas_limit", Kind::U64)];
    let kinds = || -> Vec<&'static str> { bn_points().into_iter().map(|(k, _)| k).collect() };
    let gases = || -> Vec<(u64, u64)> { vec![(150, 149), (150, 150), (150, 151), (500, 0), (500, 499), (500, 500), (6000, 5999), (6000, 6000), (40000, u64::MAX), (0, 0), (u64::MAX, u64::MAX - 1)] };
    // ECADD
    let add_table = |a: &str, b: &str| -> Option<&'static str> {
        match (a, b) {
            ("inf", "inf") => Some("inf"),
            ("G", "inf") | ("inf", "G") => Some("G"),
            ("G", "G") => Some("2G"),
            ("2G", "inf") | ("inf", "2G") => Some("2G"),
            _ => None,
        }
    };
    out.push(mk_case(
        "bn128::run_add",
        &["run_add", "read_point", "read_fq", "new_g1_point"],
        false,
        bn_schema(),
        move || {
            let mut v = Vec::new();
            for a in kinds() {
                for b in kinds() {
                    for l in [0u64, 1, 32, 63, 64, 65, 96, 127, 128, 129, 200] {
                        for (c, g) in gases() {
                            v.push(vec![Val::Str(a.into()), Val::Str(b.into()), Val::U64(l), Val::U64(c), Val::U64(g)]);
                        }
                    }
                }
            }
            v
        },
        move |r| {
            let k = kinds();
            let c = r.pick(&[150u64, 500, 0, 7]);
            vec![Val::Str(r.pick(&k).into()), Val::Str(r.pick(&k).into()), Val::U64(r.below(260)), Val::U64(c), Val::U64(if r.bool() { c.wrapping_add(r.below(3)).wrapping_sub(1) } else { r.u64b() })]
        },
        move |a| {
            let (p1, p2, len, cost, limit) = (a[0].str(), a[1].str(), a[2].u64() as usize, a[3].u64(), a[4].u64());
            if cost > limit {
                return Some("Err(OutOfGas)".into());
            }
            // the input is p1 || p2 || junk, cut to `len` bytes: only cuts that remove zero bytes (or junk) are in the domain
            let mut full = bn_bytes(p1);
            full.extend(bn_bytes(p2));
            let padded: Vec<u8> = (0..128).map(|i| if i < len.min(128) { full[i] } else { 0 }).collect();
            if padded != full {
                return None; // the cut changed the points: not a table entry
            }
            if let Some(e) = bn_err(p1) {
                return Some(e.into());
            }
            if let Some(e) = bn_err(p2) {
                return Some(e.into());
            }
            add_table(p1, p2).map(|k| ok_str(cost, &bn_bytes(k)))
        },
        |a| {
            let mut full = bn_bytes(a[0].str());
            full.extend(bn_bytes(a[1].str()));
            full.extend([0xEE; 160]);
            full.truncate(a[2].u64() as usize);
            render(&bn128::run_add(&full, a[3].u64(), a[4].u64()))
        },
    ));
    // ECMUL: scalar 0, 1, 2
    out.push(mk_case(
        "bn128::run_mul",
        &["run_mul"],
        false,
        bn_schema(),
        move || {
            let mut v = Vec::new();
            for a in kinds() {
                for s in ["0", "1", "2"] {
                    for l in [0u64, 1, 63, 64, 65, 95, 96, 97, 128, 200] {
                        for (c, g) in gases() {
                            v.push(vec![Val::Str(a.into()), Val::Str(s.into()), Val::U64(l), Val::U64(c), Val::U64(g)]);
                        }
                    }
                }
            }
            v
        },
        move |r| {
            let k = kinds();
            let c = r.pick(&[6000u64, 40000, 0, 7]);
            vec![Val::Str(r.pick(&k).into()), Val::Str(r.pick(&["0", "1", "2"]).into()), Val::U64(r.below(200)), Val::U64(c), Val::U64(if r.bool() { c.wrapping_add(r.below(3)).wrapping_sub(1) } else { r.u64b() })]
        },
        move |a| {
            let (p, s, len, cost, limit) = (a[0].str(), a[1].str(), a[2].u64() as usize, a[3].u64(), a[4].u64());
            if cost > limit {
                return Some("Err(OutOfGas)".into());
            }
            let k: u8 = s.parse().ok()?;
            let mut full = bn_bytes(p);
            full.extend(word32(k as u64));
            let padded: Vec<u8> = (0..96).map(|i| if i < len.min(96) { full[i] } else { 0 }).collect();
            if padded != full {
                return None;
            }
            if let Some(e) = bn_err(p) {
                return Some(e.into());
            }
            let r = match (p, k) {
                ("inf", _) | (_, 0) => "inf",
                ("G", 1) => "G",
                ("G", 2) => "2G",
                ("2G", 1) => "2G",
                _ => return None,
            };
            Some(ok_str(cost, &bn_bytes(r)))
        },
        |a| {
            let mut full = bn_bytes(a[0].str());
            full.extend(word32(a[1].str().parse::<u64>().unwrap_or(0)));
            full.extend([0xEE; 160]);
            full.truncate(a[2].u64() as usize);
            render(&bn128::run_mul(&full, a[3].u64(), a[4].u64()))
        },
    ));

    // ---- PrecompileSpecId::from_spec_id: the generation a fork selects, by the EIPs' activation forks
    out.push(mk_case(
        "PrecompileSpecId::from_spec_id",
        &["from_spec_id"],
        false,
        vec![("spec_id", Kind::S)],
        || all_specs().into_iter().map(|s| vec![Val::S(s)]).collect(),
        |r| vec![Val::S(r.spec())],
        |a| {
            let s = a[0].s();
            Some(
                (if s == SpecId::LATEST {
                    "LATEST"
                } else if ge(s, SpecId::PRAGUE) {
                    "PRAGUE" // EIP-2537
                } else if ge(s, SpecId::CANCUN) {
                    "CANCUN" // EIP-4844 point evaluation
                } else if ge(s, SpecId::BERLIN) {
                    "BERLIN" // EIP-2565
                } else if ge(s, SpecId::ISTANBUL) {
                    "ISTANBUL" // EIP-152, EIP-1108
                } else if ge(s, SpecId::BYZANTIUM) {
                    "BYZANTIUM" // EIP-196/197/198
                } else {
                    "HOMESTEAD"
                })
                .to_string(),
            )
        },
        |a| format!("{:?}", PrecompileSpecId::from_spec_id(a[0].s())),
    ));
    out
}
