import json, os
from vf.propdefs import COMMON_TRUST

_inst = json.load(open(os.path.join(os.path.dirname(os.path.dirname(os.path.abspath(__file__))), "kani", "kinterp", "c12_instances.json")))
_B = ("one CONCRETE (stack length, operand) instance per harness, symbolic cell contents; lengths {0,1,2,15,16,17,33,1008,1022,1023,1024}, "
      "dup k in 1..=16, exchange (n,m) in 7 pairs, swap n in {1,2,16}, push_slice byte lengths {0,1,7,8,9,31,32,33,40,63,64,65,70}; "
      "observed cells: the touched cells, their neighbours, the top and the bottom cell")

PROP = dict(
    level="proof",
    engine="verus+kani",
    units=["stack"],
    kani=[dict(crate="kinterp", harness="c12::stack_new_capacity", bounded=False, timeout=120, mem_gb=6)]
         + [dict(crate="kinterp", harness="c12::" + h, bounded=True, bound=_B, timeout=240, mem_gb=10) for h in _inst["quick"]]
         + [dict(crate="kinterp", harness="c12::" + h, bounded=True, bound=_B, timeout=240, mem_gb=10, thorough_only=True) for h in _inst["thorough"]],
    technique="Verus contracts on the extracted safe-Rust Stack methods (unbounded); Kani bounded instances for the three raw-pointer methods",
    level_text="PROOF (Verus, unbounded in length and contents) for every safe-Rust method of the real Stack "
               "(new, len, is_empty, data, pop, pop_unsafe, top_unsafe, pop_top_unsafe, pop2..5_unsafe, pop2_top_unsafe, push, push_b256, peek, set): "
               "each is verified against the LIFO list model over the WHOLE word sequence, errors leave the sequence unchanged, "
               "the limit is 1024 (StackOverflow exactly at 1024), and the *_unsafe methods carry length preconditions that every caller must prove. "
               "BOUNDED (Kani, reported separately, never counted as proved): dup / exchange / swap / push_slice use raw pointers, outside Verus; "
               "they are checked on the real code for concrete (length, operand) instances at both ends of the buffer with symbolic contents.",
    level_note="Trusted: Vec capacity behaviour (axiom_no_realloc: pop/set/push-below-capacity never reallocate; vstd does not model capacity), "
               "assumed contracts of Option::unwrap_unchecked / slice::get_unchecked_mut (with safety preconditions proved at each call), "
               "U256::from(B256) uninterpreted. push_slice oracle: zero-EXTENSION of a short last chunk (PUSHn semantics and the suite's push_slices test), "
               "not left-alignment -- see DESIGN.md C12. dup/exchange/push_slice between the tested lengths: argument by uniformity, not proved.",
    trusted=COMMON_TRUST + ["Stack::new() has capacity exactly 1024: Kani harness kinterp::stack_new_capacity (vstd's Vec::with_capacity contract is silent on capacity)"],
    assumptions=[
        "stack_wf (len <= 1024, capacity == 1024) is a type invariant established by Stack::new and preserved by every method under contract",
        "raw-pointer methods: bounded instances only (see bounded_obligations)",
        "property text 'right-padded' read as zero-extension of the last short chunk (big-endian value of the remaining bytes)",
    ],
)
