import importlib.util, os
_s = importlib.util.spec_from_file_location("verif_prop_C15_shared", os.path.join(os.path.dirname(os.path.abspath(__file__)), "C15.py"))
_m = importlib.util.module_from_spec(_s); _s.loader.exec_module(_m)

PROP = dict(
    level="other",
    engine="verus",
    units=["acctstatus"],
    explanation="Of the three mechanisms of the property only 'status composition' (AccountStatus::transition) is within the "
                "verifier's subset; BundleState::extend / extend_state / take_n_reverts / prepend_state are HashMap + iterator "
                "plumbing and are NOT verified (a Kani harness on the real bundle_state.rs exists in kani/kstates/src/c18.rs but does not terminate "
                "in 15 min: not registered), so the property is not claimed as proved. What IS proved (Verus, complete over the "
                "finite domain, verbatim code): " + _m.STATUS_TEXT + " STATUS-LEVEL C18 THEOREM (lemma_c18_status_composition, an "
                "induction over the step CONTRACTS, not over the code): let the first bundle leave an account in a modified "
                "status a; let the run that produced the second bundle load the account with the status l0 a database holding the "
                "first half answers (compat) and apply ANY finite sequence of legal events, ending in a modified status o; then "
                "every status t meeting the contract of transition(a, o) has the same observable meaning (exists, "
                "was_destroyed, storage_known, modified) as the status of the monolithic run that applies the same events "
                "starting from a. Observably equal modified statuses are equal or both in {Destroyed, DestroyedAgain} "
                "(lemma_obs_classes) and behave alike under every later event (lemma_obs_congruence). The code's representative "
                "differs from the monolithic one exactly for 'destroyed in both halves': transition(D|DC|DA, Destroyed) = "
                "Destroyed where one run gives DestroyedAgain (same observable meaning).",
    level_text="status composition only (see explanation); extend / take_n_reverts / prepend_state are not verified",
    level_note="Off the bundle domain (a side that is an unmodified Loaded* status, which no bundle holds) transition() deviates from "
               "the composition law on 10 of the 39 pairs: (LNE,L) (LNE,LE) (LNE,C) (IMC,LNE) (C,LNE) (C,L) (C,LE) (D,LNE) (DC,LNE) "
               "(DA,LNE); these pairs are unreachable (lemma_step_modified: every emitted transition status is modified) and are "
               "not findings. Hypotheses of the theorem: flag consistency (an account in status Changed has a nonce or code) and "
               "compat (an existing account is loaded as Loaded, or as LoadedEmptyEIP161 only if it can be empty; an absent one "
               "as LoadedNotExisting). " + _m.PLUMBING,
    technique="Verus contracts on the verbatim status algebra + spec-level simulation lemma over the step contracts",
    trusted=_m.COMMON_TRUST + ["Rust semantics of #[derive(PartialEq)] on the field-less enum AccountStatus (two axioms in units/prelude/acctstatus_lemmas.rs)"],
    assumptions=["BundleState::extend / extend_state (storage migration into wiped reverts), take_n_reverts, take_all_reverts, prepend_state are NOT verified",
                 "NOT DECIDABLE here (seeded change C18-1: extend() skipping the drain of `this` account's storage into the wiped revert of `other` when the "
                 "account was destroyed in both halves): bundle_state.rs + transition_state.rs DO compile under Kani when included by #[path] in "
                 "kani/kstates (no ICE), and kani/kstates/src/c18.rs holds the harness `c18::extend_destroyed_in_both_halves` (one concrete address, one "
                 "concrete slot, oracle from the property text), but it is NOT registered: any std HashMap that holds a key is unaffordable in CBMC on "
                 "this machine -- with every value concrete the symbolic execution of a 3-insert harness on the same maps was still inside the first "
                 "map operation of the function under test after 15 min (hashbrown's SIMD group match is not constant-folded, so each probe is "
                 "explored 6 x 6 x 32-byte memcmp deep and every reserve() walks the rehash code); measurements in mutations/C16/README.md",
                 "flag consistency: an account in status Changed has a nonce or code",
                 "the status-level theorem is an induction over the contracts of on_* / transition, which are discharged on the code; it says nothing about infos and storage"],
    rule="one evaluation per Verus obligation (each a distinct extracted function or lemma)",
)
