import importlib.util, os
_s = importlib.util.spec_from_file_location("verif_prop_C15_shared", os.path.join(os.path.dirname(os.path.abspath(__file__)), "C15.py"))
_m = importlib.util.module_from_spec(_s); _s.loader.exec_module(_m)

PROP = dict(
    level="other",
    engine="verus",
    units=["acctstatus"],
    explanation="Of the three mechanisms of the property only 'status composition' (AccountStatus::transition) is within the "
                "verifier's subset; BundleState::extend / extend_state / take_n_reverts / prepend_state are HashMap + iterator "
                "plumbing and are NOT verified, so the property is not claimed as proved. What IS proved (Verus, complete over the "
                "finite domain, verbatim code): " + _m.STATUS_TEXT + " STATUS-LEVEL C18 THEOREM (lemma_c18_status_composition, an "
                "induction over the step CONTRACTS, not over the code): let the first bundle leave an account in a modified "
                "status a; let the run that produced the second bundle load the account with the status l0 a database holding the "
                "first half answers (compat) and apply ANY finite sequence of legal events, ending in a modified status o; then "
                "every status t meeting the contract of transition(a, o) has the same observable meaning (exists, "
                "was_destroyed, storage_known, modified) as the status of the monolithic run that applies the same events "
                "starting from a. Observably equal modified statuses are equal or both in {Destroyed, DestroyedAgain} "
                "(lemma_obs_classes) and behave alike under every later event (lemma_obs_congruence). The code's representative "
                "differs from the monolithic one exactly for 'destroyed in both halves': transition(D|DC|DA, Destroyed) = "
                "Destroyed where one run gives DestroyedAgain (same observable meaning).",
    level_text="status composition only (see explanation); extend / take_n_reverts / prepend_state are not verified",
    level_note="Off the bundle domain (a side that is an unmodified Loaded* status, which no bundle holds) transition() deviates from "
               "the composition law on 10 of the 39 pairs: (LNE,L) (LNE,LE) (LNE,C) (IMC,LNE) (C,LNE) (C,L) (C,LE) (D,LNE) (DC,LNE) "
               "(DA,LNE); these pairs are unreachable (lemma_step_modified: every emitted transition status is modified) and are "
               "not findings. Hypotheses of the theorem: flag consistency (an account in status Changed has a nonce or code) and "
               "compat (an existing account is loaded as Loaded, or as LoadedEmptyEIP161 only if it can be empty; an absent one "
               "as LoadedNotExisting). " + _m.PLUMBING,
    technique="Verus contracts on the verbatim status algebra + spec-level simulation lemma over the step contracts",
    trusted=_m.COMMON_TRUST + ["Rust semantics of #[derive(PartialEq)] on the field-less enum AccountStatus (two axioms in units/prelude/acctstatus_lemmas.rs)"],
    assumptions=["BundleState::extend / extend_state (storage migration into wiped reverts), take_n_reverts, take_all_reverts, prepend_state are NOT verified",
                 "flag consistency: an account in status Changed has a nonce or code",
                 "the status-level theorem is an induction over the contracts of on_* / transition, which are discharged on the code; it says nothing about infos and storage"],
    rule="one evaluation per Verus obligation (each a distinct extracted function or lemma)",
)
