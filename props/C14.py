from vf.propdefs import COMMON_TRUST

PROP = dict(
    level="proof",
    units=["gascalc"],
    level_text="Every closed-form function of crates/interpreter/src/gas/calc.rs (sstore_refund, create2_cost, log2floor, "
               "exp_cost, verylowcopy_cost, extcodecopy_cost, log_cost, keccak256_cost, cost_per_word, initcode_cost, "
               "sload_cost, sstore_cost, istanbul_sstore_cost, frontier_sstore_cost, selfdestruct_cost, call_cost, "
               "warm_cold_cost, warm_cold_cost_with_delegation, memory_gas_for_len, memory_gas, calc_tx_floor_cost), the "
               "tri! macro, all 45 constants of gas/constants.rs, num_words, the six SStoreResult::is_* helpers and "
               "SpecId::enabled/is_enabled_in are extracted verbatim on each run and verified by Verus against the REAL "
               "SpecId / U256 / SStoreResult / SelfDestructResult / AccountLoad / StateLoad / Eip7702CodeLoad of the "
               "compiled crates. Each contract is a whole-value postcondition r == oracle(args) for ALL arguments and ALL "
               "SpecIds, where the oracle (contracts/gascalc.vc) is one spec function per EIP with literal numbers "
               "(Yellow Paper, EIP-150/160/161/1014/1884/2200/2929/3529/3860/7623/7702); Option-returning functions are "
               "proved to return Some(v) iff the true integer v fits in u64. Unbounded: all u64 lengths, all 2^768 "
               "(original, present, new) triples, all flags.",
    level_note="NOT under contract here: get_tokens_in_calldata and calculate_initial_tx_gas (Verus rejects "
               "Filter::count / Map::sum iterator adapters; tried on 2026-09-21) -- the intrinsic-gas formula of C14 is "
               "therefore NOT proved by this unit (Kani bounded harness planned); only their callees calc_tx_floor_cost and "
               "initcode_cost are. Stated deviations from the EIP value, each an explicit clause of the contract (not a "
               "weakening): (1) KNOWN FINDING num_words(len) is one word short of ceil(len/32) for len > 2^64-32, which "
               "propagates to keccak256/copy/create2/initcode/extcodecopy costs on that range only; (2) memory_gas is the "
               "Yellow Paper C_mem exactly for num_words < 2^32 and strictly BELOW it (but >= 2^55) beyond, because the "
               "square saturates before the division; (3) call_cost adds the EIP-7702 delegation surcharge for Berlin <= "
               "fork < Prague if a delegation is reported (not producible by the journal before Prague); (4) "
               "calc_tx_floor_cost uses unchecked u64 arithmetic: precondition 21000 + 10*tokens <= u64::MAX. "
               "SpecId::CONSTANTINOPLE is given Petersburg rules (no EIP-1283), as the repository documents. Trusted: "
               "Verus/z3, the ruint contracts of units/prelude/ruint.rs (from, is_zero, ==, checked_add, checked_mul, "
               "as_limbs, u64::try_from over uval), vstd's u64 checked_/saturating_ arithmetic and leading_zeros specs; "
               "that the compiled SpecId::is_enabled_in / SStoreResult::is_* are the source text proved here (same crate, "
               "same run: the rlibs are built from the tree the text is extracted from).",
    trusted=COMMON_TRUST + [
        "units/prelude/ruint.rs: assumed contracts of ruint 1.12.3 (Uint::from, is_zero, PartialEq::eq, checked_add, "
        "checked_mul, as_limbs + little-endian limb axiom, u64::try_from, uval < 2^BITS)",
        "vstd specifications of u64::checked_add/checked_mul/saturating_add/saturating_mul/leading_zeros, Option/Result::ok",
        "assume_specification on the compiled SpecId::enabled/is_enabled_in and SStoreResult::is_* carry the clause text "
        "that the same unit proves on their extracted source (public inherent methods of external types cannot be shadowed)",
    ],
    assumptions=[
        "calc_tx_floor_cost: 21000 + 10 * tokens_in_calldata <= u64::MAX (call-site fact: tokens <= 17 * calldata length)",
        "oracle reading: SpecId::CONSTANTINOPLE priced as Petersburg (EIP-1283 never live on mainnet)",
        "machine arithmetic is NOT treated as mathematical: every + - * on u64/i64 in the extracted bodies is an overflow obligation",
        "get_tokens_in_calldata / calculate_initial_tx_gas are outside this unit (iterator adapters): intrinsic gas not proved",
    ],
)
