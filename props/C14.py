from vf.propdefs import COMMON_TRUST

# Bounded stand-in (Kani, kani/kinterp/src/c14.rs) for the two iterator-adapter functions Verus cannot take.
_KB = ("calldata of CONCRETE length 0..=4 with symbolic contents; access list of concrete shape in "
       "{[], [0], [2], [1,2], [2,2]} storage keys per item (<= 2 items x <= 2 keys); SpecId symbolic over "
       "{FRONTIER, HOMESTEAD, ISTANBUL, BERLIN, SHANGHAI, PRAGUE}; is_create symbolic; authorization_list_num "
       "symbolic u64 <= (2^64-1-2^32)/25000 (overflow of the u64 sum excluded by assumption); oracle = EIP-2/2028/"
       "2930/3860/7702 intrinsic gas + EIP-7623 floor with literal numbers, computed in u128")
_KT = "calldata of CONCRETE length {n} (symbolic contents), is_istanbul symbolic; oracle zeros + nonzeros * (4 | 17)"
_SHAPES = ["none", "0", "2", "1_2", "2_2"]
# quick tier: every length and every shape once (a transversal of the 5 x 5 grid); the other 20 cells: thorough
_QUICK = {(0, "1_2"), (1, "2_2"), (2, "none"), (3, "0"), (4, "2")}
_KANI = [dict(crate="kinterp", harness=f"c14::c14_tokens_len{n}", bounded=True, bound=_KT.format(n=n), timeout=120, mem_gb=10)
         for n in range(5)]
_KANI += [dict(crate="kinterp", harness=f"c14::c14_initial_len{n}_al_{s}", bounded=True, bound=_KB, timeout=300, mem_gb=10,
               **({} if (n, s) in _QUICK else {"thorough_only": True}))
          for n in range(5) for s in _SHAPES]

PROP = dict(
    level="proof",
    engine="verus+kani",
    units=["gascalc"],
    kani=_KANI,
    level_text="Every closed-form function of crates/interpreter/src/gas/calc.rs (sstore_refund, create2_cost, log2floor, "
               "exp_cost, verylowcopy_cost, extcodecopy_cost, log_cost, keccak256_cost, cost_per_word, initcode_cost, "
               "sload_cost, sstore_cost, istanbul_sstore_cost, frontier_sstore_cost, selfdestruct_cost, call_cost, "
               "warm_cold_cost, warm_cold_cost_with_delegation, memory_gas_for_len, memory_gas, calc_tx_floor_cost), the "
               "tri! macro, all 45 constants of gas/constants.rs, num_words, the six SStoreResult::is_* helpers and "
               "SpecId::enabled/is_enabled_in are extracted verbatim on each run and verified by Verus against the REAL "
               "SpecId / U256 / SStoreResult / SelfDestructResult / AccountLoad / StateLoad / Eip7702CodeLoad of the "
               "compiled crates. Each contract is a whole-value postcondition r == oracle(args) for ALL arguments and ALL "
               "SpecIds, where the oracle (contracts/gascalc.vc) is one spec function per EIP with literal numbers "
               "(Yellow Paper, EIP-150/160/161/1014/1884/2200/2929/3529/3860/7623/7702); Option-returning functions are "
               "proved to return Some(v) iff the true integer v fits in u64. Unbounded: all u64 lengths, all 2^768 "
               "(original, present, new) triples, all flags.",
    level_note="NOT proved: get_tokens_in_calldata and calculate_initial_tx_gas (Verus rejects Filter::count / Map::sum "
               "iterator adapters; tried on 2026-09-21). The intrinsic-gas formula is only checked by BOUNDED Kani harnesses "
               "on the real crate (kani/kinterp/src/c14.rs: calldata length <= 4, access list <= 2 x 2, six fork brackets, "
               "both is_create, symbolic authorization count) -- reported under bounded_obligations, never counted as "
               "proved; their callees calc_tx_floor_cost and initcode_cost are proved by Verus. "
               "FINDINGS: the property-level contracts 'equals the specification for ALL arguments' are kept as finding "
               "obligations (gascalc: *__finding_*, expected to fail, listed in known_findings.txt, never counted as "
               "discharged). Stated deviations from the EIP value, each an explicit clause of the verified contract (not a "
               "weakening): (1) KNOWN FINDING num_words(len) is one word short of ceil(len/32) for len > 2^64-32, which "
               "propagates to keccak256/copy/create2/initcode/extcodecopy costs on that range only; (2) memory_gas is the "
               "Yellow Paper C_mem exactly for num_words < 2^32 and strictly BELOW it (but >= 2^55) beyond, because the "
               "square saturates before the division; (3) call_cost adds the EIP-7702 delegation surcharge for Berlin <= "
               "fork < Prague if a delegation is reported (not producible by the journal before Prague); (4) "
               "calc_tx_floor_cost uses unchecked u64 arithmetic: precondition 21000 + 10*tokens <= u64::MAX. "
               "SpecId::CONSTANTINOPLE is given Petersburg rules (no EIP-1283), as the repository documents. Trusted: "
               "Verus/z3, the ruint contracts of units/prelude/ruint.rs (from, is_zero, ==, checked_add, checked_mul, "
               "as_limbs, u64::try_from over uval), vstd's u64 checked_/saturating_ arithmetic and leading_zeros specs; "
               "that the compiled SpecId::is_enabled_in / SStoreResult::is_* are the source text proved here (same crate, "
               "same run: the rlibs are built from the tree the text is extracted from).",
    technique="Verus contracts on the extracted closed-form gas functions (unbounded); Kani bounded harnesses for the two iterator-adapter functions",
    trusted=COMMON_TRUST + [
        "units/prelude/ruint.rs: assumed contracts of ruint 1.12.3 (Uint::from, is_zero, PartialEq::eq, checked_add, "
        "checked_mul, as_limbs + little-endian limb axiom, u64::try_from, uval < 2^BITS)",
        "vstd specifications of u64::checked_add/checked_mul/saturating_add/saturating_mul/leading_zeros, Option/Result::ok",
        "assume_specification on the compiled SpecId::enabled/is_enabled_in and SStoreResult::is_* carry the clause text "
        "that the same unit proves on their extracted source (public inherent methods of external types cannot be shadowed)",
    ],
    assumptions=[
        "FINDING num_words_top_range / keccak_top_range: num_words(len) == ceil(len/32) is verified exactly for len <= 2^64-32 "
        "(u64::MAX-31); for larger len the code returns 2^59-1 (one word short) and keccak256/verylowcopy/extcodecopy/create2/"
        "initcode costs are exact w.r.t. the EIPs on len <= 2^64-32 only (above: the EIP formula on one word less, stated in the contract)",
        "FINDING memory_gas_over_2p32_words: memory_gas(w) == 3w + floor(w^2/512) is verified exactly for w < 2^32 words "
        "(memory < 128 GiB); for w >= 2^32 the code returns sat(3w) + 2^55 - 1 saturated, which is proved to be >= 2^55 but strictly "
        "BELOW the true cost (under-charge; the true cost stops fitting u64 at w ~ 9.7e10 but the code never saturates until 3w does)",
        "FINDING call_cost_delegation_before_prague: call_cost equals the EIP value for every input with "
        "is_delegate_account_cold == None or SpecId >= PRAGUE or SpecId < BERLIN; for BERLIN <= SpecId < PRAGUE with Some(c) it "
        "adds the EIP-7702 access cost of the delegate (2600/100) although EIP-7702 is not active (not producible by the journal)",
        "Kani stand-in for get_tokens_in_calldata / calculate_initial_tx_gas is BOUNDED (lengths, shapes, six SpecIds); SpecIds between "
        "the six representatives and longer inputs are covered only by the uniformity of the code, not by a proof",
        "calc_tx_floor_cost: 21000 + 10 * tokens_in_calldata <= u64::MAX (call-site fact: tokens <= 17 * calldata length)",
        "oracle reading: SpecId::CONSTANTINOPLE priced as Petersburg (EIP-1283 never live on mainnet)",
        "machine arithmetic is NOT treated as mathematical: every + - * on u64/i64 in the extracted bodies is an overflow obligation",
        "get_tokens_in_calldata / calculate_initial_tx_gas are outside the Verus unit (iterator adapters): intrinsic gas not proved, bounded only",
    ],
)
