import importlib.util, os
_s = importlib.util.spec_from_file_location("verif_prop_C15_shared", os.path.join(os.path.dirname(os.path.abspath(__file__)), "C15.py"))
_m = importlib.util.module_from_spec(_s); _s.loader.exec_module(_m)

PROP = dict(
    level="other",
    engine="verus+kani",
    units=["acctstatus", "acctstate"],
    kani=_m.K17,
    explanation="BOUNDED STAND-IN (Kani on the real files, kani/kstates/src/c17.rs; reported under bounded_obligations, never counted "
                "as proved): for each of the 30 (bundle status, transition status, wipe flag) triples reachable by legal events, "
                "update_and_create_revert(t) followed by revert(the returned revert) restores status and info, the revert records "
                "the info before the group (RevertTo / DeleteIt iff absent / DoNothing iff unchanged) and previous_status, and "
                "wipe_storage is true where the group destroys an account whose storage is in the database and false where it does "
                "not destroy or the account was destroyed already -- on EMPTY storage maps: the slot list of the revert (values "
                "before the group, RevertToSlot::{Some, Destroyed}, the wiped / not-wiped reading rule) and the restoration of "
                "present storage values are checked by NOTHING: " + _m.KSTATES_COST + " A slot-level version on CONCRETE slot values "
                "(kani/kstates/src/c17.rs `check_slots`, 12 instances `c17::slots_*`, e.g. a Changed account holding K1 that is destroyed "
                "and re-created writing K1 again -- the shape of seeded change C17-1 in AccountRevert::new_selfdestructed_again) is written "
                "but NOT registered: with every map value concrete the symbolic execution was still inside the first map operation of "
                "update_and_create_revert after 15 min. C17-1 and the mutation 'revert restores the present instead of the recorded "
                "value' are therefore NOT detected by ./check C17. The functions that create and apply reverts (BundleAccount::update_and_create_revert, BundleAccount::revert, "
                "AccountRevert::new_selfdestructed*, Reverts::to_plain_state_reverts) are closures over iterator adapters and are "
                "outside the verifier's subset, so apply-then-revert == identity is NOT proved. What IS proved (Verus, unbounded, "
                "verbatim code): the status machine over which the revert construction branches -- all destroy / recreate / "
                "destroy-again sequences: " + _m.STATUS_TEXT + " Reading rules: RevertToSlot::to_previous_value (a recorded "
                "value reads as itself, `Destroyed` reads as zero); BundleAccount::storage_slot (a held slot reads as its present "
                "value, a slot not held reads as ZERO iff the status says storage is known -- wiped or created in memory -- and "
                "is left to the database otherwise); BundleAccount::{account_info, was_destroyed, is_info_changed (AccountInfo "
                "equality ignores the optional code)}; AccountRevert::is_empty == (DoNothing && no slot && !wipe_storage).",
    level_text="status machine + reading rules (Verus); revert creation / application: bounded Kani stand-in for the info / status / wipe-flag part on empty storage maps, the slot part is not verified",
    level_note=_m.LEFT_OUT + " " + _m.PLUMBING,
    technique="Verus contracts on verbatim-extracted functions; finite status algebra proved completely; bounded Kani harnesses on the real bundle_account.rs / reverts.rs",
    trusted=_m.ACCT_TRUST + _m.KSTATES_TRUST,
    assumptions=["BundleAccount::update_and_create_revert / revert and AccountRevert::new_selfdestructed* are NOT verified (bounded stand-ins on empty storage maps only)",
                 "domain of the bounded stand-in: the transition starts where the bundle account stands (previous_status / previous_info == the bundle account's), info present iff the status says the account exists; a CREATE never lands on an account in status Changed (collision rule, C21)",
                 "BundleState::revert / revert_latest, Reverts::to_plain_state_reverts: trusted plumbing"],
    rule="one evaluation per Verus obligation (each a distinct extracted function or lemma)",
)
