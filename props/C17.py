import importlib.util, os
_s = importlib.util.spec_from_file_location("verif_prop_C15_shared", os.path.join(os.path.dirname(os.path.abspath(__file__)), "C15.py"))
_m = importlib.util.module_from_spec(_s); _s.loader.exec_module(_m)

PROP = dict(
    level="other",
    engine="verus",
    units=["acctstatus", "acctstate"],
    explanation="The functions that create and apply reverts (BundleAccount::update_and_create_revert, BundleAccount::revert, "
                "AccountRevert::new_selfdestructed*, Reverts::to_plain_state_reverts) are closures over iterator adapters and are "
                "outside the verifier's subset, so apply-then-revert == identity is NOT proved. What IS proved (Verus, unbounded, "
                "verbatim code): the status machine over which the revert construction branches -- all destroy / recreate / "
                "destroy-again sequences: " + _m.STATUS_TEXT + " Reading rules: RevertToSlot::to_previous_value (a recorded "
                "value reads as itself, `Destroyed` reads as zero); BundleAccount::storage_slot (a held slot reads as its present "
                "value, a slot not held reads as ZERO iff the status says storage is known -- wiped or created in memory -- and "
                "is left to the database otherwise); BundleAccount::{account_info, was_destroyed, is_info_changed (AccountInfo "
                "equality ignores the optional code)}; AccountRevert::is_empty == (DoNothing && no slot && !wipe_storage).",
    level_text="status machine + reading rules only (see explanation); revert creation / application is not verified",
    level_note=_m.LEFT_OUT + " " + _m.PLUMBING,
    technique="Verus contracts on verbatim-extracted functions; finite status algebra proved completely",
    trusted=_m.ACCT_TRUST,
    assumptions=["BundleAccount::update_and_create_revert / revert and AccountRevert::new_selfdestructed* are NOT verified",
                 "BundleState::revert / revert_latest, Reverts::to_plain_state_reverts: trusted plumbing"],
    rule="one evaluation per Verus obligation (each a distinct extracted function or lemma)",
)
