from vf.propdefs import COMMON_TRUST

PROP = dict(
    level="proof",
    units=["gas"],
    level_text="Every method of the real gas meter (crates/interpreter/src/gas.rs, extracted verbatim on each run) is "
               "verified by Verus against a contract written from the property: wf (remaining<=limit) is preserved, "
               "record_cost succeeds iff cost<=remaining and otherwise leaves the meter bit-identical, spent+remaining==limit, "
               "refund cap spent/5 (London) or spent/2. A sequence lemma (charge_all + model_run) lifts it to every finite "
               "sequence of charges. Unbounded in all u64/i64 arguments.",
    level_note="Trusted: Verus/z3; u64::overflowing_sub's assumed contract; erase_cost/record_refund preconditions "
               "(returned gas was charged before; refund counter does not overflow i64) are call-site facts checked in the "
               "units that call them, not here; set_final_refund: exact value for a non-negative counter; for any counter the result is in 0..=cap.",
    trusted=COMMON_TRUST,
    assumptions=[
        "spent_sub_refunded: refund counter >= 0 at transaction end (protocol invariant, not proved here); set_final_refund has NO sign precondition: its result is proved to lie in 0..=cap for every counter",
        "erase_cost: remaining + returned <= limit (proved at call sites in units that call it; trusted where the call site is outside a unit)",
        "record_refund: no i64 overflow of the refund counter",
        "machine arithmetic is NOT treated as mathematical: every + - on u64/i64 is an overflow obligation",
    ],
)

