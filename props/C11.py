from vf.propdefs import COMMON_TRUST

PROP = dict(
    level="proof",
    units=["memory", "meminstr", "callret"],
    technique="Verus contracts on the extracted SharedMemory methods (local struct, unbounded), on resize_memory / the memory "
              "instructions / insert_call_outcome on the REAL Interpreter through the contract ledger, plus lemmas over the contracts",
    level_text="PROOF (Verus, unbounded: all buffer contents, all lengths, all nesting depths, all operand values, all forks). "
               "Unit memory: the SharedMemory struct and new, with_capacity, new_context, free_context, len, is_empty, "
               "current_expansion_cost, resize, slice, slice_range, slice_mut, get_byte, get_word, get_u256, set_byte, set_word, "
               "set_u256, set, set_data, copy, context_memory, context_memory_mut are extracted verbatim from "
               "interpreter/shared_memory.rs on each run (num_words: proved in unit gascalc, used through the ledger) and verified "
               "against the view (mem_parents = parent frames' segments outermost first, mem_ctx = current frame's bytes) with the "
               "invariant mem_wf (checkpoints non-decreasing, all <= buffer.len(), last_checkpoint == checkpoints.last() or 0): "
               "new_context pushes the caller's bytes as innermost parent and the child starts EMPTY; free_context gives back the "
               "innermost parent segment byte for byte and drops it from the parents (the unsafe set_len(old_checkpoint) is shown "
               "to shrink; no checkpoint => nothing changes); resize(n >= len) appends n - len ZERO bytes; every setter / copy / "
               "set_data states the WHOLE resulting image of the current frame, len unchanged, parents unchanged; every getter "
               "returns exactly the bytes / the big-endian word; all bounds are preconditions proved at every caller, and the "
               "unchecked std operations (set_len, get_unchecked(_mut)) carry their safety preconditions, proved at each use. "
               "Sequences: mem_apply / mem_apply_all run the REAL methods for any finite sequence of push / pop / resize / set_byte / "
               "set_u256 / copy and are proved equal to the list model mem_run; lemma_child_frame_invisible + mem_child_roundtrip: "
               "new_context; ANY balanced sequence of child operations nested to ANY depth; free_context is the identity on the "
               "parent's bytes, size and all outer frames. lemma_set_window: `set` leaves len and every byte outside the window "
               "unchanged. Unit meminstr (real Interpreter / SharedMemory / Gas / Stack): resize_memory charges exactly "
               "C_mem(ceil(new/32)) - C_mem(ceil(len/32)), C_mem(a) = 3a + floor(a^2/512) (Yellow Paper, literal numbers) iff "
               "affordable and then len' == 32*ceil(new/32) with the old bytes kept and the new bytes zero, else returns false and "
               "gas and memory are unchanged (whole-object equality); MLOAD / MSTORE / MSTORE8 / MSIZE / MCOPY with the verbatim "
               "gas! pop! pop_top! push! as_usize_or_fail! resize_memory! check! gas_or_fail! macros: gas 3 (MSIZE 2, MCOPY 3 + 3 per "
               "word) + expansion, every failure code (OutOfGas, StackUnderflow, StackOverflow, InvalidOperandOOG for operands >= "
               "2^64, MemoryOOG, NotActivated before Cancun) with what was charged / popped and memory untouched, exact stack effect "
               "(whole-sequence view), exact memory image (big-endian 32-byte word at the offset; value mod 256; memmove on the grown "
               "memory), MSIZE == len (a multiple of 32 whenever the frame's memory is, and every instruction keeps it so), memory "
               "only grows, the PARENTS' segments are never touched, every other Interpreter field unchanged. Unit callret: "
               "Interpreter::insert_call_outcome (+ CallOutcome::instruction_result / gas / memory_start) verbatim: parent memory "
               "length unchanged, outer frames unchanged, every byte outside [out_offset, out_offset + min(out_len, |ret|)) unchanged, "
               "exact window image on success / revert, memory object untouched otherwise.",
    level_note="FINDING (kept as finding obligations, never counted as discharged, listed in known_findings.txt with a witness run on the "
               "real crate): SharedMemory::resize computes `last_checkpoint + new_size` unchecked; resize_memory(new_size = 2^64-32) is "
               "affordable with >= 1765411053929234428 gas because memory_gas saturates from 2^32 words on (C14 finding), and in a child "
               "frame the sum wraps: release truncates the shared buffer below the child's checkpoint and returns true (then len() wraps, "
               "accesses skip expansion and read/write out of bounds: observed SIGSEGV), debug panics. Reachable only with gas_limit >= "
               "~1.77e18 (inside the u64 domain, on no real chain). The verified contracts therefore hold under the FRAME INVARIANT "
               "mem_gas_inv: C_mem(ceil(len/32)) + gas_remaining < 2^55 (true at frame start iff gas_limit < 2^55 with empty memory; "
               "proved preserved by resize_memory and by every memory instruction), and SharedMemory::resize has the precondition "
               "new_size <= isize::MAX. Stated deviations (explicit clauses, not weakenings): MSTORE / MSTORE8 / MCOPY pop their "
               "operands BEFORE the offset / expansion checks, so on InvalidOperandOOG / MemoryOOG (and MCOPY OutOfGas) the operands "
               "are already popped (unobservable: an exceptional halt discards the frame's stack); MCOPY with len == 0 charges 3 and "
               "touches nothing whatever dst/src are; free_context without a checkpoint is a no-op; `set` with an empty value is a "
               "no-op whatever the offset is. Text changes to extracted code beyond the extractor's standard ones (recorded as subst): "
               "slice_range's parameter PATTERN `range @ Range { start, end }: Range<usize>` -> parameter `__arg0` + first statement "
               "`let range @ Range { start, end } = __arg0;` (rustc's own desugaring; Verus accepts only identifier parameters; body "
               "otherwise verbatim); `crate::gas::` -> `revm_interpreter::gas::` and `gas::memory_gas` -> `crate::gas::memory_gas` "
               "(paths); check!: `<SPEC as $crate::primitives::Spec>::SPEC_ID` -> `spec_id_exec::<SPEC>()`, `if const {` -> `if {`; "
               "as_usize_or_fail_ret!: `) | (` -> `) || (`; `U256::ZERO` -> `U256_ZERO`. The `#[cfg(feature = \"memory_limit\")]` field, "
               "struct-literal entry and macro statement are kept VERBATIM and stripped by rustc exactly as in the default-feature "
               "build (the unit crate defines no feature); new_with_memory_limit / limit_reached (cfg'd out by default) are not extracted. "
               "NOT verified: CallOutcome::memory_length (its body is the PROVIDED trait method ExactSizeIterator::len of Range<usize>, "
               "which Verus cannot specify; assumed: end - start, 0 if empty); EMPTY_SHARED_MEMORY const, Debug / Default impls.",
    trusted=COMMON_TRUST + [
        "unit memory, std (assumed contracts WITH safety preconditions, proved at each call): Vec::set_len (requires new_len <= len; "
        "ensures take(new_len)), <[T]>::get_unchecked / get_unchecked_mut for Range<usize> (requires start <= end <= len; result is "
        "the subrange / writes go back to exactly that subrange), <[T]>::fill, core::cmp::min / max for usize",
        "vstd's own specifications of Vec::with_capacity / push / pop / last / len / resize, Option::cloned / unwrap_or_default / unwrap, "
        "<[T]>::get(range) / get_mut(range) / copy_from_slice / copy_within / is_empty / len / index, Result::unwrap, try_into/into blanket impls, "
        "usize::saturating_add, unreachable!/debug_assert! (must be proved unreachable / true)",
        "std fact (axiom_vec_u8_len / axiom_slice_u8_len): a Vec<u8> / &[u8] never holds more than isize::MAX bytes; allocation failure "
        "(capacity overflow, OOM) is divergence and outside the partial-correctness model, as in vstd's Vec::resize contract",
        "units/prelude/b256.rs (alloy-primitives FixedBytes<N>, seen through its N bytes fb_bytes): TryFrom<&[u8]> (Ok iff len == N, same "
        "bytes), Index<RangeFull> (`&value[..]` = the N bytes), From<B256> for U256 = big-endian integer of the 32 bytes",
        "units/prelude/ruint.rs: Uint::to_be_bytes::<32> (byte i = floor(v / 256^(31-i)) mod 256), Uint::byte, as_limbs + little-endian "
        "limb axiom, Uint::from::<usize|i32>, uval < 2^256",
        "units/prelude/bytesview.rs (unit callret): alloy Bytes / bytes::Bytes Deref chain to the byte string bytes_view, Bytes::len",
        "units/prelude/spec.rs: spec_id_exec::<SPEC>() returns <SPEC as Spec>::SPEC_ID",
        "CallOutcome::memory_length == end - start (0 if start > end): assumed, body not verifiable (provided trait method Range::len)",
        "ledger: Gas::record_cost / erase_cost / record_refund / remaining / refunded (unit gas), Stack::len / top_unsafe / pop2_unsafe / "
        "pop3_unsafe / push (unit stack), num_words / memory_gas / memory_gas_for_len / verylowcopy_cost / SpecId::is_enabled_in (unit "
        "gascalc), the SharedMemory methods (unit memory), resize_memory (unit meminstr), CallOutcome getters (unit callret): the compiled "
        "functions the callers link against are the source text proved in those units (same tree, same run)",
        "WIRING (not under any function contract): run_the_loop / the frame handlers call SharedMemory::new_context when a frame is created "
        "and free_context when it returns, in matched pairs, and call insert_call_outcome on the PARENT's interpreter after free_context; "
        "get_memory_input_and_out_ranges (CALL family) expands the parent's memory over the output window before the call; the dispatch of "
        "opcodes 0x51/0x52/0x53/0x59/0x5e to these functions (C05)",
    ],
    assumptions=[
        "64-bit target (`global size_of usize == 8`), as the baseline build",
        "frame invariant mem_gas_inv(shared_memory, gas): C_mem(ceil(len/32)) + gas_remaining < 2^55 on entry of resize_memory and of "
        "every memory instruction (holds for every frame whose gas limit is < 2^55 = 3.6e16; preserved by everything under contract); "
        "outside it: finding resize_wraps_usize_with_huge_gas",
        "mem_wf(shared_memory), gas_wf(gas) (and stack_wf for MSIZE / insert_call_outcome) on entry: representation invariants, established "
        "by new / Gas::new / Stack::new and preserved by every method under contract",
        "insert_call_outcome: call_outcome.result.result != FatalExternalError (the code panics), the returned gas was forwarded from this "
        "frame before (erase_cost precondition), the refund sum fits i64, and a non-empty window lies inside the parent's memory",
        "default cargo features (no memory_limit)",
    ],
)
