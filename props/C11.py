from vf.propdefs import COMMON_TRUST

PROP = dict(
    level="proof",
    units=["memory", "meminstr"],
    level_text="(draft)",
    level_note="(draft)",
    trusted=COMMON_TRUST + [],
    assumptions=[],
)
