from vf.propdefs import COMMON_TRUST

# Kani stand-in for unit dbwrap's CacheDB::has_storage(_ref) obligations (same harness dicts as props/C20.py `_KANI_CACHEDB`; crate
# kani/kcachedb includes the REAL in_memory_db.rs by #[path]).  BOUNDED: never counted as proved; it decides has_storage_ref rewritten with
# iterator adapters / closures, which the Verus unit can only report as UNDECIDED (independent seeds C20-1, C21-1).
_KCB = ("one concrete queried address; the cache holds at most one account (the queried one or one other) with at most two slots under "
        "concrete keys (address / keys fixed so that CBMC constant-folds the std HashMap probes under a fixed SipHash seed); symbolic: "
        "AccountState (all four), every bit of the slot values / cached balance, nonce, code hash, the inner database's answers (Ok / Err); "
        "AccountInfo.code == None; unwind 34")
# (-Z unstable-options: vf/kani.py's concrete-playback command does not pass it, and --cbmc-args needs it)
_KCB_ARGS = ["-Z", "unstable-options", "--no-assertion-reach-checks", "--cbmc-args", "--max-field-sensitivity-array-size", "2048"]
_KANI_CACHEDB = [dict(crate="kcachedb", harness=f"cachedb::{h}", bounded=True, bound=_KCB, timeout=600, mem_gb=8, args=_KCB_ARGS)
                 for h in ("has_storage_not_cached", "has_storage_cached_0", "has_storage_cached_1")]
_KANI_CACHEDB += [dict(crate="kcachedb", harness=f"cachedb::{h}", bounded=True, bound=_KCB, timeout=600, mem_gb=8, args=_KCB_ARGS,
                       thorough_only=True) for h in ("has_storage_cached_2", "has_storage_other_cached_1")]

PROP = dict(
    level='proof',
    engine='verus+kani',
    units=['journal'],
    aux_units=['dbwrap', 'frames'],  # obligations this property also rests on (their finding twins belong to other properties)
    kani=_KANI_CACHEDB,
    technique='Verus contract on create_account_checkpoint (journal-level part of C21)',
    level_text="UNIT journal: crates/revm/src/journaled_state.rs on the REAL JournaledState / Account / AccountInfo / EvmStorageSlot / JournalEntry (declared transparent; HashMap/Vec through vstd views).  PROOF: create_account_checkpoint returns Err(CreateCollision) IF AND ONLY IF the target's code_hash != KECCAK_EMPTY or nonce != 0 or the address_has_storage argument is true, and then NOTHING changed (jv_eq(final, old): the checkpoint taken at entry is reverted; depth, journal length, logs, state as before); otherwise Ok / Err(OverflowPayment) as described in C08.",
    level_note='Relative to the ASSUMED driver loop of checkpoint_revert (see C06). NOT here: that make_create_frame / make_eofcreate_frame pass db.has_storage(address) (unit frames) and the database layers forwarding has_storage (Kani, C20).',
    trusted=COMMON_TRUST + ["units/prelude/state.rs: bitflags model of AccountStatus (|=, -=, contains, the six constants: bit positions copied from the bitflags! block), alloy Address/B256 structural equality, hashing/key-model axioms for Address, U256, (Address,U256) and alloy's DefaultHashBuilder (vstd HashMap contracts are conditional on them), assumed HashMap::get_mut, Option::copied, mem::replace, mem::take + Default of Vec/HashMap is empty, Uint::default == 0, ruint `+=`/`-=` wrapping, KECCAK_EMPTY / PRECOMPILE3 / Bytecode::default() as uninterpreted constants", 'units/prelude/ruint.rs (uval, checked_add/sub, is_zero, ==)', "textual substitutions recorded in evidence: map_err(EVMError::Database) -> map_err(|e| EVMError::Database(e)) (Verus: 'using a datatype constructor as a function value' unsupported; eta-expansion), U256::ZERO -> U256_ZERO, AccountStatus::X -> ACCOUNT_STATUS_X wrappers", 'vf/vunit.py was extended (backwards compatible): //@implspec with requires on &mut receivers/parameters, //@external_body flag', 'assume_specifications on the COMPILED public methods (load_account, sload, checkpoint, checkpoint_revert, new, Account::*, EvmStorageSlot::*, StateLoad::new, SpecId::enabled/is_enabled_in from gascalc) carry the clause text proved in this run on their extracted source; Account::state_clear_aware_is_empty is assumed with NO postcondition (its value is irrelevant here)', 'Database: external trait, methods return arbitrary values (no contract)'],
    assumptions=["the driver loop of checkpoint_revert is ASSUMED (revert_post; see the not-under-contract list); journal_revert itself is proved", 'view: balances/nonces/transient values as naturals, transient storage total (absent = 0), status = set of flag bits; an account whose code_hash is KECCAK_EMPTY has empty code whatever its `code` cache field holds (None / Some(empty)): not an observable', "'restored' = sv_ext: everything equal EXCEPT data merely loaded from the database since (accounts/slots new in the state must be cold -- or tx-level pre-warmed addresses -- untouched and unmodified; a code cache may have been filled) and EXCEPT the touched mark of precompile 0x03 from Spurious Dragon on, which journal_revert deliberately keeps (consensus quirk, EIP-161 / Yellow Paper app. K)", "journal_inv (the whole journal can be undone from the current state without wrap/underflow/missing account) is required by checkpoint_revert / create_account_checkpoint and preserved by every operation under contract (except transfer's OverflowPayment outcome and selfdestruct with a wrapping credit)"],
)
