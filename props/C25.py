from vf.propdefs import COMMON_TRUST

PROP = dict(
    level="proof",
    units=[],
    # every unit below is claimed primarily by another property; C25 re-uses their discharged obligations
    aux_units=["stackinstr", "jump", "arith", "bitwise", "meminstr", "bytecode"],  # bytecode: to_analysed pads 33 zero bytes (the padding invariant)
    technique="Verus contracts on extracted instruction functions: safety preconditions of every unsafe stack/memory/pointer call proved at each call site; gas-progress clause per instruction",
    level_text="PARTIAL (proof for the instructions under contract, nothing claimed for the rest): for 61 legacy instruction functions "
               "(arithmetic.rs 11, bitwise.rs 14, memory.rs 5 + resize_memory, control.rs jump/jumpi/jumpdest/pc, stack.rs pop/push0/push<N>/dup<N>/swap<N>) "
               "extracted verbatim and verified on the real Interpreter: (1) memory safety of the instruction body - every `pop*_unsafe`/`top_unsafe` call has its "
               "length precondition proved from the preceding macro check, every SharedMemory slice access has its bounds proved from the preceding resize_memory!, "
               "`push<N>` reads N bytes past the instruction pointer only inside the 33-byte padding (precondition N <= ptr_span(ip), the analysed-bytecode invariant), "
               "JUMP's new pointer is bytecode.as_ptr()+target with target < len; (2) a defined outcome - every path ends with instruction_result set or the stated "
               "stack/memory effect, no panic (all arithmetic overflow obligations discharged); (3) progress - whenever instruction_result stays Continue the gas meter "
               "strictly decreases (every covered instruction charges >= 1), which bounds the number of Continue steps of the covered instructions by the gas limit.",
    level_note="NOT covered: the stepping loop Interpreter::run / step (raw instruction-pointer dereference and dispatch through the 256-entry function table: "
               "Kani on it blows up - one SAR through Interpreter::new was 43 M clauses), the host/system/contract/data/EOF instructions other than those listed under C10/C11, "
               "dupn/swapn/exchange/rjump*/callf/retf/jumpf (raw pointer reads), EOF execution, and the analysed-bytecode invariant itself (table_ok / 33-byte padding: bounded Kani check under C04). "
               "Stack::dup/exchange/push_slice are bounded Kani instances (C12).",
    trusted=COMMON_TRUST + ["analysed-bytecode invariant (padding, jump table) as instruction precondition: established by to_analysed, bounded check under C04",
                            "Interpreter::step increments the instruction pointer before dispatch (wiring)"],
    assumptions=["termination is claimed only as a gas-progress bound over the covered instructions; Interpreter::run's loop itself is not under contract",
                 "entry invariants gas_wf, stack_wf, mem_wf of the interpreter are type invariants established by Interpreter::new (not under contract)"],
)
