from vf.propdefs import COMMON_TRUST

# Bounded Kani harnesses (kani/kprecompile/src/lib.rs) on the REAL revm-precompile crate (built without its C back ends:
# default-features = false) for the framing of the `run` functions whose text Verus rejects.  Never counted as proved.
_KB_BLAKE_LEN = ("blake2::run on every input of length 0..=256 except 213 (symbolic length and contents, symbolic gas limit): "
                 "Err(Blake2WrongLength)")
_KB_BLAKE_ERR = ("blake2::run on every 213-byte input (symbolic contents and gas limit) that is out of gas or has a final-block flag "
                 "other than 0/1: rounds = big-endian u32 of bytes 0..4, gas = rounds * 1, OutOfGas iff rounds > gas_limit (checked "
                 "first), else Blake2WrongFinalIndicatorFlag. The SUCCESS path (h/m/t parsing, compression, output) is excluded")
_KB_PAIR = ("bn128 pairing through the real table entries bn128::pair::ISTANBUL / BYZANTIUM, CONCRETE input length {n} (symbolic "
            "contents, symbolic gas limit, both entries): cost = 45000 + 34000*floor(len/192) resp. 100000 + 80000*floor(len/192); "
            "OutOfGas iff cost > gas_limit; else Bn128PairLength iff len % 192 != 0; the empty input returns gas_used == cost and the "
            "32-byte word 1")
_KB_PAIR_OOG = ("bn128 pairing entries ISTANBUL / BYZANTIUM, CONCRETE input length {n} (one / two pairs, symbolic contents) with the "
                "CONCRETE gas limit cost - 1: OutOfGas. With enough gas the curve code runs: not covered")
_KB_ECREC = ("secp256k1::ec_recover_run with `ecrecover` STUBBED (the stub checks its arguments), input length 0..=160 symbolic, "
             "contents and gas symbolic: gas_limit < 3000 => OutOfGas and no recovery call; else gas_used == 3000; the recovery is "
             "called (exactly once, with msg = bytes 0..32, recid = v - 27, sig = bytes 64..128 of the zero-padded input) iff bytes "
             "32..63 are zero and byte 63 is 27 or 28; otherwise the output is empty. The success output is excluded")

_KANI = [
    dict(crate="kprecompile", harness="c23::blake2_wrong_length", bounded=True, bound=_KB_BLAKE_LEN, timeout=300, mem_gb=10),
    dict(crate="kprecompile", harness="c23::blake2_len213_errors", bounded=True, bound=_KB_BLAKE_ERR, timeout=300, mem_gb=10),
]
_QUICK_PAIR = set()   # quick tier: the two blake2 harnesses only (each ./check recompiles the crate under Kani)
_KANI += [dict(crate="kprecompile", harness=f"c23::bn128_pair_len{n}", bounded=True, bound=_KB_PAIR.format(n=n), timeout=300, mem_gb=10,
               **({} if n in _QUICK_PAIR else {"thorough_only": True})) for n in (0, 1, 191, 193, 385)]
_KANI += [dict(crate="kprecompile", harness=f"c23::bn128_pair_len{n}_oog", bounded=True, bound=_KB_PAIR_OOG.format(n=n), timeout=300,
               mem_gb=10, thorough_only=True) for n in (192, 384)]
_KANI += [dict(crate="kprecompile", harness="c23::ecrecover_framing", bounded=True, bound=_KB_ECREC, timeout=1500, mem_gb=12,
               thorough_only=True)]

PROP = dict(
    level="proof",
    engine="verus+kani",
    units=["precompile"],
    kani=_KANI,
    level_text="PARTIAL: only the repository-owned gas arithmetic and input/output framing of the precompiles is proved; every "
               "cryptographic output is ASSUMED (see assumptions). Proved by Verus on the verbatim text, extracted on each run, against "
               "the REAL Bytes / PrecompileOutput / PrecompileErrors / U256 / SpecId / PrecompileSpecId / substrate-bn types of the "
               "compiled crates, for ALL inputs and gas limits, whole-value postconditions with the EIPs' literal numbers: "
               "(1) lib.rs calc_linear_cost_u32 == ceil(len/32)*word + base (on the domain where that fits u64); "
               "PrecompileSpecId::from_spec_id == the fork-bracket table, and that table agrees for EVERY SpecId and EVERY address "
               "with the per-address activation forks of the EIPs (1-4 Frontier, 5-8 Byzantium EIP-196/197/198, 9 Istanbul EIP-152, "
               "0x0a Cancun EIP-4844, 0x0b-0x11 Prague EIP-2537; bn128 repriced from Istanbul EIP-1108, modexp from Berlin EIP-2565). "
               "(2) identity_run: cost 15 + 3*ceil(len/32); OutOfGas iff cost > gas_limit, else gas_used == cost and output == input. "
               "(3) modexp: calculate_iteration_count == min(max(ADJUSTED_EXPONENT_LENGTH, 1), 2^64-1) (EIP-198 definition over the "
               "first 32 exponent bytes, bit length as a recursive spec function); byzantium_gas_calc / berlin_gas_calc incl. their "
               "nested mul_complexity / calculate_multiplication_complexity == the saturated EIP-198 (x^2 | x^2/4+96x-3072 | "
               "x^2/16+480x-199680, /20) resp. EIP-2565 (ceil(max/8)^2, /3, floor 200) value on the whole domain where the iteration "
               "count fits u64, and an exact closed form elsewhere (finding below); run_inner, for every gas function passed in: the "
               "three 32-byte big-endian lengths of the zero-extended input, ModexpBaseOverflow / ModexpModOverflow for lengths that "
               "do not fit usize, empty output for B = M = 0, the first min(E,32) exponent bytes as the head, OutOfGas iff the gas "
               "function's result exceeds the limit, output == left_pad(modexp(base, exp, mod), M) over the zero-extended fields; "
               "byzantium_run / berlin_run (closures given their gas function's contract): for gas_limit < floor((2^64-1)/20) the "
               "outcome is exactly modexp_outcome(input, gas_limit, EIP-198 | EIP-2565 formula): OutOfGas iff the mathematical EIP "
               "cost > gas_limit, else gas_used == that cost. "
               "(4) utilities: right_pad, right_pad_vec, right_pad_with_offset(_vec), left_pad, left_pad_vec: exact byte images "
               "(incl. which Cow variant), bool_to_bytes32 over an assumed bool_to_b256. "
               "(5) bn128 read_point / run_add / run_mul: OutOfGas iff gas_cost > gas_limit, input right-padded/cut to 128 / 96 bytes, "
               "field / curve errors propagated, gas_used == gas_cost, output == x||y or 64 zero bytes -- over assumed curve operations. "
               "(6) every gas / length / address constant of identity, bn128 (150/6000/34000/45000, 500/40000/80000/100000, 128/96/192), "
               "blake2 (213, 1), kzg (50000, 0x01) and bls12_381 (0x0b-0x11, 375/600/12000/22500/32600/37700/5500/23800, input sizes, "
               "multiplier 1000) equals the EIP literal; bls12_381 msm_required_gas == k*discount(min(k,len))*cost/1000.",
    level_note="NOT UNDER CONTRACT (Verus rejects the verbatim text; nothing is rewritten): "
               "hash.rs sha256_run / ripemd160_run (sha2/ripemd return GenericArray<u8, typenum::U32>; typenum::Unsigned has the "
               "PRIVATE sealed supertrait typenum::sealed::Sealed, so the type cannot be declared to Verus) -- their word costs 60+12 / "
               "600+120 are therefore NOT checked by anything here; "
               "blake2.rs run (u32::from_be_bytes / u64::from_le_bytes / to_le_bytes return `[u8; size_of::<Self>()]`, an anonymous "
               "constant no assume_specification can name; StepBy / Enumerate / Zip iterator adapters) and algo::compress / g; "
               "secp256k1.rs ec_recover_run (`.iter().all(|&b| ..)`: closure parameter pattern + iterator adapter) and both ecrecover "
               "back ends; bn128.rs run_pair, read_fq, new_g1_point (`.map_err(|_| ..)`: closure parameter pattern; get_unchecked); "
               "kzg_point_evaluation.rs run / kzg_to_versioned_hash / verify_kzg_proof / as_bytes48 / as_bytes32 (not attempted beyond "
               "the constants: needs Env/CfgEnv/EnvKzgSettings, c-kzg FFI types, Sha256 GenericArray again, unsafe pointer casts); "
               "utilities.rs bool_to_b256 (inner `const TRUE: &B256 = &b256!(..)`: the implicit 'static is lost under the verus! macro, "
               "E0106); lib.rs u64_to_address (u64::to_be_bytes, as above), Precompiles::{homestead, byzantium, istanbul, berlin, cancun, "
               "prague, latest, new, extend} (function-local `static INSTANCE: OnceBox<..>`: 'internal item statements' unsupported; "
               "impl IntoIterator + map/collect); the seven bls12_381 precompiles (blst FFI, raw pointers) and secp256r1; the "
               "PrecompileWithAddress constants (closures coerced to fn pointers) -- i.e. that e.g. bn128::add::ISTANBUL passes "
               "ISTANBUL_ADD_GAS_COST to run_add is NOT verified (for the pairing entries it is exercised by the bounded Kani harnesses). "
               "BOUNDED Kani stand-ins on the real crate (never counted as proved): blake2::run length rule (lengths 0..=256) and its "
               "OutOfGas / final-flag error paths on all 213-byte inputs (quick tier); THOROUGH tier only: bn128 pairing gas + length "
               "rule through the real table entries for concrete lengths 0, 1, 191, 193, 385 (symbolic gas) and 192, 384 (gas = "
               "cost - 1), and ec_recover_run framing with ecrecover stubbed (about 5 min of CBMC). Success paths that build an output `Bytes` or "
               "reach curve / hash code are outside every harness. "
               "FINDINGS (known_findings.txt, finding obligations, never counted): calculate_iteration_count saturates at 2^64-1 BEFORE "
               "the gas functions multiply it with the multiplication complexity: for exp_len > 2^61+32 and a small base/modulus "
               "byzantium_gas_calc(1, 2^62+32, 1, 0) = 922337203685477580 (EIP-198: 1844674407370955161) and berlin_gas_calc(1, 2^62+32, "
               "1, 0) = 6148914691236517205 (EIP-2565: 12297829382473034410), replayed on the real crate. Unobservable below "
               "gas_limit 922337203685477580, which is the precondition of byzantium_run / berlin_run. "
               "ORACLE READING: the iteration count uses the FIRST 32 bytes of the exponent (EIP-198 ADJUSTED_EXPONENT_LENGTH, the "
               "execution-specs, every client); the pseudo-code printed in EIP-2565 (`exponent & (2**256 - 1)`) would read the LAST 32 "
               "bytes -- the code follows the former. An exponent-length overflow is reported as ModexpModOverflow (sic), a failure "
               "either way. //@subst is used twice to give the two NESTED helper functions a named result and an ensures clause "
               "(the same ghost-only transformation the extractor applies to top-level functions; recorded in extraction_drops). "
               "vf/vunit.py was extended (backward compatible) so that a unit's `externs=` may name dependency crates "
               "(aurora_engine_modexp, bn:substrate_bn) resolved in the same deps directory.",
    technique="Verus contracts on the extracted gas / framing functions (unbounded); bounded Kani harnesses on the real crate for "
              "the framing of three run functions outside Verus's subset",
    trusted=COMMON_TRUST + [
        "units/prelude/ruint.rs: assumed contracts of ruint 1.12.3 (from, is_zero, from_be_bytes, + - * / on U256, usize::try_from, "
        "uval < 2^256); local: Uint::bit_len (pow2 bounds), Uint::saturating_to::<u64>",
        "core / alloc (local assume_specifications and axioms): u64::div_ceil, core::cmp::max/min on u64/usize, "
        "<&[T]>::default, <&[T; N]>::try_from(&[T]), Vec<T> IndexMut<range> (same text as vstd's array contract), Cow::deref / "
        "into_owned, core::panicking::assert_failed `requires false` (debug_assert_eq! is an obligation), "
        "`global size_of usize == 8` (checked by rustc for the target)",
        "alloy-primitives / bytes: Bytes deref / len / clone / new / from_static, From<Vec<u8>> and From<[u8; N]> for Bytes keep the bytes",
        "revm_primitives (repository code, 3 lines each, not extracted): PrecompileOutput::new stores its two arguments; "
        "impl From<PrecompileError> for PrecompileErrors wraps in Error(..) (also as vstd's spec_from relation used by `?`)",
        "vstd specifications of slice get / index / index_mut with ranges, copy_from_slice, split_at, vec![x; n], usize::saturating_add, "
        "Option / Result methods",
        "Kani 0.68 / CBMC 6.11 for the bounded harnesses; revm-precompile is built with default-features = false there (k256 "
        "back end, no c-kzg / blst / secp256k1): the three functions exercised do not depend on those features",
    ],
    assumptions=[
        "ASSUMED cryptographic primitive: aurora_engine_modexp::modexp returns the big-endian bytes of base^exp mod modulus "
        "(uninterpreted modexp_spec) -- the MODEXP output value is not verified, only its left-padding to the modulus length",
        "ASSUMED cryptographic primitives (substrate-bn, uninterpreted bn_*): Fq / Fr parsing (read_fq, Fr::from_slice: Ok for 32 bytes), "
        "curve membership (new_g1_point), G1 addition and scalar multiplication, AffineG1::from_jacobian / x / y, Fq::to_big_endian "
        "(Ok for a 32-byte slice); pairing_batch and everything in run_pair are outside the unit",
        "ASSUMED, not reached by any obligation: sha2::Sha256, ripemd::Ripemd160, blake2 algo::compress (repository code, not "
        "verified), k256 / secp256k1 ecrecover, c-kzg verify_kzg_proof, blst (all BLS12-381 operations), p256",
        "ASSUMED repository helpers (rejected by Verus): bn128::read_fq = Fq::from_slice of the first 32 bytes with the error mapped "
        "to Bn128FieldPointNotAMember; bn128::new_g1_point; utilities::bool_to_b256(v) = 31 zero bytes then v",
        "byzantium_run / berlin_run: gas_limit < 922337203685477580 = floor((2^64-1)/20) (EIP-1985 caps gas at 2^63-1, block gas "
        "limits are < 2^26); above it the u64 saturations inside the gas functions become visible (findings), and with "
        "gas_limit == 2^64-1 a cost that saturates to 2^64-1 is NOT reported as out of gas",
        "run_inner: the gas function passed in must refuse (g > gas_limit) every input whose three lengths together exceed "
        "usize::MAX, otherwise `vec![0; usize::MAX]` / split_at would panic; proved for both real gas functions under the bound above",
        "calc_linear_cost_u32: ceil(len/32)*word + base <= u64::MAX (unchecked u64 arithmetic). True for identity (3/word) and "
        "sha256 (12/word) for every usize length; for ripemd160 (120/word) only for len <= about 4.9e18 bytes -- a longer Bytes "
        "cannot exist",
        "msm_required_gas: k*discount and k*discount*cost fit u64 (unchecked arithmetic; k <= input length / 160); the two EIP-2537 "
        "discount TABLES are not checked",
        "FINDING iter_count_saturates_first (byzantium_gas_calc, berlin_gas_calc): exact w.r.t. EIP-198 / EIP-2565 only where "
        "max(ADJUSTED_EXPONENT_LENGTH, 1) <= 2^64-1 (exp_len <= 2^61+32 always suffices); beyond, the code returns "
        "sat64(mult_complexity * (2^64-1) / divisor), stated as a clause of the verified contract",
        "NOT COVERED by any proof: sha256_run, ripemd160_run (incl. their gas constants), blake2::run success path, ec_recover_run "
        "(bounded Kani, thorough tier, errors / framing only), run_pair beyond the bounded gas / length instances, kzg run, all "
        "bls12_381 precompiles, u64_to_address, bool_to_b256, the Precompiles constructors and the PrecompileWithAddress tables, "
        "EvmContext::call_precompile (result mapping into the EVM)",
        "Kani harnesses are BOUNDED (input lengths as stated per harness); error paths only for blake2 / ecrecover",
        "machine arithmetic is NOT treated as mathematical: every + - * on u64/usize in the extracted bodies is an overflow obligation",
    ],
)
