from vf.propdefs import COMMON_TRUST

# shared by props/C15.py .. C18.py (imported from here)
STATUS_TEXT = (
    "STATUS ALGEBRA (unit acctstatus, complete): the enum AccountStatus and all 10 methods of "
    "crates/revm/src/db/states/account_status.rs are extracted verbatim on each run. Oracle = meaning(status) = (exists, "
    "was_destroyed, storage_known, modified, again, empty161), a table written from the variant documentation, and one spec "
    "function per event written from the property texts. Proved for all 8 statuses x all flag values: each predicate equals its "
    "component of meaning; meaning(on_*(s)) == event(meaning(s)); meaning is injective, so every contract fixes the returned "
    "variant. The two unreachable!() arms are discharged from the PRECONDITION touch_legal(meaning(self)); the legal-transition "
    "relation is: every (status, event) pair except (Loaded | Changed) x (touched-empty-post-161 | touched-created-pre-161) "
    "(lemma_legal_relation). Reachable sets from the three Loaded* statuses are given explicitly, proved closed under legal "
    "events (lemma_reach_closed) and least (lemma_reach_least). transition(self, other): was_destroyed' == was_destroyed(self) "
    "|| was_destroyed(other) for all 64 pairs; on the 25 pairs of bundle statuses (both modified) the observable meaning is "
    "(exists(other), destroyed(self)||destroyed(other), known(self)||known(other), true)."
)
import json as _json, os as _os
# ---- bounded Kani stand-ins on the real files (kani/kstates); shared by props/C15.py, C16.py, C17.py, C19.py ----
KSTATES_COST = (
    "a std HashMap that holds a key is not affordable in CBMC here (measured on this machine, load 30-40: one insert + one get "
    "of a concrete key with a symbolic value = 1.4 M variables / 5.4 M clauses, 230 s; CacheAccount::change with ONE concrete key "
    "in each map: symbolic execution not finished after 20 min -- the SIMD group match of hashbrown is not constant-folded, the "
    "insert index and growth_left become symbolic and every later reserve() walks the rehash code; a symbolic presence of a key, "
    "or a value-dependent entry.remove() / filter(is_changed), makes the table shape symbolic: not finished after 10 min with no "
    "key at all). So NO storage content is covered by any harness: the storage arguments are the empty map, and what is checked "
    "about storage is only that empty stays empty."
)
KSTATES_COMMON = (
    "BOUNDED (Kani 0.68 on the real source files of crates/revm/src/db/states, included by #[path] in kani/kstates; crate revm is "
    "not compiled): all storage maps EMPTY; AccountInfo = symbolic balance (256 bit), nonce (64 bit), code hash (any 32 bytes or "
    "KECCAK_EMPTY), code None; whether an account / info exists is CONCRETE per harness instance (a symbolic Some / None of an "
    "Option<AccountInfo> sends CBMC through the Bytes vtable of every Bytecode variant); one fixed SipHash seed "
    "(std::hash::RandomState::new stubbed); unwind 34 with unwinding assertions; oracle = the status meaning / step tables of "
    "contracts/acctstatus.vc written out in kani/kstates/src/common.rs (they do not call the code under test). "
)
def _k(harness, bound, quick, timeout=600):
    d = dict(crate="kstates", harness=harness, bounded=True, bound=KSTATES_COMMON + bound, timeout=timeout, mem_gb=8)
    if not quick:
        d["thorough_only"] = True
    return d
_B_CHANGE = ("CacheAccount::{f}: status symbolic over the {cls} statuses; checked: returned transition previous_info / previous_status == "
             "pre-state, info == the new info, status == step table == the account's new status, storage_was_destroyed false, storage "
             "empty; account_info() afterwards == the new info")
_B_TOUCH = ("CacheAccount::touch_create_pre_eip161 from the CONCRETE status {s} ({i}); Bytecode::new stubbed by the raw empty bytecode "
            "(AccountInfo::default() builds an analysed bytecode: > 7 min); checked: None exactly for LoadedEmptyEIP161 / "
            "DestroyedChanged-with-empty-info and then nothing changed, else previous_* == pre-state, info == the empty account, "
            "status == step table, reads == post-state")
K15 = [
    _k("c15::change_s_00_00", _B_CHANGE.format(f="change", cls="5 existing"), True),
    _k("c15::change_n_00_00", _B_CHANGE.format(f="change", cls="3 non-existing"), True),
    _k("c15::newly_created_s_00_00", _B_CHANGE.format(f="newly_created", cls="5 existing"), True),
    _k("c15::newly_created_n_00_00", _B_CHANGE.format(f="newly_created", cls="3 non-existing"), False),
] + [_k("c15::touch_create_pre_eip161_" + n, _B_TOUCH.format(s=s, i=i), n == "lne", 300) for (n, s, i) in [
    ("lne", "LoadedNotExisting", "no info"), ("le", "LoadedEmptyEIP161", "the empty info"),
    ("imc", "InMemoryChange", "nonce 1, balance / code hash symbolic"), ("imc_empty", "InMemoryChange", "the empty info"),
    ("d", "Destroyed", "no info"), ("dc", "DestroyedChanged", "nonce 1, balance / code hash symbolic"),
    ("dc_empty", "DestroyedChanged", "the empty info"), ("da", "DestroyedAgain", "no info")]]
_B_UPDATE = ("TransitionAccount::update(t2) with t1 = any (possibly merged) transition s0 -> s1 of one legal event class and t2 = the NEXT "
             "single-event transition s1 -> s2 of the same account (t2.previous_* == t1's post-state), statuses symbolic within the "
             "existence pattern {p} (exists before t1 / after t1 / after t2), CREATE on a Changed account excluded (collision rule); "
             "checked: previous_* from t1, info / status from t2, storage_was_destroyed == flag1 || flag2, storage stays empty")
K16 = [_k("c16::update_%s_00_00" % p, _B_UPDATE.format(p=p), p in ("sss", "sns")) for p in ("sss", "ssn", "sns", "snn", "nss", "nsn", "nns", "nnn")]
_B_RT = ("BundleAccount::update_and_create_revert(t) then BundleAccount::revert(the returned revert), ONE CONCRETE (bundle status, "
         "transition status, wipe flag) triple per instance -- all 30 triples reachable by any finite sequence of legal events "
         "(closure computed by kani/kstates/gen_kstates.py), x info unchanged (one concrete info) / changed (nonce 1 -> 2, rest "
         "symbolic) x account known / unknown before the bundle; Bytecode::new stubbed (unwrap_or_default); checked: bundle == "
         "post-state, revert.previous_status / account (RevertTo(info before) | DeleteIt iff absent before | DoNothing iff unchanged), "
         "wipe_storage true where the group destroys an account whose storage is in the database and false where the group does not "
         "destroy or the account was destroyed before, slot list empty, after revert status == and info == the pre-state, `removable` "
         "only for an account absent before the bundle; None only if the info did not change and no database storage was dropped")
_B_REV = ("BundleAccount::revert alone on a hand-built AccountRevert of CONCRETE kind ({k}), previous_status symbolic over all 8, "
          "present status symbolic over the 5 existing; checked: status == previous_status, info per kind, return value")
_inst = _json.load(open(_os.path.join(_os.path.dirname(_os.path.dirname(_os.path.abspath(__file__))), "kani", "kstates", "kstates_instances.json")))
K17 = ([_k("c17::" + h, _B_RT, True, 400) for h in _inst["quick"]] + [_k("c17::" + h, _B_RT, False, 400) for h in _inst["thorough"]]
       + [_k("c17::revert_%s_00_00" % n, _B_REV.format(k=k), False, 300) for (n, k) in [
           ("nothing", "DoNothing"), ("to", "RevertTo(symbolic info)"), ("delete_absent", "DeleteIt, original_info None"),
           ("delete_existing", "DeleteIt, original_info Some")]])
_B_FROM = ("CacheAccount::from(BundleAccount) with the info {i}, status symbolic over the {cls} statuses, storage empty; checked: status "
           "and info preserved, account present iff the info is")
K19 = [_k("c19::from_bundle_s_00", _B_FROM.format(i="present", cls="5 existing"), True, 300),
       _k("c19::from_bundle_n_00", _B_FROM.format(i="absent", cls="3 non-existing"), True, 300)]
KSTATES_TRUST = [
    "Kani 0.68 / CBMC 6.11 on kani/kstates: the real files of crates/revm/src/db/states are compiled by #[path] inclusion under the "
    "module paths they name (crate::primitives = revm_interpreter::primitives, crate::db::states::*), against revm-interpreter / "
    "revm-precompile with default-features = false, features = [std] (HashMap = std::collections::HashMap, as in the default build)",
    "std::hash::RandomState::new stubbed by one fixed seed: the observable behaviour of std HashMap does not depend on the seed",
    "revm_primitives::Bytecode::new stubbed by Bytecode::LegacyRaw(empty) in the harnesses that reach AccountInfo::default(): no "
    "checked read depends on the code field (AccountInfo equality ignores it)",
]

LEFT_OUT = (
    "LEFT OUT (construct outside Verus; nothing is claimed for them): closures with tuple-pattern parameters and iterator "
    "adapters (.iter().map(|(k, v)| ..).collect(), .filter(), .drain(), .extend(iter), iter_mut().for_each, Vec/HashMap "
    "into_iter): CacheAccount::{change, newly_created, touch_create_pre_eip161}, From<BundleAccount> for CacheAccount, "
    "TransitionAccount::{update, create_revert, has_new_contract, balance_delta}, BundleAccount::{revert, "
    "update_and_create_revert, is_contract_changed, size_hint}, AccountRevert::{new_selfdestructed, new_selfdestructed_again, "
    "new_selfdestructed_from_bundle, size_hint}, Reverts::*, From<EvmStorageSlot> for StorageSlot (vstd's From contract), "
    "CacheState::{apply_evm_state, apply_account_state, trie_account}, TransitionState::*, all of bundle_state.rs, state.rs, "
    "state_builder.rs, changes.rs. `for .. in HashMap::into_iter()` was tried with an assumed specification of "
    "<HashMap as IntoIterator>::into_iter: this Verus build does not propagate its postcondition about the returned iterator "
    "to the caller. Kani: kani-compiler 0.68 crashes (ICE) on crate revm as a whole; the harness crate kani/kstates therefore "
    "includes the real files account_status.rs, plain_account.rs, cache_account.rs, transition_account.rs, bundle_account.rs, "
    "reverts.rs, changes.rs by #[path] (no text transformation) without crate revm. That compiles, and gives BOUNDED stand-ins "
    "(never counted as proved) for change / newly_created / touch_create_pre_eip161 (C15), TransitionAccount::update (C16), "
    "update_and_create_revert + revert (C17) and From<BundleAccount> (C19) on EMPTY storage maps only: " + KSTATES_COST
)
PLUMBING = (
    "TRUSTED PLUMBING (cross-account folds, not verified): CacheState::apply_evm_state / apply_account_state (which event is "
    "applied for which EVM account flags), State::{load_cache_account (lookup order cache -> bundle -> database), basic, "
    "storage, code_by_hash, block_hash, commit, merge_transitions}, TransitionState::add_transitions, "
    "BundleState::{apply_transitions_and_create_reverts, to_plain_state, extend, extend_state, take_n_reverts, prepend_state, "
    "revert, revert_latest}, Reverts::to_plain_state_reverts."
)
ACCT_TRUST = COMMON_TRUST + [
    "vf/extract.py //@closure: the k-th closure `|p| body` is emitted as `|p| -> (r: T) ensures .. { body }` (Verus knows nothing "
    "about the result of an unannotated closure); parameter list and body verbatim, the clause is ghost",
    "Rust semantics of #[derive(PartialEq)] on AccountStatus / AccountInfoRevert and of #[derive(Default)] on PlainAccount "
    "(derive expansions are outside Verus): axioms in units/prelude/acctstatus_lemmas.rs and units/acctstate.rs.in",
    "crates/primitives AccountInfo::{default, clone, is_empty, has_no_code_and_nonce, PartialEq::eq} as assumed contracts over "
    "uninterpreted info_default / info_is_empty / info_has_no_code_and_nonce (read, not proved in this unit)",
    "vstd HashMap contracts (get, insert, is_empty, clone, default, view) under the assumed key model of ruint U256 / alloy "
    "Address keys and alloy's DefaultHashBuilder",
    "units/prelude/ruint.rs: assumed contracts of ruint 1.12.3 (from, saturating_add, ==, Default, Clone, u128::try_from)",
]

PROP = dict(
    level="proof",
    engine="verus+kani",
    units=["acctstatus", "acctstate"],
    kani=K15,
    level_text="PER ACCOUNT, unbounded in all values (Verus on verbatim code against the real AccountInfo / U256 / HashMap): "
               + STATUS_TEXT +
               " CACHE ACCOUNT (unit acctstate; structs extracted verbatim): the six constructors establish (account is Some) == "
               "exists(status); reads: is_some == exists(status), account_info == the stored info, storage_slot == the stored "
               "value or None; the state changes selfdestruct, touch_empty_eip161 (EIP-161 state clear), increment_balance, "
               "drain_balance and their helper account_info_change: the returned TransitionAccount has previous_info / "
               "previous_status == the pre-state and info / status / storage == the post-state, the status moves exactly as the "
               "status machine says, and a subsequent read (account_info, storage_slot) returns the post-state: after "
               "selfdestruct / touched-empty-with-state-clear the account and every slot read as absent; increment_balance adds "
               "saturating at 2^256-1 (never wraps) and keeps nonce / code / in-memory storage; drain_balance returns the whole "
               "balance and leaves zero. No transition is reported exactly when nothing changed (zero increment; selfdestruct of a "
               "never-existing account; touch of an absent account). CacheState::new / set_state_clear_flag / insert_not_existing / insert_account / "
               "insert_account_with_storage: an empty info enters as LoadedEmptyEIP161 with the default info, any other as "
               "Loaded; other entries untouched. BOUNDED STAND-INS (Kani, kani/kstates, reported under bounded_obligations, never "
               "counted as proved) for the three mutators Verus cannot take -- CacheAccount::change, newly_created, "
               "touch_create_pre_eip161 -- on the real files, info / status part only (storage maps empty): the returned transition "
               "has previous_* == pre-state and info / status == post-state, the status moves as the step table says, account_info() "
               "afterwards returns the new info.",
    level_note="NOT the whole property. Proved: the per-account steps listed above and the status machine. " + LEFT_OUT + " In "
               "particular the three most frequent mutators CacheAccount::change / newly_created / touch_create_pre_eip161 are "
               "NOT proved (their status step is, through on_changed / on_created / on_touched_created_pre_eip161; their info / status "
               "bookkeeping is checked by the bounded Kani stand-ins on empty storage maps; what they do to STORAGE -- extend the "
               "account's slots with the present values, replace them on create -- is checked by nothing). " + PLUMBING +
               " The whole-history quantifier ('after any sequence of transactions') is reached only through these per-step "
               "contracts: each contract's post-state is the next one's pre-state, and the status-level closure lemmas "
               "(lemma_reach_closed / lemma_reach_least) are inductions over the step CONTRACTS, not over the code. Equality of "
               "State and CacheDB execution results is not addressed here (CacheDB: unit dbwrap / C20). Exact-domain "
               "preconditions that stand for panics: on_touched_* / touch_empty_eip161 require touch_legal(status) (not Loaded / "
               "Changed); drain_balance requires the balance to fit u128 (`try_into().unwrap()`).",
    technique="Verus contracts on verbatim-extracted per-account functions; finite status algebra proved completely; bounded Kani harnesses on the real files for three mutators",
    trusted=ACCT_TRUST + KSTATES_TRUST,
    assumptions=[
        "cross-account plumbing trusted: apply_evm_state / apply_account_state choose the event from the EVM account flags; "
        "State::load_cache_account / storage / basic are not verified",
        "CacheAccount::change, newly_created, touch_create_pre_eip161 are outside Verus (iterator adapters with tuple-pattern closures): not proved; "
        "bounded Kani stand-ins cover their info / status bookkeeping on empty storage maps only",
        "legal-transition preconditions: touch of an empty account never reaches status Loaded / Changed (an account with nonce, "
        "code or database storage cannot become empty without a destruction)",
        "drain_balance: balance <= u128::MAX (otherwise the code panics in try_into().unwrap())",
        "flag consistency used by the composition lemma only: an account in status Changed has a nonce or code",
    ],
)
