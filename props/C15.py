from vf.propdefs import COMMON_TRUST

# shared by props/C15.py .. C18.py (imported from here)
STATUS_TEXT = (
    "STATUS ALGEBRA (unit acctstatus, complete): the enum AccountStatus and all 10 methods of "
    "crates/revm/src/db/states/account_status.rs are extracted verbatim on each run. Oracle = meaning(status) = (exists, "
    "was_destroyed, storage_known, modified, again, empty161), a table written from the variant documentation, and one spec "
    "function per event written from the property texts. Proved for all 8 statuses x all flag values: each predicate equals its "
    "component of meaning; meaning(on_*(s)) == event(meaning(s)); meaning is injective, so every contract fixes the returned "
    "variant. The two unreachable!() arms are discharged from the PRECONDITION touch_legal(meaning(self)); the legal-transition "
    "relation is: every (status, event) pair except (Loaded | Changed) x (touched-empty-post-161 | touched-created-pre-161) "
    "(lemma_legal_relation). Reachable sets from the three Loaded* statuses are given explicitly, proved closed under legal "
    "events (lemma_reach_closed) and least (lemma_reach_least). transition(self, other): was_destroyed' == was_destroyed(self) "
    "|| was_destroyed(other) for all 64 pairs; on the 25 pairs of bundle statuses (both modified) the observable meaning is "
    "(exists(other), destroyed(self)||destroyed(other), known(self)||known(other), true)."
)
LEFT_OUT = (
    "LEFT OUT (construct outside Verus; nothing is claimed for them): closures with tuple-pattern parameters and iterator "
    "adapters (.iter().map(|(k, v)| ..).collect(), .filter(), .drain(), .extend(iter), iter_mut().for_each, Vec/HashMap "
    "into_iter): CacheAccount::{change, newly_created, touch_create_pre_eip161}, From<BundleAccount> for CacheAccount, "
    "TransitionAccount::{update, create_revert, has_new_contract, balance_delta}, BundleAccount::{revert, "
    "update_and_create_revert, is_contract_changed, size_hint}, AccountRevert::{new_selfdestructed, new_selfdestructed_again, "
    "new_selfdestructed_from_bundle, size_hint}, Reverts::*, From<EvmStorageSlot> for StorageSlot (vstd's From contract), "
    "CacheState::{apply_evm_state, apply_account_state, trie_account}, TransitionState::*, all of bundle_state.rs, state.rs, "
    "state_builder.rs, changes.rs. `for .. in HashMap::into_iter()` was tried with an assumed specification of "
    "<HashMap as IntoIterator>::into_iter: this Verus build does not propagate its postcondition about the returned iterator "
    "to the caller. Kani cannot stand in: kani-compiler 0.68 crashes (ICE) on the revm crate."
)
PLUMBING = (
    "TRUSTED PLUMBING (cross-account folds, not verified): CacheState::apply_evm_state / apply_account_state (which event is "
    "applied for which EVM account flags), State::{load_cache_account (lookup order cache -> bundle -> database), basic, "
    "storage, code_by_hash, block_hash, commit, merge_transitions}, TransitionState::add_transitions, "
    "BundleState::{apply_transitions_and_create_reverts, to_plain_state, extend, extend_state, take_n_reverts, prepend_state, "
    "revert, revert_latest}, Reverts::to_plain_state_reverts."
)
ACCT_TRUST = COMMON_TRUST + [
    "vf/extract.py //@closure: the k-th closure `|p| body` is emitted as `|p| -> (r: T) ensures .. { body }` (Verus knows nothing "
    "about the result of an unannotated closure); parameter list and body verbatim, the clause is ghost",
    "Rust semantics of #[derive(PartialEq)] on AccountStatus / AccountInfoRevert and of #[derive(Default)] on PlainAccount "
    "(derive expansions are outside Verus): axioms in units/prelude/acctstatus_lemmas.rs and units/acctstate.rs.in",
    "crates/primitives AccountInfo::{default, clone, is_empty, has_no_code_and_nonce, PartialEq::eq} as assumed contracts over "
    "uninterpreted info_default / info_is_empty / info_has_no_code_and_nonce (read, not proved in this unit)",
    "vstd HashMap contracts (get, insert, is_empty, clone, default, view) under the assumed key model of ruint U256 / alloy "
    "Address keys and alloy's DefaultHashBuilder",
    "units/prelude/ruint.rs: assumed contracts of ruint 1.12.3 (from, saturating_add, ==, Default, Clone, u128::try_from)",
]

PROP = dict(
    level="proof",
    engine="verus",
    units=["acctstatus", "acctstate"],
    level_text="PER ACCOUNT, unbounded in all values (Verus on verbatim code against the real AccountInfo / U256 / HashMap): "
               + STATUS_TEXT +
               " CACHE ACCOUNT (unit acctstate; structs extracted verbatim): the six constructors establish (account is Some) == "
               "exists(status); reads: is_some == exists(status), account_info == the stored info, storage_slot == the stored "
               "value or None; the state changes selfdestruct, touch_empty_eip161 (EIP-161 state clear), increment_balance, "
               "drain_balance and their helper account_info_change: the returned TransitionAccount has previous_info / "
               "previous_status == the pre-state and info / status / storage == the post-state, the status moves exactly as the "
               "status machine says, and a subsequent read (account_info, storage_slot) returns the post-state: after "
               "selfdestruct / touched-empty-with-state-clear the account and every slot read as absent; increment_balance adds "
               "saturating at 2^256-1 (never wraps) and keeps nonce / code / in-memory storage; drain_balance returns the whole "
               "balance and leaves zero. No transition is reported exactly when nothing changed (zero increment; selfdestruct of a "
               "never-existing account; touch of an absent account). CacheState::new / set_state_clear_flag / insert_not_existing / insert_account / "
               "insert_account_with_storage: an empty info enters as LoadedEmptyEIP161 with the default info, any other as "
               "Loaded; other entries untouched.",
    level_note="NOT the whole property. Proved: the per-account steps listed above and the status machine. " + LEFT_OUT + " In "
               "particular the three most frequent mutators CacheAccount::change / newly_created / touch_create_pre_eip161 are "
               "NOT proved (only their status step is, through on_changed / on_created / on_touched_created_pre_eip161). " + PLUMBING +
               " The whole-history quantifier ('after any sequence of transactions') is reached only through these per-step "
               "contracts: each contract's post-state is the next one's pre-state, and the status-level closure lemmas "
               "(lemma_reach_closed / lemma_reach_least) are inductions over the step CONTRACTS, not over the code. Equality of "
               "State and CacheDB execution results is not addressed here (CacheDB: unit dbwrap / C20). Exact-domain "
               "preconditions that stand for panics: on_touched_* / touch_empty_eip161 require touch_legal(status) (not Loaded / "
               "Changed); drain_balance requires the balance to fit u128 (`try_into().unwrap()`).",
    technique="Verus contracts on verbatim-extracted per-account functions; finite status algebra proved completely",
    trusted=ACCT_TRUST,
    assumptions=[
        "cross-account plumbing trusted: apply_evm_state / apply_account_state choose the event from the EVM account flags; "
        "State::load_cache_account / storage / basic are not verified",
        "CacheAccount::change, newly_created, touch_create_pre_eip161 are outside Verus (iterator adapters with tuple-pattern closures): not proved",
        "legal-transition preconditions: touch of an empty account never reaches status Loaded / Changed (an account with nonce, "
        "code or database storage cannot become empty without a destruction)",
        "drain_balance: balance <= u128::MAX (otherwise the code panics in try_into().unwrap())",
        "flag consistency used by the composition lemma only: an account in status Changed has a nonce or code",
    ],
)
