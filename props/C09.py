from vf.propdefs import COMMON_TRUST

PROP = dict(
    level="proof",
    units=["fees"],
    level_text="execution::last_frame_return, post_execution::{refund, reimburse_caller, reward_beneficiary, output, clear, end}, "
               "pre_execution::{deduct_caller_inner, deduct_caller}, validation::validate_tx_against_state (handler level, C02), "
               "FrameResult::{into_interpreter_result, gas, gas_mut, interpreter_result, output}, Output::into_data, "
               "InnerEvmContext::take_error and the return_ok!/return_revert! macros are extracted verbatim on each run and verified "
               "by Verus against the REAL generic Context<EXT, DB> / EvmContext<DB> / InnerEvmContext<DB> / JournaledState / "
               "FrameResult / InterpreterResult / ExecutionResult / ResultAndState / Env / Account of the compiled crates (DB: the "
               "external trait Database, no contract on its methods), on top of the gas-meter contracts of unit gas (C13), the "
               "Env fee helpers of unit validate (C02) and JournaledState::load_account / Account::mark_touch of unit journal (C06). "
               "Contracts (from the property, literal numbers, unbounded integers): last_frame_return: gas'.limit == tx.gas_limit; "
               "success code => remaining' == returned remaining, refunded' == returned counter; revert code => remaining' == "
               "returned, refunded' == 0; anything else => remaining' == 0, refunded' == 0 ('a halted transaction uses its whole gas "
               "limit'); nothing else of the frame result and nothing of the context changes. refund: refunded' == min(counter + "
               "EIP-7702 refund, spent/5 [London+] | spent/2). eip7623_floor_block (the EIP-7623 statement of Evm::transact_preverified_inner, "
               "crates/revm/src/evm.rs, extracted MECHANICALLY as a statement range between the refund and reimburse_caller calls "
               "and wrapped in a generated function over the real FrameResult / InitialAndFloorGas): gas used' == max(gas used, "
               "floor) when floor <= limit, refund zeroed when the floor applies, limit and the rest of the result unchanged. output: gas_used == spent - "
               "refunded in every ExecutionResult variant, gas_refunded == the counter, state == the journaled account map, Err iff "
               "an error was recorded. deduct_caller_inner / deduct_caller: balance' == balance -sat (gas_limit*price + blob fee), "
               "EXACT whenever the sender can pay it (the validated precondition); nonce + 1 for calls (saturating at 2^64-1), "
               "unchanged for creates; touched; code/storage unchanged; all other accounts unchanged. reimburse_caller: balance' == "
               "sat256(balance + price*(remaining + refunded) mod 2^256), == balance + price*(remaining+refunded) whenever that is a "
               "256-bit number. reward_beneficiary: balance' == sat256(balance + (price -sat basefee [London+])*(spent - refunded) mod "
               "2^256), == balance + (price - basefee)*(spent - refunded) for price >= basefee and a 256-bit result; touched. Every "
               "handler: on a database error the journaled state is unchanged (view equality), env / error / precompiles / external "
               "unchanged. clear: error == Ok, journaled state == JournaledState::new(spec, {}) field by field, env/db untouched. "
               "LEMMAS (integer algebra over these contracts): intrinsic <= spent <= gas_limit; 0 <= refund <= spent/q; refund == 0 on "
               "revert/halt apart from the EIP-7702 amount; halted => spent == gas_limit; floor <= used <= gas_limit; used >= spent - "
               "spent/q; sender net debit == price*used + blob fee; beneficiary credit == (price - basefee)*used; (C08 hook) sender + "
               "beneficiary change == -(basefee*used) - blob fee; a validated sender is debited and reimbursed without saturation.",
    level_note="READING: 'intrinsic <= gas used' is proved for gas SPENT (before the refund) and for gas used when the refund is 0; "
               "AFTER the refund gas used may be below the intrinsic gas (lemma_used_may_be_below_intrinsic: EIP-7702 refund, 46000 "
               "intrinsic, 36800 used) -- consensus behaviour (EIP-3529/7702), not flagged. 'Refund is zero on revert or halt' is "
               "proved for the execution's counter; the EIP-7702 refund is added whatever the outcome (EIP-7702). FINDING "
               "beneficiary_credit_saturates (twin obligation fails, known_findings.txt, replayed through Evm::transact): the "
               "beneficiary credit saturates at 2^256-1, ether is destroyed. Stated, not findings: reimburse_caller's saturating_add "
               "cannot fire after deduct_caller (lemma); reward's `saturating_sub(basefee)` yields 0 for price < basefee, impossible "
               "after validation (default features); `price * gas` is U256 wrapping `*`, exact because gas_limit*max_fee <= balance "
               "< 2^256 after validation; the caller nonce saturates at 2^64-1 (unreachable since fix 52c6d0f9: such a transaction is rejected); the "
               "effective price effective_price_impl IS the EIP-1559 price for every input since fix 7ad06213. OBSERVATION: "
               "last_frame_return hands gas back for the 'revert codes' CallTooDeep / OutOfFunds, which `output` reports as "
               "ExecutionResult::Halt (SuccessOrHalt::from): such a Halt would not use the whole gas limit; unreachable for the first "
               "frame of a validated transaction (balance >= value after the deduction; depth 0). Balances are stated for an account "
               "already in the journaled state (the caller always is: validate_tx_against_state loads it; the beneficiary when touched "
               "before) -- for an account loaded from the database only the frame (only that account changes) is proved, the "
               "database's answer has no contract. NOT UNDER CONTRACT: PostExecutionHandler::reward_beneficiary (the Option switch) "
               "and every other field of PostExecutionHandler: `Box<dyn Fn(..)>` ('dyn with more than one trait' unsupported by "
               "Verus) -- decided by C22's unit handler; pre_execution::load_accounts (not fee related; its callee "
               "InnerEvmContext::load_access_list is iterator-adapter code); apply_eip7702_auth_list (Box<dyn Iterator>); "
               "frame_return_with_refund_flag does not exist in this tree. ASSUMED locally, to be replaced by journal ledger entries "
               "when they exist: JournaledState::load_code, ::clear, ::finalize. SuccessOrHalt::from(InstructionResult) is an "
               "uninterpreted function (only used to state that `output`'s panic! is unreachable: precondition 'not an internal "
               "code'). `.map_err(EVMError::Transaction)` is eta-expanded by recorded substitution (constructor as function value "
               "unsupported).",
    trusted=COMMON_TRUST + [
        "units/prelude/ruint.rs (ruint contracts), units/prelude/state.rs (journal builder: real JournaledState/Account/... declarations, "
        "AccountStatus bit model, HashMap key-model axioms), units/prelude/env.rs (real Env family; Spec::enabled; min; Bytes; TxKind)",
        "ledger: gas.vc (Gas methods, unit gas), validate.vc (Env::effective_gas_price / calc_data_fee / validate_tx_against_state, unit "
        "validate), journal.vc (JournaledState::load_account, Account::mark_touch, unit journal), gascalc.vc (SpecId::is_enabled_in)",
        "ASSUMED (labelled, pending journal entries): JournaledState::load_code (as load_account + code loaded), JournaledState::clear "
        "(== new(spec, {})), JournaledState::finalize (hands out state and logs, resets)",
        "ASSUMED: Deref/DerefMut of EvmContext is `inner`; Bytes::clone is the same bytes; SuccessOrHalt::from uninterpreted",
        "WIRING (crates/revm/src/evm.rs transact_preverified_inner, dyn handler table): the order load_accounts, deduct_caller, "
        "first frame with gas_limit - intrinsic, last_frame_return, refund, the EIP-7623 statement (its TEXT is under contract: "
        "extracted statement range eip7623_floor_block; trusted is only its position between the two anchor calls), reimburse_caller, reward_beneficiary, output -- with the SAME Gas value -- and that the handler fields "
        "are the mainnet functions; PostExecutionHandler::reward_beneficiary doing NOTHING when its Option is None (C22)",
    ],
    assumptions=[
        "FINDING beneficiary_credit_saturates: the beneficiary credit is exact whenever balance + reward < 2^256; beyond, the contract "
        "states the saturation and the property-level twin fails",
        "last_frame_return: the returned meter is well formed and its remaining gas <= tx.gas_limit (frame accounting: the first frame's "
        "limit is gas_limit - intrinsic)",
        "refund / reimburse / reward / output: refund counter >= 0 at transaction end (EIP-3529 protocol invariant, C13) and fits i64 with "
        "the EIP-7702 amount; 0 <= refunded <= spent after `refund` (its own postcondition)",
        "handlers that load an account: the journal has at least one level (JournaledState::new gives one); Cancun => blob base fee "
        "present (validate_block_env); fewer than 2^47 blob hashes (validate_tx: <= 255)",
        "output: the final instruction result is not an interpreter-internal code (its panic! branch must be unreachable)",
        "machine arithmetic is NOT treated as mathematical: u64 + and - in the extracted bodies are overflow obligations; U256 * + are "
        "their wrapping / saturating ruint contracts",
    ],
)
