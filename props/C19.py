import importlib.util, os
_s = importlib.util.spec_from_file_location("verif_prop_C15_shared", os.path.join(os.path.dirname(os.path.abspath(__file__)), "C15.py"))
_m = importlib.util.module_from_spec(_s); _s.loader.exec_module(_m)

PROP = dict(
    level="other",
    engine="kani",
    units=[],
    kani=_m.K19,
    explanation="A bounded check of the CONVERSION only, nothing else of the property. Of the two mechanisms of C19, "
                "`From<BundleAccount> for CacheAccount` (crates/revm/src/db/states/cache_account.rs) is checked by two bounded Kani "
                "harnesses on the real file (kani/kstates/src/c19.rs: the file is included by #[path] without crate revm, which "
                "kani-compiler cannot build): for a bundle account whose info is present (status symbolic over the 5 existing "
                "statuses) / absent (3 non-existing statuses), symbolic info, EMPTY storage: the cache account has the same status, "
                "the same info, and an account exactly when the info is present. That the conversion preserves the present VALUES "
                "of the bundle account's slots is checked by NOTHING: " + _m.KSTATES_COST + " The other mechanism -- "
                "State::load_cache_account / code_by_hash consulting the preloaded bundle before the database (lookup order cache -> "
                "bundle -> database), StateBuilder::with_bundle_prestate -- lives in state.rs / state_builder.rs, which are not "
                "compiled by either verifier: trusted plumbing. The equality of execution results and of the resulting bundle "
                "changes between the two State instances is not addressed.",
    level_text="bounded Kani check of From<BundleAccount> for CacheAccount on empty storage maps (status, info, presence); the bundle "
               "lookup of State is not verified",
    level_note="Not a proof and not the property: two bounded harnesses on one conversion function. " + _m.PLUMBING,
    technique="bounded Kani harnesses on the real cache_account.rs (included by path)",
    trusted=_m.KSTATES_TRUST,
    assumptions=["State::load_cache_account / code_by_hash (use_preloaded_bundle), StateBuilder::with_bundle_prestate: NOT verified",
                 "the conversion's storage part (.iter().map(|(k, v)| (*k, v.present_value)).collect()) is NOT verified: no harness holds a key"],
    rule="one evaluation per bounded Kani harness",
)
