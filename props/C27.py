from vf.propdefs import COMMON_TRUST

PROP = dict(
    level="proof",
    engine="verus",
    units=["bytecode"],
    level_text="Every constructor and accessor of the three bytecode representations is extracted verbatim on each run and "
               "verified by Verus against the REAL Bytecode / LegacyAnalyzedBytecode / Eip7702Bytecode / Eof / "
               "BytecodeDecodeError / Eip7702DecodeError / EofDecodeError of the compiled crate (unit bytecode, 49 obligations; the run also re-verifies unit eofcodec, whose contracts of Eof::size/encode_slow, EofHeader::{size, body_size, eof_size, types_count, data_size_raw_i, decode} and EofBody::{code, decode} unit bytecode assumes through the ledger): "
               "Eip7702Bytecode::{new_raw, new, raw, address}; Bytecode::{new, new_legacy, new_raw, new_raw_checked, new_eip7702, "
               "new_analyzed, hash_slow, original_bytes, original_byte_slice, bytecode, bytes, bytes_slice, len, is_empty, "
               "is_execution_ready, legacy_jump_table, eof, is_eof, is_eip7702}; LegacyAnalyzedBytecode::{new, bytecode, "
               "original_len, original_bytes, original_byte_slice, jump_table}; Eof::{raw, decode}; the two From<..> for "
               "BytecodeDecodeError impls; to_analysed (interpreter/analysis.rs); the constants EIP7702_MAGIC, EIP7702_VERSION, "
               "EOF_MAGIC and the statics EIP7702_MAGIC_BYTES / EOF_MAGIC_BYTES. An alloy `Bytes` is opaque and seen through "
               "bytes_view(b): Seq<u8>. The oracle (contracts/bytecode.vc) is written from the property: original(c) = the byte "
               "string the value was built from (LegacyAnalyzed: the first original_len bytes of the padded buffer). Proved for "
               "ALL byte strings and ALL addresses (unbounded): new_legacy/new_raw_checked store exactly the given bytes; "
               "new_raw_checked returns Err on an EF01-prefixed input exactly when it is not a 23-byte version-0 designator, "
               "Ok(LegacyRaw) for everything not EF00/EF01-prefixed, and for EF00 only a container whose raw is the input; "
               "Eip7702Bytecode::new_raw names the error for each malformed shape (length, magic, version) and takes the address "
               "from bytes 3..23; Eip7702Bytecode::new(a).raw == ef 01 00 ++ a (23 bytes), address == a; lemmas over the contracts: "
               "new_raw(raw(new(a))) == Ok(new(a)) and raw(new(address(new_raw(b)))) == b; every accessor returns exactly "
               "original(c) (bytes/bytes_slice/bytecode: the executed buffer, stated per variant); len == |original|, is_empty <=> "
               "len == 0; hash_slow == KECCAK_EMPTY if empty else keccak(original) -- never over the padding; to_analysed keeps "
               "original bytes, length and hash, pads a raw code with exactly 33 zero bytes and returns everything else unchanged.",
    level_note="NOT proved / stated limits: (1) `analyze` (private raw-pointer loop behind to_analysed) is an opaque stub with no "
               "contract: to_analysed's byte preservation is proved for ANY jump table it returns; that it returns at all and what "
               "the table contains is C04 (bounded Kani, builder c04-jump). (2) `impl Default for LegacyAnalyzedBytecode` (bitvec! "
               "macro, JumpTable constructor: outside Verus) is an ASSUMED contract (bytecode == [0], original_len == 0), used by "
               "Bytecode::new. (3) For EF00-prefixed input only 'an accepted container stores the input unchanged' is proved "
               "(Eof::decode verbatim, EofHeader::decode / EofBody::decode with no contract); what decoding computes is C26 (unit "
               "eofcodec). Bytecode::new_raw is proved for non-EF00 input only. Bytecode::bytecode on an EOF value requires a first "
               "code section (EofBody::code assumed to return the section view eof_code). (4) WHICH error value new_raw_checked "
               "returns after `?` is not stated: this vstd specifies Result::from_residual without relating the converted error to "
               "From::from (checked on a local example); that it IS an Err exactly on malformed EF01 input is proved, "
               "Eip7702Bytecode::new_raw's own contract names each error, and the two From impls are proved separately. "
               "(5) accessors of LegacyAnalyzed carry the representation invariant original_len <= |buffer| as precondition: "
               "LegacyAnalyzedBytecode::new / Bytecode::new_analyzed (unsafe fn) do not check it; to_analysed, Bytecode::new and "
               "every other constructor establish it (proved).",
    technique="Verus contracts on the extracted constructors/accessors over a sequence view of the opaque Bytes (unbounded)",
    trusted=COMMON_TRUST + [
        "units/prelude/bytesview.rs -- alloy-primitives 0.8.15 Bytes (read from src/bytes/mod.rs; bytes 1.7.1 src/bytes.rs): Deref Bytes->bytes::Bytes->[u8] "
        "(views raw_of/raw_view), AsRef<[u8]>, bytes::Bytes::len (== view length, <= isize::MAX), Clone (same contents), "
        "Bytes::new (empty), Bytes::from_static (the slice), From<Vec<u8>> (the vector's contents), slice(range) (requires "
        "begin <= end <= len as the crate documents its panic; result = that subrange; begin/end pinned for RangeTo<usize>), "
        "PartialEq<Bytes> for [u8] (content equality, as PartialEqSpec axioms)",
        "local macro bytes!(\"ef01\") / bytes!(\"ef00\") = Bytes::from_static(&[0xef, 0x01|0x00]) (alloy's hex macro is not "
        "interpretable; any other literal in the repository has no arm => UNDECIDED, never a silent pass)",
        "std: <[T]>::to_vec (copy), TryFrom<&[T]> for [T; N] (Ok iff len == N, then the same elements; as TryIntoSpec axioms), "
        "Extend<&T> for Vec<T> (appends the iterator's items) + `&Address` iterates its 20 bytes; vstd's own specifications of "
        "slice len/index/range index/get(range)/starts_with, Vec::with_capacity/push/extend_from_slice/resize, Arc::new, "
        "Option/Result::expect/unwrap, try_into, the `?` operator",
        "alloy Address: Address::new(bytes) has those 20 bytes; an address is its 20 bytes (addr_bytes injective, length 20)",
        "keccak256 is an uninterpreted function keccak(Seq<u8>) of the bytes `as_ref()` yields; KECCAK_EMPTY is a wrapper of the "
        "real constant linked by the axiom keccak(empty) == KECCAK_EMPTY",
        "assume_specification on the compiled public methods carry the clause text that the same unit proves on their extracted "
        "source (public inherent methods of external types cannot be shadowed; same crate, same run)",
        "stub `analyze` (no contract), assumed `LegacyAnalyzedBytecode::default`; the EOF codec functions carry the contracts "
        "proved in unit eofcodec (ledger closure: that unit is re-verified in every C27 run)",
    ],
    assumptions=[
        "to_analysed: `analyze` returns (no panic, terminates) -- bounded elsewhere (C04 Kani harnesses c04::*, builder c04-jump); "
        "nothing about the table's contents is used here",
        "LegacyAnalyzedBytecode::default() == { bytecode: [0x00], original_len: 0, .. } (assumed, not verified: bitvec! macro)",
        "representation invariant original_len <= |padded buffer| is a PRECONDITION of the LegacyAnalyzed accessors (a value "
        "built by hand with LegacyAnalyzedBytecode::new / unsafe Bytecode::new_analyzed outside it makes original_bytes panic)",
        "EOF: only `Eof::decode(b) == Ok(e) ==> e.raw is b` here; decode/encode round trip is C26",
        "error VALUE of new_raw_checked after `?` not stated (vstd from_residual gap); Err-ness is",
        "len + 33 cannot overflow in to_analysed because a Bytes is at most isize::MAX long (assumed on bytes::Bytes::len)",
    ],
)
