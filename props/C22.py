"""C22 -- disabling the beneficiary reward is honoured and survives reconfiguration.

Decided by Verus (unit `handler`) on the real handler (re)construction functions + three census guards
(python, below) that turn every NEW way around those functions into UNDECIDED instead of silence.
"""
import os

from vf.propdefs import COMMON_TRUST

_SRC = "crates/revm/src"

# -- census 1: who mentions the switch ------------------------------------------------------------
# every item (outside optimism/ and outside #[cfg(test)] modules) whose text contains the identifier
# `reward_beneficiary` or `with_reward_beneficiary`.  "contract" = verified in unit handler, "trusted" =
# pinned by hash below, "decl"/"wiring" = see text.
_READERS = {
    ("handler.rs", "fn", "mainnet"): "contract",
    ("handler.rs", "fn", "mainnet_with_spec"): "contract",
    ("handler.rs", "fn", "pop_handle_register"): "contract (reads the switch once the fix is in)",
    ("handler.rs", "fn", "create_handle_generic"): "contract (reads the switch once the fix is in)",
    ("handler.rs", "fn", "modify_spec_id"): "contract (reads the switch once the fix is in)",
    ("handler.rs", "fn", "optimism"): "cfg(feature = optimism): not compiled by the default build, not covered",
    ("handler.rs", "fn", "optimism_with_spec"): "cfg(feature = optimism): not compiled by the default build, not covered",
    ("handler/handle_types/post_execution.rs", "struct", "PostExecutionHandler"): "decl of the field",
    ("handler/handle_types/post_execution.rs", "fn", "new"): "trusted (pinned)",
    ("handler/handle_types/post_execution.rs", "fn", "reward_beneficiary"): "trusted (pinned)",
    ("handler/mainnet/post_execution.rs", "fn", "reward_beneficiary"): "the mainnet payment function itself (its name)",
    ("handler/mainnet.rs", "use", None): "re-export of the mainnet payment function",
    ("evm.rs", "fn", "transact_preverified_inner"): "wiring: the single call of the dispatcher",
}

# -- census 2: who builds a handler ---------------------------------------------------------------
_CTOR_CALLERS = {
    ("handler.rs", "new"): "default handler (rewards on) from a HandlerCfg -- pinned",
    ("handler.rs", "mainnet"): "contract",
    ("handler.rs", "mainnet_with_spec"): "contract",
    ("handler.rs", "optimism"): "cfg(optimism), not covered",
    ("handler.rs", "optimism_with_spec"): "cfg(optimism), not covered",
    ("handler.rs", "pop_handle_register"): "contract",
    ("handler.rs", "create_handle_generic"): "contract",
    ("handler.rs", "modify_spec_id"): "contract",
    ("builder.rs", "handler"): "private helper Handler::new(cfg) -- pinned",
}
# EvmBuilder methods documented as RESETTING the handler to the default mainnet handler ("Note that some of the
# methods that changes underlying structures will reset the registered handler to default mainnet"): they drop
# every customisation, not only the switch.  Listed by name so that a new one shows up.
for _n in ("default", "with_empty_db", "with_db", "with_ref_db", "with_external_context", "with_env_with_handler_cfg",
           "with_context_with_handler_cfg", "with_cfg_env_with_handler_cfg", "with_handler_cfg",
           "reset_handler_with_empty_db", "reset_handler_with_db", "reset_handler_with_ref_db",
           "reset_handler_with_external_context", "reset_handler", "optimism", "mainnet", "reset_handler_with_mainnet"):
    _CTOR_CALLERS[("builder.rs", _n)] = "documented reset to the default handler"

# -- census 3: text of the functions this check TRUSTS (Verus cannot read them: Box<dyn Fn>, fn pointers, `mut self`)
_PINS = [
    ("crates/revm/src/handler/handle_types/post_execution.rs", "impl:PostExecutionHandler<'a,EXT,DB> fn:new", "4cf2944613b51637",
     "reward_beneficiary: if with_reward_beneficiary { Some(..) } else { None }"),
    ("crates/revm/src/handler/handle_types/post_execution.rs", "impl:PostExecutionHandler<'_,EXT,DB> fn:reward_beneficiary", "37f2c28cc362c471",
     "None => Ok(()) without touching the context; Some(f) => f(context, gas)"),
    ("crates/revm/src/handler/register.rs", "impl:HandleRegisters<'register,EXT,DB> fn:register", "e637e65a9f0a95a5",
     "calls the register closure on the handler, nothing else"),
    ("crates/revm/src/handler.rs", "impl:EvmHandler<'a,EXT,DB> fn:new", "d9f901a7314086cc", "default handler: mainnet_with_spec(spec, true)"),
    ("crates/revm/src/handler.rs", "impl:EvmHandler<'a,EXT,DB> fn:append_handler_register_plain", "abeef75883a4be3b",
     "register(self); push -- same shape as append_handler_register (fn pointer: outside Verus)"),
    ("crates/revm/src/handler.rs", "impl:EvmHandler<'a,EXT,DB> fn:append_handler_register_box", "f866699a3cc87bc9",
     "register(self); push -- same shape as append_handler_register (Box<dyn Fn>: outside Verus)"),
    ("crates/revm/src/builder.rs", "impl:EvmBuilder<'a,BuilderStage,EXT,DB> fn:with_spec_id", "23e14457bf4c50d7",
     "self.handler.modify_spec_id(spec_id), handler moved on (`mut self`: outside Verus)"),
    ("crates/revm/src/builder.rs", "impl:EvmBuilder<'a,BuilderStage,EXT,DB> fn:append_handler_register", "9da7251eb7c46b1a",
     "self.handler.append_handler_register(Plain(r)), handler moved on (`mut self`)"),
    ("crates/revm/src/builder.rs", "impl:EvmBuilder<'a,BuilderStage,EXT,DB> fn:append_handler_register_box", "8972068616a1c90b",
     "self.handler.append_handler_register(Box(r)), handler moved on (`mut self`)"),
    ("crates/revm/src/builder.rs", "impl:EvmBuilder<'a,BuilderStage,EXT,DB> fn:handler", "82bf394001da41a3", "Handler::new(handler_cfg)"),
]


def _walk(repo):
    """(relative path, Src) of every source file of the revm crate outside optimism/."""
    from vf import extract
    root = os.path.join(repo, _SRC)
    for d, _dirs, files in sorted(os.walk(root)):
        rel_d = os.path.relpath(d, root)
        if rel_d == "optimism" or rel_d.startswith("optimism" + os.sep):
            continue
        for f in sorted(files):
            if f.endswith(".rs") and not (rel_d == "." and f == "optimism.rs"):
                p = os.path.join(d, f)
                yield os.path.normpath(os.path.join(rel_d, f)), extract.load(p)


def _leaves(items, in_test=False):
    """innermost items with their `inside a test module` flag"""
    for it in items:
        t = in_test or (it.kind == "mod" and it.name in ("test", "tests"))
        if it.children:
            yield from _leaves(it.children, t)
            yield it, t, True     # the container itself (tokens outside its children)
        else:
            yield it, t, False


def _enclosing(src, k):
    """innermost item containing token index k -> (item, in_test)"""
    best = None
    for it, t, _container in _leaves(src.items):
        if it.first <= k <= it.last:
            if best is None or (it.last - it.first) < (best[0].last - best[0].first):
                best = (it, t)
    return best


def _ident_hits(src, names):
    for pos, k in enumerate(src.sig):
        if src.toks[k][0] == "id" and src.tt(k) in names:
            yield pos, k


def census_switch_readers():
    from vf import extract, vunit
    extract.clear_cache()
    bad = []
    n_dispatch = 0
    for rel, src in _walk(vunit.REPO):
        for pos, k in _ident_hits(src, ("reward_beneficiary", "with_reward_beneficiary")):
            enc = _enclosing(src, k)
            if enc is None:
                bad.append(f"{rel}: `{src.tt(k)}` outside any item")
                continue
            it, in_test = enc
            if in_test:
                continue
            key = (rel, it.kind, it.name if it.kind != "use" else None)
            if key not in _READERS:
                bad.append(f"{rel}: {it.kind} {it.name} mentions `{src.tt(k)}` (line {src.text.count(chr(10), 0, src.toks[k][1]) + 1})")
            elif key == ("evm.rs", "fn", "transact_preverified_inner"):
                # must be the method call `<x>.reward_beneficiary(`
                if src.tt(src.sig[pos - 1]) == "." and src.tt(src.sig[pos + 1]) == "(":
                    n_dispatch += 1
                else:
                    bad.append(f"{rel}: transact_preverified_inner touches the switch other than by calling the dispatcher")
    if n_dispatch != 1:
        bad.append(f"evm.rs: transact_preverified_inner calls PostExecutionHandler::reward_beneficiary {n_dispatch} times (expected exactly once)")
    # the CfgEnv-level flag (feature optional_beneficiary_reward) has NO reader today: the handler switch is the only one
    for d, _dirs, files in os.walk(os.path.join(vunit.REPO, "crates")):
        if os.sep + "target" in d:
            continue
        for f in files:
            if f.endswith(".rs"):
                p = os.path.join(d, f)
                src = extract.load(p)
                for pos, k in _ident_hits(src, ("is_beneficiary_reward_disabled", "disable_beneficiary_reward")):
                    rel = os.path.relpath(p, vunit.REPO)
                    if rel != os.path.join("crates", "primitives", "src", "env.rs"):
                        bad.append(f"{rel}: reads the CfgEnv reward flag (a second switch, not under contract)")
    if bad:
        return False, "the reward switch is mentioned outside the functions under contract: " + "; ".join(bad[:6])
    return True, "switch mentioned only in the listed functions"


def census_constructor_callers():
    from vf import extract, vunit
    extract.clear_cache()
    bad = []
    for rel, src in _walk(vunit.REPO):
        sig = src.sig
        for pos, k in enumerate(sig):
            if src.toks[k][0] != "id":
                continue
            w = src.tt(k)
            nxt = src.tt(sig[pos + 1]) if pos + 1 < len(sig) else ""
            nxt2 = src.tt(sig[pos + 2]) if pos + 2 < len(sig) else ""
            prv = src.tt(sig[pos - 1]) if pos >= 1 else ""
            prv3 = src.tt(sig[pos - 3]) if pos >= 3 else ""
            hit = False
            if w in ("mainnet_with_spec", "optimism_with_spec") and nxt == "(":
                hit = True
            elif (w in ("mainnet", "optimism") and prv == ":" and nxt == ":" and nxt2 == ":"
                  and pos + 3 < len(sig) and src.tt(sig[pos + 3]) == "<"):
                hit = True        # `::mainnet::<SPEC>(`
            elif w == "new" and prv == ":" and prv3 in ("Handler", "EvmHandler", "PostExecutionHandler"):
                hit = True
            elif w == "handler" and prv == ":" and nxt == "(":
                hit = True        # EvmBuilder's private `Self::handler(cfg)`
            if not hit:
                continue
            enc = _enclosing(src, k)
            if enc is None:
                bad.append(f"{rel}: `{w}` outside any item")
                continue
            it, in_test = enc
            if in_test:
                continue
            if it.kind == "fn" and it.name == w and src.tt(sig[pos - 1]) == "fn":
                continue   # the definition itself
            if (rel, it.name) not in _CTOR_CALLERS:
                bad.append(f"{rel}: {it.kind} {it.name} builds a handler (`{w}`, line {src.text.count(chr(10), 0, src.toks[k][1]) + 1})")
    if bad:
        return False, "a handler is (re)built outside the functions under contract / the documented resets: " + "; ".join(bad[:6])
    return True, "handlers are built only in the listed functions"


def census_trusted_text():
    from vf import extract, vunit
    extract.clear_cache()
    bad = []
    for path, spec, h, what in _PINS:
        try:
            it = extract.find(os.path.join(vunit.REPO, path), spec)
        except extract.ExtractError as e:
            bad.append(str(e))
            continue
        got = extract.sha(it.text())[:16]
        if got != h:
            bad.append(f"{path} {spec.split()[-1]}: text changed ({got} != pinned {h}); it was read as: {what}")
    if bad:
        return False, "a function this check trusts by reading changed, re-read it and re-pin: " + "; ".join(bad[:4])
    return True, f"{len(_PINS)} trusted functions unchanged"


PROP = dict(
    level="proof",
    units=["handler"],
    census=[census_switch_readers, census_constructor_callers, census_trusted_text],
    level_text="PERSISTENCE clause, proved by Verus on the verbatim text against the REAL Handler<'a, Context<EXT,DB>, EXT, DB> "
               "(transparent, its seven real fields; component tables opaque): Handler::mainnet::<SPEC>(flag) and "
               "mainnet_with_spec(spec, flag) (through the verbatim spec_to_generic! macro, all 19 SpecIds) return a handler whose "
               "switch equals the flag and that has no registers; append_handler_register keeps the switch if the register does; "
               "pop_handle_register, create_handle_generic::<SPEC> and modify_spec_id leave/return a handler with the SAME switch "
               "as before, for every register list of every length (loop invariant over the owned Vec iterator), provided each "
               "re-applied register preserves the switch; Evm::modify_spec_id likewise; Evm::new, Evm::modify, EvmBuilder::new/"
               "with_handler/build (EvmBuilder extracted as a local twin: private fields) move the handler unchanged "
               "(whole-value equality). Unbounded in SPEC, spec_id, flag, registers.",
    level_note="EXPECTED TO FAIL on the tree as received: the three rebuild obligations (pop_handle_register, create_handle_generic, "
               "modify_spec_id) fail -- each rebuilds with a literal `true` (DESIGN section 5 row 2); they verify once the switch "
               "`self.post_execution.reward_beneficiary.is_some()` is passed instead. "
               "NOT decided: (1) 'every other effect of the transaction is identical' is relational over two whole executions -- no "
               "function contract states it. (2) Optimism fee vaults / optimism_with_spec / optimism_handle_register: feature not in "
               "the default build, not covered. (3) HONOURED clause (`None` => the beneficiary is not paid): the two functions that "
               "define the switch -- PostExecutionHandler::new and PostExecutionHandler::reward_beneficiary -- cannot be read by Verus "
               "('dyn with more that one trait': every field of PostExecutionHandler is a Box<dyn Fn>), and Kani ICEs on the crate; "
               "they are TRUSTED BY READING (6 + 5 lines) and pinned by hash: an edit makes the check UNDECIDED, it does not fail an "
               "obligation. The struct is therefore opaque and the switch is the uninterpreted view pe_reward_on(p). "
               "(4) Handler::append_handler_register_plain/_box ('function pointer types' / dyn Fn) and the EvmBuilder methods "
               "with_spec_id, append_handler_register(_box) ('mut self' unsupported) are outside Verus: one-line forwards to the "
               "verified Handler methods, pinned by hash. (5) The EvmBuilder methods that change DB/EXT/HandlerCfg "
               "(with_db, with_handler_cfg, reset_handler*, ...) are DOCUMENTED to reset the handler to the default mainnet handler "
               "(rewards on): treated as outside the property, listed by name in the census. "
               "(6) 'register preserves the switch' is an uninterpreted hypothesis: a register is an arbitrary closure on &mut Handler. "
               "Observation: CfgEnv::is_beneficiary_reward_disabled (feature optional_beneficiary_reward) has no reader anywhere in the "
               "workspace -- the environment-level flag is never consulted; census keeps it that way.",
    technique="Verus contracts on the extracted handler construction/reconfiguration functions (unbounded) + source census guards",
    trusted=COMMON_TRUST + [
        "PostExecutionHandler::new sets reward_beneficiary to Some iff the flag (assume_specification; text pinned by hash)",
        "PostExecutionHandler::reward_beneficiary returns Ok(()) without touching the context when the Option is None (read, pinned; no obligation)",
        "reward_switch_exec(p) == p.reward_beneficiary.is_some(): external_body wrapper substituted (recorded path-subst) for the "
        "expression `self.post_execution.reward_beneficiary.is_some()`, whose type Option<Box<dyn Fn>> Verus cannot translate",
        "HandleRegisters::register(r, h): register_preserves_reward(r) ==> switch of h unchanged (definition of the hypothesis)",
        "core::mem::take returns the old value and leaves T::default(); Vec::default() is empty",
        "SpecId derives PartialEq (== is variant equality); EvmContext's DerefMut is `&mut self.inner`; JournaledState::set_spec_id, "
        "HandlerCfg::new, ValidationHandler/PreExecutionHandler/ExecutionHandler::new, InstructionTables::new_plain: no contract used "
        "beyond HandlerCfg::new(s).spec_id == s",
        "the loop invariants name Verus's default ghost iterator `VERUS_ghost_iter` (the source `for register in registers` has no label); "
        "a renamed internal makes the unit fail to compile = UNDECIDED",
        "vstd specifications of Vec::pop/push, Option::is_some, vec::IntoIter",
    ],
    assumptions=[
        "every handle register re-applied by a rebuild function leaves the reward switch as it found it (uninterpreted predicate register_preserves_reward)",
        "default feature set (no `optimism`): the first definition of spec_to_generic! is the one compiled",
        "the handler of a running Evm is only changed through the functions listed in the census (pub fields can be assigned by any user code)",
    ],
)
