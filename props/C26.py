from vf.propdefs import COMMON_TRUST

PROP = dict(
    level="proof",
    engine="verus",
    units=["eofcodec"],
    level_text="CODEC HALF ONLY (decode / encode round trip and panic-freedom of decoding). The whole EOF container codec is "
               "extracted verbatim on each run and verified by Verus against the REAL EofHeader / TypesSection / EofBody / Eof / "
               "EofDecodeError of the compiled crate (unit eofcodec): consume_u8, consume_u16, consume_header_section_size, the "
               "five KIND_* constants, EofHeader::{size, data_size_raw_i, types_count, body_size, eof_size, encode, decode}, "
               "TypesSection::{new, is_non_returning, io_diff, encode, validate, decode}, EofBody::{code, encode, decode}, "
               "Eof::{size, encode_slow, decode, decode_dangling}. The oracle (contracts/eofcodec.vc) is the byte layout of "
               "EIP-3540 written as the byte string GENERATED from a section table: header_bytes(h) = ef00 01 | 01 types_size | 02 "
               "n code_size+ | [03 n container_size+] | 04 data_size | 00, types_bytes, body_bytes, and the EIP's constraints "
               "header_wf (types_size == 4*n, 1..=1024 non-zero code sizes, <= 256 non-zero container sizes, cached sums) / types_wf "
               "(inputs <= 0x7f, outputs <= 0x80, max_stack <= 0x3ff, inputs <= max_stack). Proved for ALL byte strings (unbounded, "
               "all loops with invariants): EofHeader::decode(b) == Ok((h, rest)) ==> header_wf(h) and b == header_bytes(h) ++ rest; "
               "EofHeader::encode appends exactly header_bytes(h); the same pair for TypesSection and EofBody (sections have the "
               "sizes the header announces, data may be shorter than announced, is_data_filled says which); Eof::decode(b) == "
               "Ok(e) ==> e.raw is b and b == header_bytes(e.header) ++ body_bytes(e.body); Eof::encode_slow yields exactly that "
               "string; hence (lemma_decode_encode_roundtrip, lemma_decoded_is_encodable) decode(b) == Ok(e) ==> e.encode_slow() "
               "== b. decode_dangling splits the input into the container's own bytes and the dangling rest. Error reasons are "
               "exact for consume_*, consume_header_section_size (all four), TypesSection::decode/validate, EofBody::decode (all "
               "three; EofBody::decode accepts EXACTLY when the length is within [header+body-data_size, header+body] and every "
               "types entry is valid) and for the fixed-offset header fields (magic, version, types kind, types size % 4, code "
               "kind); inputs shorter than 15 bytes are rejected; EofHeader::decode and decode_dangling never report a body-length "
               "error. PANIC-FREEDOM of Eof::decode / decode_dangling on every input: every slice "
               "index, range, Bytes::slice, split_off, expect/unwrap and every +,* on usize in the extracted bodies is a discharged "
               "obligation (decoders have no precondition; EofBody::decode alone requires header_wf of the header it is given, "
               "which EofHeader::decode establishes). Decoders take shared borrows only: an Err has no effect to leave behind.",
    level_note="NOT ATTEMPTED (not applicable to this technique, see DESIGN 4): 'validation returns the same verdict every time' "
               "(purity of safe Rust, no contract adds information) and 'every container that validation accepts executes without "
               "reaching an interpreter panic' (interpreter/analysis.rs validate_eof_* vs callf/jumpf/eofcreate/return_contract): a "
               "whole-program property over validate_eof_codes' abstract interpretation and the interpreter loop. NOT PROVED in the "
               "codec half: completeness of EofHeader::decode (hence of Eof::decode / decode_dangling) beyond the fixed-offset fields (that EVERY byte string of the form "
               "header_bytes(h) ++ rest with header_wf(h) is accepted) -- only soundness (accepted ==> of that form), the exact "
               "error of each helper, and rejection below 15 bytes; Eof::data_slice / EofBody::into_eof / Eof::default / "
               "Eof::new (iterator collect/sum, closures: outside this Verus) are not under contract; into_eof's `as u16` "
               "truncations are therefore not examined. Deviations from the extracted text, each recorded in the evidence: "
               "u16::from_be_bytes / .to_be_bytes() re-pathed to two trusted wrappers (core's signature has an unnameable "
               "array-length constant); ghost iterator names and `ensures` on the two `|x| *x as usize` closures spliced into "
               "for-headers; EofBody::decode emitted as a free function (this Verus loses closure specs inside extension-trait "
               "impls); unit runs with --rlimit 30 (EofHeader::decode needs 16-31M rlimit units depending on the z3 seed; the default cap is 30M).",
    technique="Verus contracts on the extracted EOF codec over sequence views; round trip as decode-soundness + encode-exactness",
    trusted=COMMON_TRUST + [
        "units/prelude/bytesview.rs: alloy-primitives 0.8.15 / bytes 1.7.1 Bytes contracts (Deref chain, len, slice(range) with "
        "its documented panic as precondition, split_off, From<Vec<u8>>, Clone, new, from_static)",
        "u16_from_be_bytes / to_be_bytes_ wrappers: big-endian value of two bytes (bodies are exactly the std calls)",
        "#[derive(Default)] of EofHeader and EofBody: every field its default (assumed)",
        "vstd's specifications of slice is_empty/len/index/range index/split_at, Vec::with_capacity/push/extend_from_slice/get, "
        "for-loops over &Vec, ranges and Iterator::map, the `?` operator on equal error types",
        "assume_specification on the compiled public methods carry the clause text proved on their extracted source (ledger)",
    ],
    assumptions=[
        "validation half of C26 NOT covered (whole-program property; named not applicable)",
        "EofBody::decode requires header_wf(header): calling it with a hand-built inconsistent header (sums not matching the size "
        "lists) can panic in Bytes::slice -- Eof::decode / decode_dangling always pass a decoded header",
        "Eof::encode_slow / EofHeader::encode require the section counts to fit their 16-bit count fields (<= 0xFFFF) and the total "
        "size to fit usize; proved to hold for every decoded container",
        "completeness of header decoding beyond the fixed-offset fields is not proved (soundness and round trip are)",
        "usize is at least 32 bits (Verus' model): all size sums stay below 2^32",
    ],
)
