import os
import re

from vf.propdefs import COMMON_TRUST

_REPO = os.environ.get("VERIF_REPO", "/repo")
_SRC = "crates/revm/src"
_OPS = ("checkpoint", "checkpoint_commit", "checkpoint_revert", "create_account_checkpoint")
# the only file allowed to touch the depth counter itself
_JOURNAL = "crates/revm/src/journaled_state.rs"


# ---------------------------------------------------------------------------------------------------
# Census guard (run on every check, on the working tree).  C07's proof covers the checkpoint call sites it KNOWS:
# every method call `.checkpoint(` / `.checkpoint_commit(` / `.checkpoint_revert(` / `.create_account_checkpoint(` and
# every assignment to a `.depth` field in crates/revm/src/**/*.rs outside journaled_state.rs must lie inside a function
# that is under a verified contract in unit frames (test functions `test_*` are ignored).  A hit outside makes the run
# UNDECIDED (coverage lost), never silently uncovered.
def _unit_functions():
    from vf import vunit
    parts, _ = vunit.parse_template(vunit.read_template("frames"))
    out = set()
    for kind, b in parts:
        if kind != "block" or b.assume:
            continue
        m = re.search(r"\bfn:(\w+)", b.spec)
        if m and (b.clauses.strip() or b.contract):
            out.add((b.path, m.group(1)))
    return out


def _fn_items(items, acc):
    for it in items:
        if it.kind == "fn":
            acc.append(it)
        _fn_items(it.children, acc)
    return acc


def _sites():
    from vf import extract
    sites = []
    for d, _, fs in os.walk(os.path.join(_REPO, _SRC)):
        for f in sorted(fs):
            if not f.endswith(".rs"):
                continue
            p = os.path.join(d, f)
            rel = os.path.relpath(p, _REPO)
            if rel == _JOURNAL:
                continue
            s = extract.load(p)
            fns = _fn_items(s.items, [])
            sig = s.sig
            for q in range(1, len(sig) - 2):
                k = sig[q]
                if s.toks[k][0] != "id" or s.tt(sig[q - 1]) != ".":
                    continue
                w = s.tt(k)
                hit = None
                if w in _OPS and s.tt(sig[q + 1]) == "(":
                    hit = "." + w + "("
                elif w == "depth" and (s.tt(sig[q + 1]) == "=" and s.tt(sig[q + 2]) != "="
                                       or s.tt(sig[q + 1]) in ("+", "-") and s.tt(sig[q + 2]) == "="
                                       or s.tt(sig[q + 1]) in ("+=", "-=")):
                    hit = ".depth assignment"
                if not hit:
                    continue
                best = None
                for it in fns:
                    if it.first <= k <= it.last and (best is None or it.first >= best.first):
                        best = it
                line = s.text.count("\n", 0, s.toks[k][1]) + 1
                sites.append((rel, line, hit, best.name if best else None))
    return sites


def census_checkpoint_call_sites():
    try:
        covered = _unit_functions()
        sites = _sites()
    except Exception as e:
        return False, "census could not run: " + str(e)
    bad = [f"{r}:{ln} `{w}` in fn {fn}" for (r, ln, w, fn) in sites
           if (r, fn) not in covered and not (fn or "").startswith("test_")]
    if bad:
        return False, "checkpoint operation outside the functions under contract in unit frames: " + "; ".join(bad)
    if not [x for x in sites if not (x[3] or "").startswith("test_")]:
        return False, "no checkpoint call site found at all (lost anchor: the scan no longer sees evm_context.rs)"
    return True, ""


def _census_text():
    try:
        return "census of this run: checkpoint operations outside journaled_state.rs at " + ", ".join(
            f"{r.split('/')[-1]}:{ln} {w} in {fn}" for (r, ln, w, fn) in _sites())
    except Exception as e:
        return "census failed: " + str(e)


PROP = dict(
    level="proof",
    units=["frames"],
    census=[census_checkpoint_call_sites],
    level_text="The three frame constructors EvmContext::make_call_frame / make_create_frame / make_eofcreate_frame, the private "
               "EvmContext::call_precompile and the three frame-return functions InnerEvmContext::call_return / create_return / "
               "eofcreate_return (crates/revm/src/context) are extracted VERBATIM on every run (incl. the `return_result` / "
               "`return_error` closures, the user Deref EvmContext -> InnerEvmContext, let-else, `?`) and verified by Verus against "
               "the REAL EvmContext<DB> / InnerEvmContext<DB> / JournaledState / CallInputs / CreateInputs / EOFCreateInputs / "
               "FrameOrResult of the compiled crates, for an arbitrary `DB: Database` (no assumption on database answers), all "
               "inputs, all journal states. Contract, written from the property with the literal 1024: (1) depth > 1024 ==> the "
               "answer is CallTooDeep and the WHOLE context is unchanged; depth <= 1024 ==> the answer is never CallTooDeep -- so "
               "nesting level 1024 below the transaction frame is reachable and 1025 is not; (2) every path that hands back "
               "Ok(Result) leaves depth' == depth (each checkpoint opened on the way was committed or reverted; a revert also puts "
               "the journal back to its length, a commit keeps its journal level by design); (3) Ok(Frame(f)) ==> depth' == depth + 1, "
               "|journal|' == |journal| + 1 and the checkpoint stored in the frame is (old |logs|, old |journal|); (4) *_return(cp): "
               "depth' == depth - 1 on the commit AND on every revert branch, commit iff the final result is a success "
               "(Continue/Stop/Return/SelfDestruct/ReturnContract written out in the contract, not taken from return_ok!); "
               "(5) Err(_) (database error, fatal precompile error): make_create_frame / make_eofcreate_frame depth' == depth; "
               "make_call_frame depth' in {depth, depth+1}. Also: make_call_frame hands inputs.is_static to the new interpreter "
               "(C10), the create constructors create non-static interpreters, answer with Gas::new(gas_limit), and create a frame "
               "only if the database answered has_storage(created) == Ok(false) (C21 / EIP-7610). The census guard checks on every "
               "run that no other function of crates/revm/src (outside journaled_state.rs) calls checkpoint / checkpoint_commit / "
               "checkpoint_revert / create_account_checkpoint or assigns a depth field.",
    level_note="Journal operations are used through the contract ledger (contracts/journal.vc: checkpoint, checkpoint_commit, "
               "load_account, touch, transfer, inc_nonce, depth, create_account_checkpoint; unit journal is re-run by this "
               "property's closure; gas.vc: Gas::new/limit/record_cost). LOCAL assumed contracts (labelled in units/frames.rs.in, "
               "to be replaced by ledger entries): JournaledState::checkpoint_revert -- the BOOKKEEPING part of the ledger entry "
               "(revert_pre; journal/logs cut back, depth - 1) WITHOUT its journal_inv precondition, because make_call_frame reverts "
               "after transfer answered OverflowPayment, where the ledger does not give journal_inv back (C06/C08 finding "
               "transfer_overflow_debits_sender); set_code, load_code, load_account_delegated (frame-only: they work on the last "
               "journal level), InnerEvmContext::balance (frame + loaded balance). TRUSTED WIRING, not decided here: (a) "
               "Evm::run_the_loop / handler mainnet::{call,create,eofcreate}(_return) pair every Frame handed out with exactly one "
               "*_return on that frame's stored checkpoint, and call nothing else that moves the depth (census covers the "
               "'nothing else' part textually); (b) precompile execution itself (ContextPrecompiles::call, also context-stateful "
               "precompiles): opens/closes no checkpoint, adds/removes no journal level, does not shrink the log; (c) "
               "Eof::decode_dangling / Eof::decode / validate_eof are functions of their argument only (no access to the context); "
               "eofcreate_return's `expect(\"Eof is already verified\")` is a PRECONDITION (ReturnContract output decodes); (d) the "
               "Deref/DerefMut impls of EvmContext (`&self.inner`) and StateLoad (`&self.data`); (e) `Frame` is opaque: revm does "
               "not export EOFCreateFrame, so Frame::EOFCreate's payload cannot be named; frames are seen through the public "
               "accessor Frame::frame_data, and FrameOrResult::new_call_frame / new_create_frame / new_eofcreate_frame (6-line "
               "constructors) are trusted to store checkpoint + interpreter; the three *_result constructors ARE verified; (f) "
               "Interpreter::new stores is_static / Gas::new(limit) and requires analysed bytecode, Contract::new* analyse it; (g) "
               "Address::create / create2 never return the creator itself (keccak). Preconditions (call-site facts): journal_inv "
               "(established by JournaledState::new, kept by the ledger) for the create constructors; *_return is called with a "
               "checkpoint of this journal that is still open (revert_pre) and, for creates, with the created account still loaded; "
               "code-deposit product len*200 fits u64; gas meter well-formed. OBSERVATION (not a finding): make_call_frame returns "
               "Err with the checkpoint still open when the database fails after `checkpoint()`; harmless because Evm::transact "
               "clears the journaled state on every error. DEFECT found and repaired: the InvalidExtDelegateCallTarget return "
               "(EXTDELEGATECALL to a non-EOF target) came after checkpoint() without commit/revert (see known_findings fixed line). "
               + _census_text(),
    trusted=COMMON_TRUST + [
        "units/prelude/ruint.rs (ruint 1.12.3 contracts over uval), units/prelude/state.rs (real journaled-state types, alloy "
        "hasher/key model, HashMap::get_mut) -- included without its opaque Bytecode / Database declarations, which unit frames "
        "re-declares (Bytecode transparent; Database with the provided method has_storage)",
        "ContextPrecompiles::call / contains, PrecompileError::is_oog: no checkpoint, no journal level, log does not shrink",
        "Frame::frame_data, FrameOrResult::new_call_frame / new_create_frame / new_eofcreate_frame (Frame is opaque)",
        "Interpreter::new / set_is_eof_init, Contract::new / new_with_context (contract_ready), to_analysed, Bytecode::new_legacy / "
        "bytes_slice / is_empty / clone, AccountInfo::code_hash, CfgEnv::max_code_size, Eof::decode / decode_dangling / clone, "
        "validate_eof, keccak256, Address::create / create2 (result != creator), SpecId::is_enabled_in (>=), Spec::enabled (>=)",
        "alloy Bytes: new (len 0), clone (equal), deref/len; Range<Idx>::clone field-wise; InstructionResult == / != is variant "
        "equality; EOF_MAGIC_BYTES / B256::ZERO through external_body wrappers whose body is exactly the constant",
        "<EvmContext<DB> as Deref/DerefMut>: `&self.inner` / `&mut self.inner`; <StateLoad<T> as Deref>: `&self.data`",
    ],
    assumptions=[
        "checkpoint_revert (local, bookkeeping only): requires revert_pre; depth - 1, journal cut to cp.journal_i, logs cut to cp.log_i",
        "set_code / load_code / load_account_delegated / InnerEvmContext::balance (local, frame-only): no checkpoint opened or closed, "
        "no journal level added, logs unchanged, journal_inv kept",
        "run_the_loop pairs every Frame with exactly one *_return on its stored checkpoint (wiring, DESIGN 2.9 item 4)",
        "the database may answer ANYTHING (external trait, no contract); db_has_storage_ret is a name for 'has_storage answered r', no axiom",
        "machine arithmetic is NOT treated as mathematical: `nonce - 1`, `len as u64 * CODEDEPOSIT` are overflow obligations",
    ],
)
