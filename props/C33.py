"""C33 -- Optimism transactions charge and distribute fees consistently (cargo feature `optimism`).

Decided by Verus (units `l1block` and `optimism`, both linked against the rlibs built WITH `--features optimism`) +
census guards (python, below) for what Verus cannot read: the closure that installs the handles, the `end` handle, the
vault address literals.
"""
import os
import re

from vf.propdefs import COMMON_TRUST

# -- census: text of the functions / constants this check TRUSTS (read once, pinned by hash; an edit => UNDECIDED) ------------
_PINS = [
    ("crates/revm/src/optimism/handler_register.rs", "fn:optimism_handle_register", "306f5f59198e73c5",
     "installs validation.env, validation.tx_against_state, pre_execution.load_precompiles, pre_execution.deduct_caller, "
     "execution.last_frame_return, post_execution.refund, post_execution.reimburse_caller, post_execution.output, .end, .clear "
     "UNCONDITIONALLY and post_execution.reward_beneficiary = Some(optimism reward_beneficiary) ONLY inside `if with_reward_beneficiary`"),
    ("crates/revm/src/optimism/handler_register.rs", "fn:end", "5669918198efa5ab",
     "Err(EVMError::Transaction(_)) of a deposit => Ok(Halt{FailedDeposit, gas_used = gas_limit (0 for a pre-Regolith system tx)}) with a "
     "state holding ONLY the caller: account read from the database, nonce + 1 (saturating), balance + mint (saturating), touched; "
     "every other outcome is returned as it is (closure capturing `context` mutably: outside Verus)"),
    ("crates/revm/src/optimism/l1block.rs", "impl:L1BlockInfo fn:try_fetch", "611aa7512729a155",
     "reads slots 1 (base fee), 5/6 (overhead, scalar; pre-Ecotone or empty scalars), 7 (blob base fee), 3 (scalars, bytes 16..20 / 20..24), "
     "8 (operator fee scalar bytes 20..24, constant bytes 24..32; from Isthmus) of 0x4200..0015; from Isthmus on both operator attributes are Some"),
    ("crates/revm/src/optimism/l1block.rs", "const:L1_FEE_RECIPIENT", "8eecefa497438ba7", "0x420000000000000000000000000000000000001A"),
    ("crates/revm/src/optimism/l1block.rs", "const:BASE_FEE_RECIPIENT", "ce566087bccddbdb", "0x4200000000000000000000000000000000000019"),
    ("crates/revm/src/optimism/l1block.rs", "const:OPERATOR_FEE_RECIPIENT", "891da09df1bc0d4c", "0x420000000000000000000000000000000000001B"),
    ("crates/revm/src/handler.rs", "impl:EvmHandler<'a,EXT,DB> fn:optimism", "7afe54ebec2a98e0",
     "Handler::mainnet::<SPEC>(flag) (switch == flag, C22) then the Optimism register built with THE SAME flag"),
    ("crates/revm/src/handler.rs", "impl:EvmHandler<'a,EXT,DB> fn:optimism_with_spec", "7f53b7491fd026d6", "spec_to_generic!(spec_id, Self::optimism::<SPEC>(flag))"),
]

# handles the register must install in BOTH cases (the caller is settled whatever the reward switch says), and the only one
# that may depend on the switch
_ALWAYS = ["validation.env", "validation.tx_against_state", "pre_execution.load_precompiles", "pre_execution.deduct_caller",
           "execution.last_frame_return", "post_execution.refund", "post_execution.reimburse_caller", "post_execution.output",
           "post_execution.end", "post_execution.clear"]
_SWITCHED = ["post_execution.reward_beneficiary"]


def census_trusted_text():
    from vf import extract, vunit
    extract.clear_cache()
    bad = []
    for path, spec, h, what in _PINS:
        try:
            it = extract.find(os.path.join(vunit.REPO, path), spec)
        except extract.ExtractError as e:
            bad.append(str(e))
            continue
        got = extract.sha(it.text())[:16]
        if got != h:
            bad.append(f"{path} {spec.split()[-1]}: text changed ({got} != pinned {h}); it was read as: {what}")
    if bad:
        return False, "a function/constant this check trusts by reading changed, re-read it and re-pin: " + "; ".join(bad[:3])
    return True, f"{len(_PINS)} trusted items unchanged"


def census_register_shape():
    """C22's Optimism clause, decided on the TEXT of optimism_handle_register: every handle of _ALWAYS is assigned outside the
    `if with_reward_beneficiary { .. }` block, to the Optimism function of the same name; only reward_beneficiary is inside."""
    from vf import extract, vunit
    extract.clear_cache()
    try:
        it = extract.find(os.path.join(vunit.REPO, "crates/revm/src/optimism/handler_register.rs"), "fn:optimism_handle_register")
    except extract.ExtractError as e:
        return False, str(e)
    t = re.sub(r"//[^\n]*", "", it.text())
    m = re.search(r"if\s+with_reward_beneficiary\s*\{", t)
    if not m or len(re.findall(r"with_reward_beneficiary", t)) != 2:
        return False, "optimism_handle_register: the reward switch is not read exactly once (`if with_reward_beneficiary {`)"
    depth, k = 1, m.end()
    while depth and k < len(t):
        depth += {"{": 1, "}": -1}.get(t[k], 0)
        k += 1
    inside, outside = t[m.end():k - 1], t[:m.start()] + t[k:]
    bad = []
    for h in _ALWAYS:
        fn = h.split(".")[1]
        fn = {"env": "validate_env", "tx_against_state": "validate_tx_against_state"}.get(fn, fn)
        pat = r"handler\s*\.\s*" + h.split(".")[0] + r"\s*\.\s*" + h.split(".")[1] + r"\s*="
        if re.search(pat, inside):
            bad.append(f"{h} is installed only when rewards are on")
        if not re.search(rf"handler\s*\.\s*{h.split('.')[0]}\s*\.\s*{h.split('.')[1]}\s*=\s*(?:Arc|Box)::new\(\s*{fn}::<", outside):
            bad.append(f"{h} is not installed unconditionally with optimism::{fn}")
    for h in _SWITCHED:
        if re.search(rf"handler\s*\.\s*{h.split('.')[0]}\s*\.\s*{h.split('.')[1]}\s*=", outside):
            bad.append(f"{h} is installed although rewards are off")
        if not re.search(rf"handler\s*\.\s*{h.split('.')[0]}\s*\.\s*{h.split('.')[1]}\s*=\s*Some\(\s*Box::new\(\s*reward_beneficiary::<", inside):
            bad.append(f"{h} is not Some(optimism::reward_beneficiary) when rewards are on")
    if bad:
        return False, "optimism_handle_register: " + "; ".join(bad[:4])
    return True, "10 handles installed unconditionally, reward_beneficiary only under the switch"


def census_balance_writers():
    """every textual write to `.balance` under crates/revm/src/optimism lies in a function under contract (or in `end`, pinned)"""
    from vf import extract, vunit
    extract.clear_cache()
    allowed = {"deduct_caller", "reimburse_caller", "reward_beneficiary", "end", "validate_tx_against_state"}
    bad = []
    root = os.path.join(vunit.REPO, "crates/revm/src/optimism")
    for f in sorted(os.listdir(root)):
        if not f.endswith(".rs"):
            continue
        text = open(os.path.join(root, f)).read()
        cut = text.find("#[cfg(test)]")
        body = text if cut < 0 else text[:cut]
        for m in re.finditer(r"\.balance\s*(?:\+=|-=|=(?!=))", body):
            head = body[:m.start()]
            fns = re.findall(r"\bfn\s+(\w+)", head)
            if not fns or fns[-1] not in allowed:
                bad.append(f"{f}: balance written in fn {fns[-1] if fns else '?'}")
    if bad:
        return False, "a balance is written outside the functions under contract: " + "; ".join(bad[:4])
    return True, "balances written only in deduct_caller / reimburse_caller / reward_beneficiary / validate_tx_against_state (dead branch) / end"


PROP = dict(
    level="proof",
    units=["optimism", "l1block"],
    census=[census_trusted_text, census_register_shape, census_balance_writers],
    technique="Verus contracts on the extracted Optimism fee functions (both units linked against the rlibs built with --features optimism) "
              "+ integer-algebra lemmas over the contracts + source census guards",
    level_text="UNIT l1block (crates/revm/src/optimism/l1block.rs, verbatim struct L1BlockInfo -- it has a pub(crate) field, so it is a local "
               "definition there and an opaque external type seen through the view l1v in unit optimism; same clause text, ledger): "
               "operator_fee_charge, operator_fee_refund, data_gas, tx_estimated_size_fjord, calculate_l1_fee_scaled_ecotone, "
               "calculate_tx_l1_cost, calculate_tx_l1_cost_bedrock / _ecotone / _fjord, clear_tx_l1_cost and the six fee constants. Oracle from the "
               "OP-stack spec with literal numbers on unbounded integers: rollup data gas = 4*zero bytes + 16*non-zero bytes (+ 68*16 = 1088 before "
               "Regolith); Bedrock (dataGas + overhead) * l1BaseFee * scalar / 1e6; Ecotone (16*baseFeeScalar*l1BaseFee + blobScalar*l1BlobBaseFee) "
               "* dataGas / 16e6 (Bedrock function while the Ecotone scalars are unset); Fjord max(100e6, 836_500*fastlz - 42_585_600) * l1FeeScaled "
               "/ 1e12; Isthmus operator fee gas*scalar/1e6 + constant, 0 before. Proved: every function returns EXACTLY the formula with its "
               "saturating steps spelled out, for every input, and (lemma_l1_cost_exact) THE FORMULA ITSELF whenever no intermediate product "
               "exceeds 256 bits; calculate_tx_l1_cost returns a cached cost unchanged, 0 for an empty / 0x7F-led envelope, else the fork's "
               "function and caches it (whole-view frame); operator_fee_refund == charge(limit) -sat charge(limit - unused) == fee(limit) - "
               "fee(used) (after fix 2a9bd4c6); lemma_operator_fee_net: charge(gas_limit) - refund(unused) == fee on the gas used. "
               "The byte fold `input.iter().fold(0, |acc, byte| ..)` is verified through an assumed left-fold contract of core::slice::Iter::fold "
               "(relational, so the closure's own verified postcondition -- literal 4 / 16 -- carries the result). "
               "UNIT optimism (crates/revm/src/optimism/handler_register.rs on the REAL generic Context<EXT, DB> with InnerEvmContext.l1_block_info "
               "and TxEnv.optimism): validate_env (deposit => Ok; else Ok iff header valid, no system tx from Regolith, stateless rules of C02); "
               "validate_tx_against_state (deposit => Ok, context untouched; accepted => caller loaded, envelope present, block info ready and "
               "NO state rule broken for the cost gas_limit*max_fee + value + max blob fee + L1 cost + operator fee(gas_limit) -- the only place an "
               "insufficient balance is detected; at the one site that builds LackOfFundForMaxFee the cost exceeds the balance (verified "
               "assertion)); deduct_caller (the mint is added FIRST, wrapping; then gas_limit*price (+ blob fee), then -- non-deposit only -- "
               "L1 cost and operator fee(gas_limit), each saturating at 0; PROPERTY: deposit balance' == balance + mint - gas_limit*price with NO "
               "L1 cost / operator fee, non-deposit balance' == balance - (gas_limit*price + blob fee + L1 cost + operator fee) whenever the "
               "sender can pay it; nonce + 1 for calls; L1 cost cached in the block info; all other accounts unchanged; never an "
               "out-of-funds error); reimburse_caller (+ price*(remaining + refunded); non-deposit additionally + operator fee refund; deposits: "
               "NO operator refund); reward_beneficiary (deposit => Ok and the WHOLE context unchanged; else for EVERY account k of the journaled "
               "state balance'(k) == the chain of the four credits in code order -- beneficiary (price -sat basefee)*used saturating, L1 Fee Vault + "
               "L1 cost, Base Fee Vault + basefee*used, Operator Fee Vault + operator fee(used), wrapping -- right whatever addresses coincide; "
               "PROPERTY: == balance + its shares whenever that is a 256-bit number; domain of the state grows by exactly the four recipients; "
               "nonce/code/storage of every account unchanged); last_frame_return (non-deposit or Regolith: C09's rule; pre-Regolith deposit: "
               "gas used == gas limit, no refund, a SUCCESSFUL system transaction uses 0; halt uses the whole limit); refund (EIP-3529 cap, not for "
               "pre-Regolith deposits); output (gas_used == spent - refunded; from Regolith a halted deposit => "
               "Err(HaltedDepositPostRegolith)); clear (journal reset as mainnet + l1_block_info = None); the mainnet reimburse_caller / "
               "reward_beneficiary / deduct_caller_inner / output / clear and the accessors CfgEnv::is_gas_refund_disabled, ExecutionResult::"
               "is_halt, InnerEvmContext::env / take_error RE-VERIFIED under the Optimism types. LEMMAS (integer algebra over the contracts): "
               "lemma_op_conservation: sender's net debit == price*used + blob fee + L1 cost + operator fee(used) == beneficiary + L1 vault + base "
               "fee vault + operator vault credits + blob fee (nothing else burnt or created); lemma_op_deposit_net: a deposit's balance changes by "
               "+ mint - price*used (price 0 on OP: exactly + mint), vaults and beneficiary get nothing; lemma_reward_chain_exact / "
               "lemma_reward_compose (composition of the four credits).",
    level_note="FIXED in /repo during the build (each demonstrated on the real crate, demos in mutations/C33/demos, both test suites pass): "
               "2a9bd4c6 operator_fee_refund did not divide by 1e6 (refund 1e6 times too large; through Evm::transact at Isthmus the sender GAINED "
               "78_999_899_950 wei; operator_fee.rs); c791953a optimism::validate_env skipped validate_block_env for deposits, so a Cancun+ block "
               "env without blob_excess_gas_and_price made Evm::transact PANIC (`expect(\"already checked\")` in deduct_caller_inner) for a "
               "deposit (deposit_panic.rs) -- now validate_env's postcondition establishes deduct_caller's Cancun precondition for EVERY "
               "transaction; bcb02e64 the EIP-2681 rule (nonce 2^64-1) was missing in the Optimism copy of validate_tx_against_state (nonce_max.rs). "
               "FINDINGS (twins fail, known_findings.txt, demos): deposit_type_byte_7f (calculate_tx_l1_cost tests 0x7F, the OP deposit type is "
               "0x7E; not observable through Evm::transact; pinned by the crate's tests), mint_wraps (deduct_caller `+=` wraps; `end` saturates), "
               "vault_credit_wraps (vault `+=` and basefee `mul` wrap; its twin is checked WITHOUT proof hints to keep the refutation cheap -- it "
               "fails with them as well). OBSERVATIONS about TRUSTED WIRING, demonstrated, no obligation possible, no fix: (c) a deposit that "
               "fails PRE-VERIFICATION (gas limit below the intrinsic gas) makes Evm::transact return Err(CallGasCostMoreThanGasLimit) before the "
               "`end` handle runs: no FailedDeposit receipt, mint and nonce bump NOT persisted (deposit_intrinsic.rs) -- the property's 'even when "
               "it fails' clause therefore holds only for failures AFTER pre-verification; (d) blob (type-3) transactions are not rejected "
               "although Ecotone disables them: their blob fee B is burnt (explicit term of the conservation lemma); (e) pre-Regolith REVERTED "
               "system deposits report gas used == gas limit (successful ones 0), as the code comment says. "
               "READING: 'reimburse NOT for "
               "deposits' holds for the operator fee refund (and L1 cost); the gas reimbursement price*unused mirrors what deduct_caller_inner "
               "charged (both 0 at the deposit gas price 0). 'OutOfFunds error iff insufficient': deduct_caller never fails for lack of funds "
               "(saturating subtraction); validate_tx_against_state is the only check, and only for non-deposits. Balances are stated for "
               "accounts already in the journaled state (the caller always is after validation / deduct_caller); for an account loaded from the "
               "database in the call only the frame is proved. On the ERROR exits of the handlers Verus does not see which error value an "
               "`expr?` exit carries: 'which error' is stated only where the value is built explicitly (HaltedDepositPostRegolith, "
               "DepositSystemTxPostRegolith). NOT UNDER CONTRACT: optimism_handle_register (Box<dyn Fn> closure assigning Arc<dyn Fn> handles: "
               "census on its text -- each of the 10 caller-settling handles installed unconditionally with the Optimism function of the same "
               "name, reward_beneficiary only inside `if with_reward_beneficiary`; with the flag false the field keeps what Handler::mainnet::<SPEC>"
               "(false) put there: None -- C22's Optimism clause holds for Handler::optimism(flag), NOT for the register applied to a handler "
               "built with rewards on); `end` (closure capturing `context` mutably: 'not currently supported'; Kani ICEs on crate revm) -- the "
               "failed-deposit clause (nonce bumped, mint persisted, FailedDeposit gas rules) is TRUSTED BY READING, pinned by hash; "
               "L1BlockInfo::try_fetch (Database answers have no contract; `.then(|| ..).transpose()?`) -- assumed to deliver both operator fee "
               "attributes from Isthmus on; load_precompiles (precompile sets, not fee related); fast_lz::flz_compress_len: its RESULT is the UNINTERPRETED "
               "flz_len(input) (external_body copy that the cost functions call: the only assumption is determinism of a pure function); a second "
               "copy of the verbatim text and its six helpers (literals, cmp, flz_match, set_next_hash, hash, u24) IS verified for PANIC-FREEDOM: "
               "every slice / hash-table index in range and no u32 overflow for every input shorter than 2^30 bytes (loop invariants: table "
               "entries < idx, size <= 2*anchor, anchor + 5 <= len).",
    trusted=COMMON_TRUST + [
        "cargo feature `optimism`: both units are linked against a second rlib set (`cargo +1.98.1 build -p revm --features optimism`)",
        "units/prelude/ruint.rs (ruint contracts), prelude/state.rs (real JournaledState/Account declarations, AccountStatus bit model, HashMap "
        "key-model axioms, ruint `+=` wrapping), prelude/env.rs (real Env family; Spec::enabled; Bytes views)",
        "ledger (contracts proved in units built with DEFAULT features, on function texts that contain no cfg(feature = optimism)): gas.vc (Gas "
        "methods), validate.vc (Env::effective_gas_price / calc_data_fee / calc_max_data_fee / validate_block_env / validate_tx, CfgEnv::is_*_disabled), "
        "journal.vc (JournaledState::load_account / load_code / clear / finalize, Account::mark_touch), gascalc.vc (SpecId::is_enabled_in), "
        "fees.vc (FrameResult accessors, Output::into_data); optimism.vc (unit l1block), ophandler.vc (unit optimism)",
        "ASSUMED std: core::slice::Iter::fold is the left fold (relation fold_rel); Box::as_ref; StateLoad Deref/DerefMut is `data`; EvmContext "
        "Deref/DerefMut is `inner`; Bytes::clone is the same bytes; SuccessOrHalt::from uninterpreted; Uint::default() == 0; ruint AddAssign wraps",
        "ASSUMED: L1BlockInfo::try_fetch returns a block info without cached cost and, from Isthmus on, with both operator fee attributes",
        "ASSUMED: flz_compress_len(input) == flz_len(input) (uninterpreted function of the bytes: determinism; external_body copy of the verbatim "
        "text -- its panic-freedom is proved on a second copy)",
        "wrappers OP_L1_FEE_RECIPIENT / OP_BASE_FEE_RECIPIENT / OP_OPERATOR_FEE_RECIPIENT (body = the real constants, uninterpreted values; "
        "their literals 0x4200..001A / ..0019 / ..001B pinned by census)",
        "recorded substitutions: SPEC::SPEC_ID -> spec_id_exec::<SPEC>(), SPEC::enabled(REGOLITH) -> SPEC::enabled(SpecId::REGOLITH) (path), "
        "U256::ZERO -> U256_ZERO, mainnet::f -> mainnet_f (renamed re-extracted copies), closure heads annotated (|acc, byte|, three "
        "and_then closures, map_err(EVMError::Database) eta-expanded), vault constants -> wrappers",
        "WIRING (crates/revm/src/evm.rs transact / preverify_transaction_inner / transact_preverified_inner, dyn handler tables): the order "
        "validate_env, validate_initial_tx_gas, validate_tx_against_state, load_accounts, load_precompiles, deduct_caller, first frame, "
        "last_frame_return, refund, EIP-7623 floor block, reimburse_caller, reward_beneficiary, output, end, clear -- with the SAME Gas value; "
        "that the handler fields are the functions optimism_handle_register installs (census on its text); PostExecutionHandler::"
        "reward_beneficiary doing NOTHING when its Option is None (C22)",
    ],
    assumptions=[
        "FINDINGS deposit_type_byte_7f, mint_wraps, vault_credit_wraps: the verified contracts state what the code does (0x7F; `% 2^256`), the "
        "property-level twins fail and are listed in known_findings.txt",
        "envelope shorter than 2^30 bytes (FastLZ estimator: u32 positions; the byte-cost fold adds at most 16 per byte in u64)",
        "operator_fee_charge / operator_fee_refund / the non-deposit handlers: from Isthmus on the block info carries operator_fee_scalar and "
        "operator_fee_constant (`.expect(..)` otherwise; try_fetch reads them); non-deposit handlers: l1_block_info is Some "
        "(validate_tx_against_state establishes it: postcondition l1_ready)",
        "deduct_caller: Cancun => blob_excess_gas_and_price is Some (validate_env's postcondition, for every transaction since c791953a); fewer "
        "than 2^47 blob hashes",
        "last_frame_return: returned meter well formed, remaining <= tx.gas_limit; refund / reimburse / reward / output: refund counter >= 0, "
        "0 <= refunded <= spent, meter limit == tx.gas_limit (postconditions of last_frame_return / refund)",
        "handlers that load an account: the journal has at least one level",
        "machine arithmetic is NOT treated as mathematical: u64 `+`/`-` in the bodies are overflow obligations; U256 operations are their "
        "wrapping / saturating / checked ruint contracts",
    ],
)
