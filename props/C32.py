from vf.propdefs import COMMON_TRUST

PROP = dict(
    level="proof",
    units=["blob"],
    level_text="fake_exponential, calc_blob_gasprice, calc_excess_blob_gas (crates/primitives/src/utilities.rs), the four "
               "blob constants of constants.rs, and from env.rs BlobExcessGasAndPrice::{new, from_parent_and_target}, "
               "BlockEnv::{set_blob_excess_gas_and_price, get_blob_gasprice, get_blob_excess_gas}, TxEnv::get_total_blob_gas, "
               "Env::{calc_data_fee, calc_max_data_fee} are extracted verbatim on each run and verified by Verus (the env.rs "
               "structs against the REAL U256/Address/B256/Bytes/TxKind/AccessListItem/AuthorizationList/CfgEnv of the "
               "compiled revm_primitives). Oracle = the python helpers of EIP-4844 over mathematical integers: fe_spec is "
               "the fake_exponential loop as a recursion on (i, output, numerator_accum) (terminating: lexicographic measure "
               "(max(0, n - d*i + 1), accum)); fe_fits is the same recursion stating that every value the u128 code forms "
               "(output+accum, accum*numerator, denominator*i, i+1) is < 2^128. Proved, for ALL u64 arguments: "
               "fake_exponential: requires denominator != 0 and fe_fits(f,n,d), ensures r == fe_spec(f,n,d) and r >= f, "
               "TOTAL correctness (the while loop carries the same decreases measure; loop invariant: exec state == spec "
               "state at step i). fe_fits is monotone in the numerator (lemma_fits_monotone, induction) and "
               "fe_fits(1, 192204552, 3338477), fe_fits(1, 284284038, 5007716) hold by computation, hence "
               "calc_blob_gasprice(excess, is_prague) == fe_spec(1, excess, 3338477 | 5007716) >= 1 for EVERY "
               "excess_blob_gas <= N0 with N0 = 192204552 (Cancun fraction) / 284284038 (Prague fraction); these N0 are the "
               "exact maxima (lemma_domain_is_tight: N0+1 does not fit). calc_excess_blob_gas(e,u,t) == min(max(0, e+u-t), 2^64-1) "
               "(mathematical) for ALL arguments, no precondition: exact whenever the EIP value is representable in u64, "
               "saturating otherwise (since /repo fix e68fb997 the sum is formed in u128). Constants checked against the EIPs' literals "
               "(GAS_PER_BLOB 131072, MIN_BLOB_GASPRICE 1, update fractions 3338477 / 5007716, targets 3*/6*GAS_PER_BLOB "
               "== 393216 / 786432). BlobExcessGasAndPrice::new / from_parent_and_target and "
               "BlockEnv::set_blob_excess_gas_and_price: whole-value postconditions (stored excess, stored price == "
               "fe_spec, all other BlockEnv fields unchanged). TxEnv::get_total_blob_gas == 131072 * blob count.",
    level_note="DOMAIN: the price contract is stated on fe_fits (precondition), i.e. excess_blob_gas <= 192204552 / "
               "284284038 (about 489 / 723 consecutive full blocks, +393216 excess each; the price there is about 1e25 / 4.5e24 wei per blob gas). OUTSIDE this domain the code is NOT exact and the unit "
               "proves it cannot be: lemma_gap_between_result_fits_and_code_fits shows the EIP value at N0+1 is about 2^83 (fits in 128 "
               "bits) while `numerator_accum * numerator` exceeds 2^128. FINDING (reproduced on the real crate, release "
               "profile = no overflow checks): fake_exponential(1, 192204553, 3338477) returns 5089730449835472321748656, the "
               "EIP value is 10079296854086811361005191; calc_blob_gasprice(200000000, false) returns "
               "5448248405279283718928058 instead of 104116911553853437920042949; fake_exponential(1, u64::MAX, 3338477) does not return within 30 s "
               "(>= 5.5e12 iterations after wrapping). In debug builds the same calls panic ('attempt to multiply/add with "
               "overflow'). So the property's clauses 'equals the EIP value whenever that value fits in 128 bits' and 'never "
               "silently returns a wrapped value' are FALSE for fake_exponential / calc_blob_gasprice outside the stated "
               "domain. This is RECORDED, NOT REPAIRED: the property-level contracts are kept in the unit as finding "
               "obligations (fake_exponential__finding_fe_wraps_u128_intermediates, "
               "calc_blob_gasprice__finding_price_wraps_u128_intermediates: `requires fe_spec(..) < 2^128 ensures r == "
               "fe_spec(..)`), they fail with 'possible arithmetic overflow' and are listed in known_findings.txt (never "
               "counted as discharged). Why not repaired: exactness on 192204553 .. about 2.96e8 (where the value still "
               "fits) needs 256-bit intermediates in the Taylor loop; checked u128 arithmetic alone would only turn the "
               "wrong value into a panic and would not restore exactness. The same defect class in calc_excess_blob_gas "
               "(u64 sum wrapped: (u64::MAX, 1, 393216) returned 0) WAS repaired in /repo e68fb997 and its property-level "
               "contract now verifies without precondition. "
               "WEAK CONTRACTS: BlockEnv::get_blob_gasprice / get_blob_excess_gas, Env::calc_data_fee / calc_max_data_fee "
               "are proved only for the None/Some shape of the result and for absence of panics/overflow in their closure "
               "bodies; the value inside Some(..) is NOT proved, because Verus gives an un-annotated closure (`.map(|a| ..)`) "
               "no postcondition and annotating it would alter the extracted text. "
               "Trusted: Verus/z3 incl. the by(compute_only) interpreter (168 / 166 recursion steps for the two domain facts); "
               "core::panicking::assert_failed is given `requires false` (the assert_ne! branch must be unreachable: proved "
               "from denominator != 0); vstd's u64::saturating_sub, Option::map/as_ref, Vec::len specifications; ruint "
               "Uint::from / saturating_mul contracts of units/prelude/ruint.rs + axiom ru_from_val::<u128> (used only for "
               "panic-freedom inside calc_data_fee / calc_max_data_fee).",
    trusted=COMMON_TRUST + [
        "assume_specification core::panicking::assert_failed requires false (panic branch of assert_ne! is an obligation, not an assumption about the code)",
        "vstd specifications: u64::saturating_sub, Option::map, Option::as_ref, Vec::len",
        "units/prelude/ruint.rs: assumed contracts of ruint 1.12.3 (only Uint::from::<u128|u64> and saturating_mul are exercised, "
        "for panic-freedom of Env::calc_data_fee / calc_max_data_fee); axiom_ru_from_val_u128 (local)",
        "external types of revm_primitives declared opaque: FixedBytes<N>, Address, Bytes, TxKind, AccessListItem, AuthorizationList, CfgEnv",
        "--no-trait-conflicts (alloy's derived IntoIterator on FixedBytes; the unit defines no trait impls)",
    ],
    assumptions=[
        "fake_exponential: denominator != 0 (otherwise it panics by assert_ne!, as documented) and fe_fits(factor, numerator, denominator)",
        "calc_blob_gasprice / BlobExcessGasAndPrice::new / BlockEnv::set_blob_excess_gas_and_price: excess_blob_gas <= 192204552 "
        "(is_prague == false) resp. <= 284284038 (is_prague == true); beyond that the u128 products overflow: release builds "
        "return a wrapped (wrong) value or loop for > 10^12 iterations, debug builds panic -- known finding (known_findings.txt, 2 finding obligations), see level_note",
        "BlobExcessGasAndPrice::from_parent_and_target: max(0, parent_excess + parent_used - target) lies in the price domain above "
        "(calc_excess_blob_gas itself has no precondition)",
        "TxEnv::get_total_blob_gas (and the two data-fee functions): blob_hashes.len() < 2^47 (a Vec<B256> that long cannot be "
        "allocated); without it GAS_PER_BLOB * len is an overflow obligation",
        "machine arithmetic is NOT treated as mathematical: every + * / on u64/u128 in the extracted bodies is an overflow / "
        "division-by-zero obligation",
        "value of Some(..) returned by get_blob_gasprice / get_blob_excess_gas / calc_data_fee / calc_max_data_fee is not covered (closures)",
    ],
)
