from vf.propdefs import COMMON_TRUST

PROP = dict(
    level="proof",
    units=["validate"],
    aux_units=["evmwire"],
    level_text="Env::validate_block_env, Env::validate_tx, Env::validate_tx_against_state, Env::effective_gas_price, "
               "Env::calc_data_fee, Env::calc_max_data_fee, TxEnv::get_total_blob_gas, BlockEnv::get_blob_gasprice, the four "
               "CfgEnv::is_*_disabled accessors (crates/primitives/src/env.rs), AuthorizationList::len / is_empty "
               "(eip7702/authorization_list.rs), the constants MAX_CODE_SIZE / MAX_INITCODE_SIZE / VERSIONED_HASH_VERSION_KZG / "
               "GAS_PER_BLOB, and validate_env / validate_initial_tx_gas (crates/revm/src/handler/mainnet/validation.rs) are "
               "extracted verbatim on each run and verified by Verus against the REAL Env / TxEnv / BlockEnv / CfgEnv / Account / "
               "AccountInfo / InvalidTransaction / InvalidHeader / EVMError / InitialAndFloorGas of the compiled crates. ORACLE "
               "(contracts/validate.vc): tx_invalid_reason(env, spec) / state_invalid_reason(env, spec, account) -- the rule "
               "list of the property as 'first broken rule', each rule from its EIP with literal numbers (EIP-155 chain id; block "
               "gas limit; EIP-2930 no access list before Berlin; EIP-1559 priority <= max fee and max fee >= base fee; EIP-3860 "
               "initcode <= 2*24576 = 49152 (or twice the configured code-size limit); EIP-4844 no blob fields before Cancun, "
               "max_fee_per_blob_gas >= blob base fee, >= 1 blob, not a create, version byte 0x01 on every hash, count <= blob "
               "schedule max (6 / 9, EIP-7840 list); EIP-7702 no list before Prague, list non-empty, no blob fields; EIP-3607 sender "
               "without code unless EIP-7702 delegation; nonce equal; upfront cost gas_limit*max_fee + value + "
               "max_fee_per_blob_gas*131072*blobs in UNBOUNDED integers: >= 2^256 => OverflowPaymentInTransaction, > balance => "
               "LackOfFundForMaxFee{fee,balance}), in the order the code reports them. Proved for ALL field values and ALL SpecIds: "
               "validate_block_env returns exactly Err(first broken header rule) / Ok; validate_tx returns Err(e) iff e is the "
               "first broken stateless rule and Ok iff none (whole-value equality on the InvalidTransaction, incl. "
               "TooManyBlobs{have}); validate_tx_against_state likewise for code / nonce / balance AND the frame *final(account) "
               "== *old(account) (default features: the balance-patch branch is dead, so neither rejection nor acceptance "
               "writes); validate_initial_tx_gas returns Err(CallGasCostMoreThanGasLimit) iff intrinsic > gas_limit, else "
               "Err(GasFloorMoreThanGasLimit) iff Prague and floor > gas_limit, else Ok(both values); validate_env is Ok iff no "
               "header rule and no stateless rule is broken. The `for blob in ..` loop carries the invariant 'all earlier hashes "
               "start with 0x01'. The helper contracts (effective price, blob fee, total blob gas) are whole-value and unbounded.",
    level_note="FINDINGS: three disagreements found by the first build of this property were FIXED in /repo and the verified "
               "contracts are now the property-level ones for ALL inputs (known_findings.txt `fixed:` lines): fee_sum_wraps / "
               "valid_fee_cap_rejected (effective_gas_price added base_fee + priority_fee with U256's wrapping `+` and a valid "
               "transaction was rejected; 7ad06213 saturating_add), eip7702_null_destination_accepted (EIP-7702 forbids a nil "
               "destination; 2eca1e78, reported as AuthorizationListInvalidFields, last stateless rule of the oracle), "
               "eip2681_nonce_max_accepted (nonce 2^64-1 was accepted; 52c6d0f9 NonceOverflowInTransaction). REMAINING "
               "FINDING max_blob_fee_saturates (explicit clause of the verified contract + failing property-level twin listed in "
               "known_findings.txt, replayed on the real crate): the blob part of the upfront cost is a saturating product; when it "
               "saturates and the rest of the cost is 0 the verdict is LackOfFund / Ok instead of OverflowPayment. "
               "NOT proved: CfgEnv::blob_max_count (iter().rev().find_map: iterator adapters) -- "
               "ASSUMED to return the blob-schedule entry blob_schedule_max(list, spec) (last list item whose fork is enabled, "
               "else 6); gas::calculate_initial_tx_gas (iterator adapters) -- ASSUMED contract: an uninterpreted function of its "
               "five arguments (initial_tx_gas_of) with the two result fields; its formula is checked only by C14's BOUNDED Kani "
               "harnesses. validate_env: Verus leaves the VALUE produced by the `?` operator's From conversion unspecified, so "
               "only Ok/Err is proved there (the error kinds are proved on the callees). Handler-level "
               "validate_tx_against_state (loads the caller through the journal, then calls Env::validate_tx_against_state): "
               "see units/fees (C09) / journal (C06). 'REJECTION HAS NO EFFECT': proved here = the validation functions only "
               "read (Env is passed by shared reference; the one &mut Account is proved unchanged); "
               "WIRING now PROVED (aux unit evmwire, crates/revm/src/evm.rs verbatim on the real Evm/Handler/Context): Evm::clear runs the handler's post_execution().clear on the context, and Evm::preverify_transaction, Evm::transact_preverified and Evm::transact reach EVERY exit (Ok and Err, incl. the `?` exits on a validation / initial-gas error) with `clear` as the last thing done to the context (evm_fresh(final context)); the inner functions preverify_transaction_inner / transact_preverified_inner and the `end` handle are given NO contract (arbitrary result and state). STILL TRUSTED: the handler table holds the mainnet functions (PostExecutionHandler::clear dispatches a Box<dyn Fn> -- assumed to establish evm_fresh; mainnet::clear's effect is proved in unit fees on journal's JournaledState::clear); the order of calls INSIDE transact_preverified_inner; two recorded substitutions in evmwire: closure parameter `|_|` named, and `.inspect_err(|_e| self.clear())` (closure capturing &mut self: outside Verus) replaced by its defunctionalised form `if res.is_err() { self.clear() }; res`, whose body is verified. That clear() resets journal and error: units journal / fees; multi-transaction "
               "histories on one Evm instance are not decided. CFG FEATURES: the default feature set has every optional_* "
               "feature OFF; the extractor does not evaluate cfg attributes, the unit selects the `#[cfg(not(feature = ..))]` "
               "alternative of each CfgEnv::is_*_disabled accessor by ordinal (`#1`), keeps the attribute (rustc evaluates it: "
               "no feature is set for the unit crate), and the real CfgEnv of the rlib (built with default features) has no "
               "disable_* field. Closures: Verus gives an un-annotated closure no postcondition; seven closure heads get a "
               "parameter type and a GHOST ensures by recorded textual substitution (bodies stay the source text). "
               "`SPEC::SPEC_ID` -> spec_id_exec::<SPEC>() and the for-loop's ghost iterator name are substitutions too.",
    trusted=COMMON_TRUST + [
        "units/prelude/ruint.rs: assumed contracts of ruint 1.12.3 (from, ==, <, >, checked_add, checked_mul, saturating_mul, wrapping +, cmp; uval < 2^BITS)",
        "units/prelude/env.rs: transparent declarations of the real revm_primitives types; Spec::enabled(f) == (SPEC_ID >= f) "
        "(provided trait method, no override in /repo); spec_id_exec wrapper for the associated const; core::cmp::min; "
        "Uint::default() == 0; alloy Bytes::deref / bytes::Bytes::len / deref (length and byte views), FixedBytes index "
        "(byte view, in-range precondition), TxKind::is_create, Bytecode::is_empty / is_eip7702 (uninterpreted views: 'no code' / "
        "'EIP-7702 designation'), From<InvalidTransaction|InvalidHeader> for EVMError",
        "vstd specifications of Option::{map, and_then, ok_or, unwrap_or, unwrap_or_default, expect, as_ref, is_some}, u64::cmp, "
        "Vec::{len, is_empty, iter}, Box::new, usize::saturating_mul, the for-loop iterator model of slice::Iter",
        "assume_specification on the compiled Env::* / TxEnv::* / BlockEnv::* / CfgEnv::is_*_disabled / AuthorizationList::* "
        "methods carry the clause text that the same unit proves on their extracted source (public inherent methods of external "
        "types cannot be shadowed; same crate, same run: the rlibs are built from the tree the text is extracted from)",
        "ASSUMED: CfgEnv::blob_max_count == blob_schedule_max(blob_target_and_max_count, spec) (iterator adapters; not proved)",
        "ASSUMED: gas::calculate_initial_tx_gas == initial_tx_gas_of(args) (uninterpreted; bounded Kani only, C14)",
        "WIRING: Evm::transact / preverify_transaction_inner call validate_env, validate_initial_tx_gas, validate_tx_against_state "
        "in this order and run post_execution().clear on the error path (crates/revm/src/evm.rs, dyn handler table)",
    ],
    assumptions=[
        "FINDING max_blob_fee_saturates: the state oracle is verified where max_fee_per_blob_gas * blob_gas < 2^256; the exact "
        "behaviour beyond (saturated addend) is in the verified contract (max_upfront_cost_impl); the twin fails",
        "validate_tx requires header_valid (validate_block_env ran first: `expect(\"already checked\")`); "
        "validate_tx_against_state requires the caller's code to be loaded (documented panic) and fewer than 2^47 blob hashes "
        "(unchecked u64 product in get_total_blob_gas; validate_tx bounds the count by 255)",
        "tx.nonce == None / tx.chain_id == None mean 'check skipped' (API convention of TxEnv), as the oracle states",
        "default feature set (optional_* OFF, c-kzg ON); other feature sets are not covered",
        "machine arithmetic is NOT treated as mathematical: every + - * on u64/usize in the extracted bodies is an overflow obligation",
    ],
)
