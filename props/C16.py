import importlib.util, os
_s = importlib.util.spec_from_file_location("verif_prop_C15_shared", os.path.join(os.path.dirname(os.path.abspath(__file__)), "C15.py"))
_m = importlib.util.module_from_spec(_s); _s.loader.exec_module(_m)

PROP = dict(
    level="other",
    engine="verus",
    units=["acctstate"],
    explanation="Only helper obligations are discharged; the function that carries the property (TransitionAccount::update, and "
                "BundleState::apply_transitions_and_create_reverts / to_plain_state around it) is outside the verifier's subset, "
                "so no proof of the property is claimed. What IS proved (Verus, unbounded, verbatim code): "
                "TransitionAccount::present_bundle_account == {info: post info, original_info: pre info, storage, status} and "
                "original_bundle_account == {pre info twice, empty storage, previous_status} (the two bundle accounts a transition "
                "denotes); new_empty_eip161; previous_balance / current_balance; StorageSlot::{new, new_changed, is_changed, "
                "original_value, present_value}; the producers of transitions selfdestruct / touch_empty_eip161 / "
                "increment_balance / drain_balance return previous_* == pre-state and info/status/storage == post-state, so "
                "consecutive transitions of one account chain (t2.previous == t1.post), which is the precondition under which "
                "'update == sequential application' is meaningful. " + _m.STATUS_TEXT,
    level_text="helper contracts only (see explanation); TransitionAccount::update is not verified",
    level_note=_m.LEFT_OUT + " " + _m.PLUMBING + " No Stage-3 fold lemma is stated for C16: it would have to stand on a contract "
               "of TransitionAccount::update that is not discharged against the code.",
    technique="Verus contracts on verbatim-extracted helper functions",
    trusted=_m.ACCT_TRUST,
    assumptions=["TransitionAccount::update (for-loop over HashMap::into_iter + entry API) is NOT verified: the merge schedule claim rests on it",
                 "BundleState::apply_transitions_and_create_reverts / to_plain_state: trusted plumbing"],
    rule="one evaluation per Verus obligation (each a distinct extracted function or lemma)",
)
