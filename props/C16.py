import importlib.util, os
_s = importlib.util.spec_from_file_location("verif_prop_C15_shared", os.path.join(os.path.dirname(os.path.abspath(__file__)), "C15.py"))
_m = importlib.util.module_from_spec(_s); _s.loader.exec_module(_m)

PROP = dict(
    level="other",
    engine="verus+kani",
    units=["acctstate"],
    kani=_m.K16,
    explanation="Only helper obligations are discharged; the function that carries the property (TransitionAccount::update, and "
                "BundleState::apply_transitions_and_create_reverts / to_plain_state around it) is outside the verifier's subset, "
                "so no proof of the property is claimed. BOUNDED STAND-IN for TransitionAccount::update (Kani on the real file, "
                "kani/kstates/src/c16.rs, 8 instances = the existence patterns before t1 / after t1 / after t2, statuses symbolic "
                "within the pattern, infos symbolic, storage maps EMPTY): update(t2) == applying t1 then t2 as far as info and "
                "status go -- previous_info / previous_status from t1, info / status from t2, storage_was_destroyed == flag(t1) || "
                "flag(t2); reported under bounded_obligations, never counted as proved. The storage merge of update() (present "
                "from t2, original from t1, entry dropped when back at the original value, t1's slots dropped when t2 destroys) "
                "is checked by NOTHING: " + _m.KSTATES_COST + " What IS proved (Verus, unbounded, verbatim code): "
                "TransitionAccount::present_bundle_account == {info: post info, original_info: pre info, storage, status} and "
                "original_bundle_account == {pre info twice, empty storage, previous_status} (the two bundle accounts a transition "
                "denotes); new_empty_eip161; previous_balance / current_balance; StorageSlot::{new, new_changed, is_changed, "
                "original_value, present_value}; the producers of transitions selfdestruct / touch_empty_eip161 / "
                "increment_balance / drain_balance return previous_* == pre-state and info/status/storage == post-state, so "
                "consecutive transitions of one account chain (t2.previous == t1.post), which is the precondition under which "
                "'update == sequential application' is meaningful. " + _m.STATUS_TEXT,
    level_text="helper contracts only (see explanation); TransitionAccount::update: bounded Kani stand-in for its info / status / wipe-flag part on empty storage maps, its storage merge is not verified",
    level_note=_m.LEFT_OUT + " " + _m.PLUMBING + " No Stage-3 fold lemma is stated for C16: it would have to stand on a contract "
               "of TransitionAccount::update that is not discharged against the code.",
    technique="Verus contracts on verbatim-extracted helper functions; bounded Kani harnesses on the real transition_account.rs",
    trusted=_m.ACCT_TRUST + _m.KSTATES_TRUST,
    assumptions=["TransitionAccount::update (for-loop over HashMap::into_iter + entry API) is NOT verified (bounded stand-in on empty storage maps only): the merge schedule claim rests on it",
                 "domain of the bounded stand-in: t2 is a single-event transition chained to t1 (t2.previous_* == t1 post-state), as State::commit produces them; a CREATE never lands on an account in status Changed (collision rule, C21)",
                 "BundleState::apply_transitions_and_create_reverts / to_plain_state: trusted plumbing"],
    rule="one evaluation per Verus obligation (each a distinct extracted function or lemma)",
)
