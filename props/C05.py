from vf.propdefs import COMMON_TRUST

_SPECS = ["frontier", "homestead", "tangerine", "spurious_dragon", "byzantium", "petersburg", "istanbul", "berlin",
          "london", "merge", "shanghai", "cancun", "prague", "osaka", "latest"]

PROP = dict(
    level="proof",
    engine="kani",
    units=[],
    kani=[dict(crate="kinterp", harness="c05::ops_" + s, bounded=False, timeout=600, mem_gb=12) for s in _SPECS]
         + [dict(crate="kinterp", harness="c05::spec_to_generic_classes", bounded=False, timeout=300, mem_gb=8)],
    technique="Kani: pre/post assertion on every entry of the real instruction table, opcode byte fully symbolic (complete over 256 x 15 Spec types x legacy/EOF mode)",
    level_text="COMPLETE finite-domain proof (Kani/CBMC, no data-dependent loops): for each of the 15 generic Spec types the opcode byte is "
               "symbolic over all 256 values and dispatched through the real make_instruction_table::<H, SPEC>(); with an empty stack and zero gas "
               "the instruction answers NotActivated / OpcodeNotFound / EOFOpcodeDisabledInLegacy / ReturnContractInNotInitEOF iff the opcode does "
               "not exist at that fork according to an independent activation table written from the EIPs; fork-gated opcodes answer NotActivated "
               "exactly below their fork and change nothing else; spec_to_generic! sends every SpecId to a Spec type of the same activation class.",
    level_note="Trusted: Kani/CBMC; the oracle table in kani/kinterp/src/c05.rs (EIP list); instruction gating is `if const {..}` on SPEC, so it cannot "
               "depend on interpreter state (that is why one state per opcode suffices). NOT covered: precompile address sets per fork "
               "(revm-precompile does not go through kani-compiler with its C dependencies; PrecompileSpecId::from_spec_id is not under contract yet); "
               "EOF container validation deciding which opcodes may appear in EOF code.",
    trusted=COMMON_TRUST,
    assumptions=[
        "empty stack + zero gas make every active instruction stop before touching the host; the stub host's unreachable!() proves the host is never reached",
        "precompile activation part of C05 is not decided by this check",
    ],
)
