from vf.propdefs import COMMON_TRUST

_SPECS = ["frontier", "homestead", "tangerine", "spurious_dragon", "byzantium", "petersburg", "istanbul", "berlin",
          "london", "merge", "shanghai", "cancun", "prague", "osaka", "latest"]

PROP = dict(
    level="proof",
    engine="kani",
    units=[],
    # PrecompileSpecId::from_spec_id + the generation/activation lemma are proved in unit `precompile` (claimed by C23)
    aux_units=["precompile"],
    kani=[dict(crate="kinterp", harness="c05::ops_" + s, bounded=False, timeout=600, mem_gb=12) for s in _SPECS]
         + [dict(crate="kinterp", harness="c05::spec_to_generic_classes", bounded=False, timeout=300, mem_gb=8)],
    technique="Kani: pre/post assertion on every entry of the real instruction table, opcode byte fully symbolic (complete over 256 x 15 Spec types x legacy/EOF mode)",
    level_text="COMPLETE finite-domain proof (Kani/CBMC, no data-dependent loops): for each of the 15 generic Spec types the opcode byte is "
               "symbolic over all 256 values and dispatched through the real make_instruction_table::<H, SPEC>(); with an empty stack and zero gas "
               "the instruction answers NotActivated / OpcodeNotFound / EOFOpcodeDisabledInLegacy / ReturnContractInNotInitEOF iff the opcode does "
               "not exist at that fork according to an independent activation table written from the EIPs; fork-gated opcodes answer NotActivated "
               "exactly below their fork and change nothing else; spec_to_generic! sends every SpecId to a Spec type of the same activation class. "
               "PRECOMPILES (Verus, unit precompile): PrecompileSpecId::from_spec_id(spec) == the EIP generation of that fork for EVERY SpecId, and a lemma "
               "shows the generation table equals the per-address EIP activation table (0x01-0x04 Frontier, 0x05-0x08 Byzantium, 0x09 Istanbul, 0x0a Cancun, "
               "0x0b.. Prague) for every SpecId and every address.",
    level_note="Trusted: Kani/CBMC; the oracle table in kani/kinterp/src/c05.rs (EIP list); instruction gating is `if const {..}` on SPEC, so it cannot "
               "depend on interpreter state (that is why one state per opcode suffices). NOT covered: the `Precompiles::{homestead,..,prague}` constructors that materialise the address sets "
               "(function-local `static OnceBox`, outside Verus; C dependencies under kani-compiler) - only the SpecId -> generation selection is proved; "
               "EOF container validation deciding which opcodes may appear in EOF code.",
    trusted=COMMON_TRUST,
    assumptions=[
        "empty stack + zero gas make every active instruction stop before touching the host; the stub host's unreachable!() proves the host is never reached",
        "precompile part: the mapping SpecId -> precompile generation is proved; that each generation's constructor registers exactly its addresses is NOT",
    ],
)
