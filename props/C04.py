from vf.propdefs import COMMON_TRUST

# Part K (BOUNDED, never counted as proved): construction of the jump table by analysis::to_analysed / analyze
# (raw-pointer loop + bitvec), kani/kinterp/src/c04.rs.  Measured on 2026-09-21 on the shared, heavily loaded
# machine (load average 40-60 on 16 cores; expect 2-4x less on an idle one).
_CHK = ("checked on to_analysed(Bytecode::new_legacy(code)): LegacyAnalyzed, original_len == L, bytecode.len() == L+33, "
        "bytecode[..L] == code, 33 zero padding bytes, table length L+33 bits, JumpTable::is_valid(t) <=> valid_dest(code, t) for "
        "every t in 0..=L+33, for usize::MAX and for one symbolic t >= L+33 (no position in the padding or in push data is "
        "ever marked), no panic / out-of-bounds access; oracle: Yellow Paper 9.4.3 walk with literal opcodes 0x5b, 0x60..0x7f")
_ALL = "ALL byte strings of CONCRETE length L = {n} (symbolic opcodes, symbolic walk); " + _CHK
_SHAPE = "ONE code shape with CONCRETE opcode positions ({shape}) and ALL immediate-data bytes symbolic; " + _CHK
_OPS = "ONE fully CONCRETE code string ({shape}); " + _CHK
_K = lambda h, bound, t, **kw: dict(crate="kinterp", harness="c04::" + h, bounded=True, bound=bound, timeout=t, mem_gb=12, **kw)
_KANI = [
    # quick tier: the shape that separates "JUMPDEST hidden in push data" from a real one, with the two opcodes adjacent to
    # the PUSH range as real instructions (112 s on the idle machine, 400-500 s at load average 50); shape_eof_imm_quick: 417 s at load 20
    _K("shape_push1_data", _SHAPE.format(shape="PUSH0 DUP1 PUSH1 d JUMPDEST, L = 5"), 1200),
    # quick tier: two EOF-only opcodes that carry immediates in EOF containers (RJUMP: 2 bytes, RJUMPV: 1) are ONE byte long
    # in legacy code -- the JUMPDESTs directly behind them are destinations (independent seed C04-1)
    _K("shape_eof_imm_quick", _OPS.format(shape="RJUMP JD JD RJUMPV JD JD, L = 6"), 1200),
    # thorough tier
    _K("shape_eof_imm_all", _OPS.format(shape="the 11 EOF-only opcodes with immediates 0xD1 0xE0 0xE1 0xE2 0xE3 0xE5 0xE6 0xE7 0xE8 0xEC 0xEE, "
                                              "each followed by two JUMPDESTs, L = 33"), 3600, thorough_only=True),  # 2478 s at load 25
    _K("table_len0", _ALL.format(n=0), 900, thorough_only=True),                                               # 149 s
    _K("shape_trunc_push32", _SHAPE.format(shape="JUMPDEST PUSH32 truncated by the end of code, L = 2"), 1200, thorough_only=True),  # 345-589 s
    _K("shape_trunc_push31", _SHAPE.format(shape="JUMPDEST PUSH31 truncated, L = 2"), 1200, thorough_only=True),   # 438 s
    _K("shape_trunc_push1", _SHAPE.format(shape="JUMPDEST PUSH1 truncated, L = 2"), 1200, thorough_only=True),     # 289 s
    _K("shape_trunc_push2_mid", _SHAPE.format(shape="PUSH2 d truncated in the middle of its data, L = 2"), 1500, thorough_only=True),  # 727 s
    _K("shape_push2_data", _SHAPE.format(shape="JUMPDEST PUSH2 d d JUMPDEST, L = 5"), 1800, thorough_only=True),  # 791 s
    _K("shape_push32_data", _SHAPE.format(shape="PUSH32 d*32 JUMPDEST JUMPDEST, L = 35"), 3000, thorough_only=True),  # 1428 s, 9.3 GB
]

PROP = dict(
    level="proof",
    engine="verus+kani",
    units=["jump"],
    aux_units=['bytecode'],  # to_analysed: original bytes kept + exactly 33 zero bytes of padding (proved around the opaque analyze)
    kani=_KANI,
    technique="Verus contracts on the extracted jump instructions and the table lookup chain (unbounded: every table, every 256-bit target); "
              "Kani bounded harnesses for the raw-pointer construction of the table",
    level_text="PROOF (Verus, unbounded) of the jump DECISION: control::jump, jumpi, jump_inner, jumpdest_or_nop, pc with the verbatim "
               "gas!/pop!/pop_ret!/push!/as_usize_or_fail!/as_usize_or_fail_ret! macros, Contract::is_valid_jump, "
               "Bytecode::legacy_jump_table, LegacyAnalyzedBytecode::jump_table and Interpreter::program_counter are extracted on "
               "every run and verified against the REAL Interpreter / Contract / Bytecode / LegacyAnalyzedBytecode of the compiled "
               "crates.  For EVERY analysed bytecode whose table satisfies `table_ok` and EVERY 256-bit target (targets >= 2^64 "
               "included: as_usize_or_fail! with reason InvalidJump): JUMP (gas literal 8) and JUMPI with non-zero condition (gas "
               "literal 10) end with instruction_result == InvalidJump and an unchanged instruction pointer iff NOT (target < |code| "
               "and code[target] == 0x5b and target is an instruction start of the Yellow-Paper walk N(i,w) over the ORIGINAL code); "
               "otherwise instruction_result is unchanged and the new instruction pointer is bytecode.as_ptr() + target (offset == "
               "target, inside the buffer: the safety precondition of pointer::add is proved).  Exact stack effect (1 / 2 words "
               "popped, whole-sequence equality), OutOfGas / StackUnderflow corner cases with what they leave unchanged, frame (every "
               "other field of the interpreter).  JUMPI with zero condition falls through: only gas and stack change.  Non-analysed "
               "bytecode (raw / EOF / EIP-7702) never accepts a jump.  JUMPDEST charges exactly 1 and changes nothing else; PC (gas 2) "
               "pushes (instruction pointer offset - 1), StackOverflow at 1024.",
    level_note="`table_ok` (the jump table answers is_valid(t) exactly for the valid destinations of the original code, for every usize t; "
               "original_len <= padded length) is a PRECONDITION of the proof.  It is established by analysis::to_analysed/analyze, a "
               "raw-pointer loop outside Verus, ONLY under the BOUNDED Kani check (kinterp c04::*: all contents only for the EMPTY "
               "code; beyond that seven code shapes with concrete opcode positions -- PUSH1/PUSH2/PUSH32 followed by JUMPDEST, "
               "PUSH1/PUSH2/PUSH31/PUSH32 truncated by the end of the code -- and all immediate-data bytes symbolic; plus concrete strings "
               "placing the 11 EOF-only opcodes that carry immediates in EOF containers (and PUSH0, DUP1) directly before JUMPDESTs; the "
               "other 210 non-PUSH byte values are NOT exercised as opcodes: 2-4 min of CBMC per opcode) -- reported "
               "under bounded_obligations, never counted as proved; for every other code it rests on the uniformity of the loop, not "
               "on a proof.  The intended bound (all byte strings of length <= 5) is NOT reachable: L = 1 needs > 13 min, L = 2 "
               "exhausts 12 GB (bitvec's pointer<->integer casts under a symbolic walk).  JumpTable::is_valid itself (`pc < len && bits[pc]`) is NOT verified by Verus: "
               "JumpTable = Arc<bitvec::BitVec<u8>> cannot be declared to Verus (declaring BitVec imports IntoIterator impls whose "
               "item type has a sealed private supertrait, wyz::comu::Mutability); the unit only NAMES its result jt_valid(table, pc), "
               "and the Kani harnesses observe the built table through this very function, including positions at and beyond the "
               "table length.  The closure `|i| i.is_valid(pos)` in Contract::is_valid_jump gets a ghost contract annotation "
               "(recorded as subst; body verbatim).  `(a) | (b)` on bools in as_usize_or_fail_ret! is read as `||` (Verus has no "
               "non-short-circuit bool or; operands are side-effect-free comparisons).  PC: that the instruction pointer was advanced "
               "by exactly one before the instruction function runs is Interpreter::step's wiring, outside the unit.",
    trusted=COMMON_TRUST + [
        "pointer model (vstd raw_ptr (address, provenance) pairs; pointer only computed, never dereferenced): assumed contracts of "
        "<[T]>::as_ptr (span = slice length, no wrap-around), pointer::add (requires in-bounds-or-one-past, proved at the call site), "
        "pointer::offset_from (requires same provenance, proved), Deref of alloy Bytes / bytes::Bytes (uninterpreted content)",
        "JumpTable::is_valid is a function of (table value, pc): jt_valid names its result (definitional)",
        "assume_specification on the compiled Contract::is_valid_jump / Bytecode::legacy_jump_table / LegacyAnalyzedBytecode::jump_table "
        "carry the clause text the same unit proves on their extracted source (public inherent methods of external types cannot be "
        "shadowed); Interpreter::program_counter: clauses repeated by hand next to the block that proves them (a trait impl cannot "
        "carry `requires`)",
        "contracts of Gas::record_cost (unit gas) and Stack::len/pop_unsafe/pop2_unsafe/push (unit stack), proved there",
        "units/prelude/ruint.rs: Uint::as_limbs + little-endian limb axiom, Uint::is_zero, Uint::from::<usize>, uval < 2^256",
    ],
    assumptions=[
        "table_ok(contract.bytecode): type invariant of an analysed bytecode, established by to_analysed -- bounded Kani check only",
        "interp_ready: gas meter well-formed; interpreter.bytecode holds the same bytes as the contract's padded code (Interpreter::new clones it)",
        "pc: the instruction pointer lies in the code buffer at offset >= 1 (Interpreter::step increments before dispatch)",
        "stack_wf for pc (len <= 1024, capacity 1024): established by Stack::new, preserved by every method under contract (C12)",
    ],
)
