from vf.propdefs import COMMON_TRUST

PROP = dict(
    level="proof",
    units=["i256", "arith", "bitwise"],
    level_text="All 11 functions of crates/interpreter/src/instructions/arithmetic.rs (add mul sub div sdiv rem smod addmod "
               "mulmod exp signextend), all 14 of instructions/bitwise.rs (lt gt slt sgt eq iszero bitand bitor bitxor not "
               "byte shl shr sar), all items of instructions/i256.rs and the macros gas! gas_or_fail! pop_top! check! "
               "as_usize_saturated! as_u64_saturated! are extracted verbatim on each run and verified by Verus on the REAL "
               "Interpreter / U256 of the compiled crates. Each instruction has a whole-effect contract for ALL operand "
               "values, ALL stack contents and ALL forks: result word == Yellow-Paper / EIP-145 oracle over unbounded "
               "integers (two's complement via to_signed; DIV/MOD/SDIV/SMOD/ADDMOD/MULMOD by zero = 0; SIGNEXTEND, AND, OR, "
               "XOR, NOT bit by bit; SHL/SHR/SAR by the single formulas x*2^s mod 2^256, floor(x/2^s), "
               "floor(signed(x)/2^s) mod 2^256 for every shift incl. >= 256), the rest of the stack unchanged (whole-sequence "
               "view), exactly the fork's literal gas (3/5/8; EXP 10 + 10|50 per exponent byte with the Spurious Dragon "
               "switch) charged, OutOfGas / StackUnderflow leave the stack view unchanged, SHL/SHR/SAR before "
               "Constantinople set NotActivated and change nothing else, every other Interpreter field unchanged.",
    level_note="The ruint operations themselves (wrapping_*, /, %, add_mod, mul_mod, pow, bit, byte, <<, >>, "
               "arithmetic_shr, ! & | ^, cmp, from, as_limbs(_mut), from_limbs) are ASSUMED contracts over uval "
               "(units/prelude/ruint.rs, written from ruint 1.12.3's documentation) -- the arithmetic inside ruint is not "
               "proved. Gas::record_cost, Stack::len/top_unsafe/pop_top_unsafe/pop2_top_unsafe, i256_div/i256_mod/i256_cmp, "
               "exp_cost and SpecId::is_enabled_in are used through the contract ledger (proved in units gas, stack, i256, "
               "gascalc, which this property's closure re-runs). Deviation stated in the contract (not a weakening): EXP pops "
               "its operands BEFORE charging the dynamic gas, so on OutOfGas the top word is already popped (unobservable: an "
               "exceptional halt discards the frame). Text substitutions in the extracted code (recorded as path-subst): "
               "`SPEC::SPEC_ID` / `<SPEC as $crate::primitives::Spec>::SPEC_ID` -> `spec_id_exec::<SPEC>()` and "
               "`if const {` -> `if {` in check! (no associated consts of external traits / const blocks in this Verus), "
               "`U256::ZERO|MAX|BITS` -> wrapper consts, `(..) & (..)` on bool -> `&&` in as_u64_saturated!, the two U256 "
               "consts of i256.rs re-bracketed as `exec const .. ensures .. { .. }`.",
    trusted=COMMON_TRUST + [
        "units/prelude/ruint.rs: assumed contracts of ruint 1.12.3 over uval (every assume_specification / external_body axiom "
        "listed in trusted_scan), incl. the vstd operator preconditions (`x_req`) stated for Uint and the three wrapper "
        "consts U256_ZERO / U256_MAX / U256_BITS",
        "units/prelude/spec.rs: spec_id_exec::<SPEC>() returns <SPEC as Spec>::SPEC_ID (external_body wrapper around the "
        "associated const)",
        "unit i256: transmute::<bool, Sign> yields the variant with discriminant 0/1; derived PartialEq/Ord of the field-less "
        "enum Sign are variant equality / discriminant order; core::cmp::Ordering == is variant equality",
        "unit bitwise: Result::unwrap_or (std); vstd's specification of usize::try_from(u64)",
        "the compiled i256_div / i256_mod / i256_cmp / exp_cost / SpecId::is_enabled_in / Gas::record_cost / Stack::* called "
        "by the instructions are the source text proved in units i256 / gascalc / gas / stack (same tree, same run)",
    ],
    assumptions=[
        "gas_wf(interpreter.gas) (remaining <= limit) on entry of every instruction: representation invariant of Gas, "
        "established by Gas::new and preserved by every Gas method (C13)",
        "machine arithmetic is NOT treated as mathematical: `8 * ext + 7` (u64) in signextend is an overflow obligation",
        "the dispatch of an opcode byte to these functions and the fork type SPEC are wiring (C05)",
    ],
)
