import os
import re

from vf.propdefs import COMMON_TRUST

_REPO = os.environ.get("VERIF_REPO", "/repo")
_VERIF = os.path.dirname(os.path.dirname(os.path.abspath(__file__)))
_SRC = "crates/interpreter/src"
_MUTATORS = ("sstore", "tstore", "log", "selfdestruct")

# ---------------------------------------------------------------------------------------------------
# Census guards (run on every check, on the working tree).  C10's proof covers the call sites it KNOWS:
#  (1) every textual method call `.sstore(` / `.tstore(` / `.log(` / `.selfdestruct(` (any receiver) in
#      crates/interpreter/src/**/*.rs must lie inside a function that is under contract in units static / static_s;
#  (2) every assignment `next_action = <rhs>` whose right-hand side is not `InterpreterAction::Return { .. }` /
#      `InterpreterAction::None` (i.e. every place that hands a CallInputs / CreateInputs / EOFCreateInputs to the EVM)
#      must lie inside such a function too.
# A hit outside makes the run UNDECIDED (coverage lost), never silently uncovered.
# Functions that are knowingly NOT under a Verus contract are named here with the reason; they are reported in the
# evidence (`explanation`) and in level_note, and keep the census green only for the sites listed.
_UNCOVERED_ACTION_SITES = {
}


def _unit_functions():
    """{(repo-relative file, fn name)} under a VERIFIED contract in unit static (static_s shares the text)."""
    from vf import vunit
    txt = vunit.read_template("static")
    parts, _ = vunit.parse_template(txt)
    out = set()
    for kind, b in parts:
        if kind != "block" or b.assume:
            continue
        m = re.search(r"\bfn:(\w+)", b.spec)
        if not m or not b.clauses.strip():
            continue
        if "external_body" in b.attrs:      # text extracted but trusted, not verified: does not count as covered
            continue
        out.add((b.path, m.group(1)))
    return out


def _rs_files():
    root = os.path.join(_REPO, _SRC)
    for d, _, fs in os.walk(root):
        for f in sorted(fs):
            if f.endswith(".rs"):
                yield os.path.join(d, f)


def _fn_items(items, acc):
    for it in items:
        if it.kind == "fn":
            acc.append(it)
        _fn_items(it.children, acc)
    return acc


def _enclosing_fn(src, fns, tok_index):
    best = None
    for it in fns:
        if it.first <= tok_index <= it.last and (best is None or it.first >= best.first):
            best = it
    return best


def _sites():
    """-> (mutator call sites, action hand-over sites) as lists of (relfile, line, what, enclosing fn name or None)"""
    from vf import extract
    muts, acts = [], []
    for p in _rs_files():
        s = extract.load(p)
        rel = os.path.relpath(p, _REPO)
        fns = _fn_items(s.items, [])
        sig = s.sig
        for q in range(1, len(sig) - 1):
            k = sig[q]
            if s.toks[k][0] != "id":
                continue
            w = s.tt(k)
            line = s.text.count("\n", 0, s.toks[k][1]) + 1
            if w in _MUTATORS and s.tt(sig[q - 1]) == "." and s.tt(sig[q + 1]) == "(":
                f = _enclosing_fn(s, fns, k)
                muts.append((rel, line, "." + w + "(", f.name if f else None))
            elif w == "next_action" and s.tt(sig[q + 1]) == "=" and s.tt(sig[q + 2]) != "=" and s.tt(sig[q - 1]) == ".":
                rhs = "".join(s.tt(sig[j]) for j in range(q + 2, min(q + 12, len(sig))))
                rhs = rhs.replace("crate::", "")
                if rhs.startswith("InterpreterAction::Return{") or rhs.startswith("InterpreterAction::None;"):
                    continue
                f = _enclosing_fn(s, fns, k)
                acts.append((rel, line, "next_action = " + rhs[:40], f.name if f else None))
    return muts, acts


def census_mutator_call_sites():
    try:
        covered = _unit_functions()
        muts, _ = _sites()
    except Exception as e:
        return False, "census could not run: " + str(e)
    bad = [f"{r}:{ln} `{w}` in fn {fn}" for (r, ln, w, fn) in muts if (r, fn) not in covered]
    if bad:
        return False, "Host mutator call site(s) outside the functions under contract in unit static: " + "; ".join(bad)
    if not muts:
        return False, "no Host mutator call site found at all (lost anchor: the scan no longer sees host.rs)"
    return True, ""


def census_action_sites():
    try:
        covered = _unit_functions()
        _, acts = _sites()
    except Exception as e:
        return False, "census could not run: " + str(e)
    bad = [f"{r}:{ln} `{w}` in fn {fn}" for (r, ln, w, fn) in acts
           if (r, fn) not in covered and (r, fn) not in _UNCOVERED_ACTION_SITES]
    if bad:
        return False, "call/create action handed to the EVM outside the functions under contract in unit static: " + "; ".join(bad)
    if not acts:
        return False, "no `next_action = ...` site found at all (lost anchor)"
    return True, ""


def _census_text():
    try:
        muts, acts = _sites()
        cov = _unit_functions()
        return ("census of this run: Host mutator call sites " + ", ".join(f"{r.split('/')[-1]}:{ln} in {fn}" for (r, ln, w, fn) in muts)
                + "; action hand-over sites " + ", ".join(f"{r.split('/')[-1]}:{ln} in {fn}" for (r, ln, w, fn) in acts)
                + "; knowingly uncovered: " + (", ".join(f"{f} ({why})" for ((_, f), why) in _UNCOVERED_ACTION_SITES.items()) or "none")
                + f"; {len(cov)} functions under verified contract")
    except Exception as e:  # never break the loading of the property table
        return "census failed: " + str(e)


PROP = dict(
    level="proof",
    units=["static", "static_s"],
    census=[census_mutator_call_sites, census_action_sites],
    level_text="The guards and the flag propagation of C10 are proved by Verus on the REAL Interpreter / Host / CallInputs / "
               "CreateInputs of the compiled crates, on text extracted verbatim on each run: instructions/host.rs sstore, tstore, "
               "log<N>, selfdestruct (the only four call sites of a state-mutating Host method in crates/interpreter/src: census) "
               "and the reads balance, selfbalance, extcodesize, extcodehash, extcodecopy, sload, tload; instructions/contract.rs "
               "create<IS_CREATE2>, eofcreate, call, call_code, delegate_call, static_call, extcall, extdelegatecall, extstaticcall "
               "(the only places that hand a CallInputs / CreateInputs / EOFCreateInputs to the EVM: census), extcall_input, "
               "extcall_gas_calc and contract/call_helpers.rs resize_memory, get_memory_input_and_out_ranges, calc_call_gas, with "
               "the verbatim macros require_non_staticcall! require_eof! check! gas! refund! gas_or_fail! pop! pop_ret! pop_top! "
               "pop_address(_ret)! push! push_b256! resize_memory! as_usize_or_fail(_ret)! as_usize_saturated! as_u64_saturated!. "
               "TWO contract variants of the same text (units/prelude/static_common.rs.in). Unit `static` (any mode): for ALL "
               "interpreter states, stacks, operands, forks and host answers: (a) is_static of the frame never changes; (b) in a "
               "static frame SSTORE, TSTORE (from Cancun), LOG0-4, SELFDESTRUCT, CREATE, CREATE2, EOFCREATE (in EOF) end with "
               "instruction_result == StateChangeDuringStaticCall and EVERY other field of the interpreter (gas, stack, memory, "
               "next_action, ...) bit-identical; (c) CALL in a static frame with >= 3 words and value != 0 ends with "
               "CallNotAllowedInsideStatic, exactly gas/to/value popped, everything else identical; EXTCALL sets that code only in a "
               "static frame and then hands nothing to the EVM; (d) the ONLY action each call instruction can hand to the EVM is "
               "InterpreterAction::Call{inputs} with inputs.scheme its own scheme, inputs.is_static == frame.is_static (CALL, "
               "CALLCODE, DELEGATECALL, EXTCALL, EXTDELEGATECALL) resp. == true (STATICCALL, EXTSTATICCALL), and -- for all but "
               "CALLCODE -- inputs.is_static ==> the value is Apparent or Transfer(0); CALLCODE: caller == target_address == the "
               "frame's own address (self-transfer); (e) Create / EOFCreate actions are produced only by NON-static frames; (f) "
               "reads never fail with a static-mode code; no instruction of host.rs sets next_action. Unit `static_s` (every "
               "instruction entered with is_static, the four Host mutators given precondition FALSE): every call site of "
               "host.sstore / tstore / log / selfdestruct is proved UNREACHABLE in a static frame -- 'host state not touched', "
               "which a postcondition on the interpreter alone cannot say.",
    level_note="NOT decided here (trusted wiring, named): (1) EvmContext::make_call_frame passes inputs.is_static to "
               "Interpreter::new (crates/revm/src/context/evm_context.rs:261; make_create_frame / make_eofcreate_frame pass false, "
               "which is sound BECAUSE (e) shows create actions never come from static frames) -- C07's frames unit; (2) 'world state "
               "at the end of the static call equals the state at its start' for a whole frame follows from (b)-(e) for every step "
               "of the interpreter loop plus journaling (C06) -- the loop / opcode dispatch (C05) are wiring, DESIGN 2.9 item 4; (3) "
               "Host implementations other than the instruction-level calls (EvmContext's own sstore/tstore/log/selfdestruct "
               "forwarders in crates/revm) are outside crates/interpreter and reached only through these four call sites. "
               "READING of the statement: 'call with non-zero value' is CALL and EXTCALL (EIP-214 lists CALL only); CALLCODE with "
               "value != 0 in a static frame is NOT refused by the code: it hands CallInputs{CallCode, Transfer(v), is_static: true, "
               "caller == target_address} to the EVM (self-transfer, net zero); verified as such, reported to the lead. blockhash is "
               "not under contract (`hash.0` of the opaque alloy FixedBytes); it calls only host.block_hash (census). "
               "Text substitutions in extracted code (path-subst, evidence): SPEC::SPEC_ID / BerlinSpec::SPEC_ID -> "
               "spec_id_exec::<..>(), `if const {` -> `if {` (check!), U256::ZERO -> U256_ZERO, `) | (` / `) & (` on bools -> "
               "`||` / `&&` (as_usize_or_fail_ret!, as_u64_saturated!), `for _ in 0..N` -> `for _i in _it: 0..N` (LOG: names the "
               "loop's ghost iterator, same loop), eofcreate: `unsafe { *interpreter.instruction_pointer }` -> "
               "read_immediate_u8(..) and `unsafe { interpreter.instruction_pointer.offset(1) }` -> ip_offset1(..) (external_body "
               "wrappers whose body is exactly the replaced expression: Verus has no raw-pointer dereference). "
               "pop_extcall_target_address is extracted but TRUSTED (external_body: `.iter().any(..)`), with the contract 'pops at "
               "most one word, may set instruction_result, no host'. Per-frame memory (SharedMemory::len/slice/slice_range/"
               "set_data, interpreter::resize_memory) is used through the contract ledger (contracts/memory.vc, meminstr.vc; "
               "units memory / meminstr are re-run by this property's closure). The mutation self-test (mutations/C10) was run "
               "with local copies of those five contracts (same clause text), before the ledger entries were baselined.",
    trusted=COMMON_TRUST + [
        "units/prelude/static_common.rs.in: external_trait_specification of revm_interpreter::Host (all 13 methods, no "
        "postconditions: host answers are arbitrary); the ONLY difference between units static / static_s is "
        "static_variant() / host_mutators_callable()",
        "units/prelude/ruint.rs (ruint 1.12.3 contracts over uval), units/prelude/static_env.rs (frozen copy of "
        "prelude/env.rs: Env/CfgEnv declared transparent, Spec::enabled == SPEC_ID >= fork, spec_id_exec, core::cmp::min, "
        "Bytes deref/len)",
        "alloy / bytes / std operations without value postconditions: B256::from(U256), Address::from_word, Address::create2, "
        "keccak256, Bytes::new/copy_from_slice/clone/clear/deref_mut, [T]::to_vec, LogData::new (Some for <= 4 topics), "
        "Result::unwrap_or, core::cmp::max, Range::is_empty / clone (usize), StateLoad::deref == &data",
        "Interpreter::gas == &self.gas, Interpreter::stack_mut == &mut self.stack, Interpreter::eof == contract.bytecode's EOF "
        "container (one-line accessors of interpreter.rs, assumed), Eof::decode as an uninterpreted function, "
        "EOFCreateInputs::new_opcode (no postcondition)",
        "eofcreate: read_immediate_u8 / ip_offset1 wrappers (raw pointer read / offset of instruction_pointer)",
        "pop_extcall_target_address: extracted text, external_body (trusted) frame contract",
        "Gas::record_cost/record_refund/remaining/remaining_63_of_64_parts, Stack::len/pop*_unsafe/top_unsafe/push/push_b256, "
        "sload_cost/sstore_cost/sstore_refund/selfdestruct_cost/warm_cold_cost/log_cost/extcodecopy_cost/initcode_cost/"
        "create2_cost/call_cost/cost_per_word, SpecId::is_enabled_in, SharedMemory::len/slice/slice_range/set_data, "
        "interpreter::resize_memory: through the contract ledger (proved in units gas, stack, gascalc, memory, meminstr, re-run "
        "by this property's closure)",
    ],
    assumptions=[
        "entry invariants of every instruction: gas_wf, stack_wf (<= 1024 words), mem_wf, mem_gas_inv (memory paid + gas left < "
        "2^55), refund counter within +-2^62 (room for one SSTORE / SELFDESTRUCT refund)",
        "LOG<N>: N <= 4 (the instruction table instantiates 0..4)",
        "EOFCREATE on the NON-static path only: the frame runs a validated EOF container -- the immediate indexes an existing "
        "sub-container that decodes with a filled data section (otherwise the code panics: `expect`); irrelevant in a static frame",
        "64-bit target (`global size_of usize == 8`, checked by rustc when the unit is compiled)",
        "trusted wiring: make_call_frame passes inputs.is_static to Interpreter::new (C07); the frame-level consequence 'world "
        "state unchanged' rests on the guards + journaling (C06) through the interpreter loop",
        "machine arithmetic is NOT treated as mathematical: every + - * on u64/usize in the extracted bodies is an overflow "
        "obligation (e.g. `offset + len` after resize_memory!, `gas_limit -= gas_limit / 64`)",
    ],
    explanation=_census_text(),
)
