import os
import re

from vf.propdefs import COMMON_TRUST

_REPO = os.environ.get("VERIF_REPO", "/repo")
_VERIF = os.path.dirname(os.path.dirname(os.path.abspath(__file__)))
_SRC = "crates/interpreter/src"
_MUTATORS = ("sstore", "tstore", "log", "selfdestruct")

# ---------------------------------------------------------------------------------------------------
# Census guards (run on every check, on the working tree).  C10's proof covers the call sites it KNOWS:
#  (1) every textual method call `.sstore(` / `.tstore(` / `.log(` / `.selfdestruct(` (any receiver) in
#      crates/interpreter/src/**/*.rs must lie inside a function that is under contract in units static / static_s;
#  (2) every assignment `next_action = <rhs>` whose right-hand side is not `InterpreterAction::Return { .. }` /
#      `InterpreterAction::None` (i.e. every place that hands a CallInputs / CreateInputs / EOFCreateInputs to the EVM)
#      must lie inside such a function too.
# A hit outside makes the run UNDECIDED (coverage lost), never silently uncovered.
# Functions that are knowingly NOT under a Verus contract are named here with the reason; they are reported in the
# evidence (`explanation`) and in level_note, and keep the census green only for the sites listed.
_UNCOVERED_ACTION_SITES = {
}


def _unit_functions():
    """{(repo-relative file, fn name)} under a VERIFIED contract in unit static (static_s shares the text)."""
    from vf import vunit
    txt = vunit.read_template("static")
    parts, _ = vunit.parse_template(txt)
    out = set()
    for kind, b in parts:
        if kind != "block" or b.assume:
            continue
        m = re.search(r"\bfn:(\w+)", b.spec)
        if not m or not b.clauses.strip():
            continue
        if "external_body" in b.attrs:      # text extracted but trusted, not verified: does not count as covered
            continue
        out.add((b.path, m.group(1)))
    return out


def _rs_files():
    root = os.path.join(_REPO, _SRC)
    for d, _, fs in os.walk(root):
        for f in sorted(fs):
            if f.endswith(".rs"):
                yield os.path.join(d, f)


def _fn_items(items, acc):
    for it in items:
        if it.kind == "fn":
            acc.append(it)
        _fn_items(it.children, acc)
    return acc


def _enclosing_fn(src, fns, tok_index):
    best = None
    for it in fns:
        if it.first <= tok_index <= it.last and (best is None or it.first >= best.first):
            best = it
    return best


def _sites():
    """-> (mutator call sites, action hand-over sites) as lists of (relfile, line, what, enclosing fn name or None)"""
    from vf import extract
    muts, acts = [], []
    for p in _rs_files():
        s = extract.load(p)
        rel = os.path.relpath(p, _REPO)
        fns = _fn_items(s.items, [])
        sig = s.sig
        for q in range(1, len(sig) - 1):
            k = sig[q]
            if s.toks[k][0] != "id":
                continue
            w = s.tt(k)
            line = s.text.count("\n", 0, s.toks[k][1]) + 1
            if w in _MUTATORS and s.tt(sig[q - 1]) == "." and s.tt(sig[q + 1]) == "(":
                f = _enclosing_fn(s, fns, k)
                muts.append((rel, line, "." + w + "(", f.name if f else None))
            elif w == "next_action" and s.tt(sig[q + 1]) == "=" and s.tt(sig[q + 2]) != "=" and s.tt(sig[q - 1]) == ".":
                rhs = "".join(s.tt(sig[j]) for j in range(q + 2, min(q + 12, len(sig))))
                rhs = rhs.replace("crate::", "")
                if rhs.startswith("InterpreterAction::Return{") or rhs.startswith("InterpreterAction::None;"):
                    continue
                f = _enclosing_fn(s, fns, k)
                acts.append((rel, line, "next_action = " + rhs[:40], f.name if f else None))
    return muts, acts


def census_mutator_call_sites():
    try:
        covered = _unit_functions()
        muts, _ = _sites()
    except Exception as e:
        return False, "census could not run: " + str(e)
    bad = [f"{r}:{ln} `{w}` in fn {fn}" for (r, ln, w, fn) in muts if (r, fn) not in covered]
    if bad:
        return False, "Host mutator call site(s) outside the functions under contract in unit static: " + "; ".join(bad)
    if not muts:
        return False, "no Host mutator call site found at all (lost anchor: the scan no longer sees host.rs)"
    return True, ""


def census_action_sites():
    try:
        covered = _unit_functions()
        _, acts = _sites()
    except Exception as e:
        return False, "census could not run: " + str(e)
    bad = [f"{r}:{ln} `{w}` in fn {fn}" for (r, ln, w, fn) in acts
           if (r, fn) not in covered and (r, fn) not in _UNCOVERED_ACTION_SITES]
    if bad:
        return False, "call/create action handed to the EVM outside the functions under contract in unit static: " + "; ".join(bad)
    if not acts:
        return False, "no `next_action = ...` site found at all (lost anchor)"
    return True, ""


def _census_text():
    try:
        muts, acts = _sites()
        cov = _unit_functions()
        return ("census of this run: Host mutator call sites " + ", ".join(f"{r.split('/')[-1]}:{ln} in {fn}" for (r, ln, w, fn) in muts)
                + "; action hand-over sites " + ", ".join(f"{r.split('/')[-1]}:{ln} in {fn}" for (r, ln, w, fn) in acts)
                + "; knowingly uncovered: " + (", ".join(f"{f} ({why})" for ((_, f), why) in _UNCOVERED_ACTION_SITES.items()) or "none")
                + f"; {len(cov)} functions under verified contract")
    except Exception as e:  # never break the loading of the property table
        return "census failed: " + str(e)


PROP = dict(
    level="proof",
    units=["static", "static_s"],
    census=[census_mutator_call_sites, census_action_sites],
    level_text="PLACEHOLDER",
    level_note="PLACEHOLDER",
    trusted=COMMON_TRUST,
    assumptions=[],
    explanation=_census_text(),
)
