import os
import re

from vf.propdefs import COMMON_TRUST

_REPO = os.environ.get("VERIF_REPO", "/repo")

# ---------------------------------------------------------------------------------------------------
# census (run on every check, from the working tree):
#  (1) which `impl Database / DatabaseRef for X` blocks exist in the database sources -- a layer that is not
#      under contract (new wrapper) makes the run UNDECIDED instead of silently uncovered;
#  (2) which of the layers override the provided methods has_storage / has_storage_ref (reported in the
#      evidence `explanation`; the obligations themselves are decided by Verus on the extracted text).
_DB_FILES = ["crates/primitives/src/db.rs", "crates/primitives/src/db/components.rs",
             "crates/primitives/src/db/components/state.rs", "crates/primitives/src/db/components/block_hash.rs",
             "crates/revm/src/db/in_memory_db.rs", "crates/revm/src/db/emptydb.rs", "crates/revm/src/db/states/state.rs"]
# impl headers (normalised, generics dropped) -> how the layer is covered
_KNOWN = {
    "Database for WrapDatabaseRef<T>": "verus",
    "Database for DatabaseComponents<S, BH>": "kani (methods) + verus finding (has_storage)",
    "DatabaseRef for DatabaseComponents<S, BH>": "kani (methods) + verus finding (has_storage_ref)",
    "Database for CacheDB<ExtDB>": "verus (+ kani kcachedb, bounded: has_storage)",
    "DatabaseRef for CacheDB<ExtDB>": "verus (+ kani kcachedb, bounded: has_storage_ref, storage_ref, basic_ref)",
    "Database for EmptyDBTyped<E>": "verus",
    "DatabaseRef for EmptyDBTyped<E>": "verus",
    "Database for State<DB>": "verus: code_by_hash, has_storage; basic/storage/block_hash NOT covered",
    "Database for BenchmarkDB": "leaf database (fixed answers), not a wrapper: out of scope",
}


def _impls():
    from vf import extract
    found = {}
    for f in _DB_FILES:
        p = os.path.join(_REPO, f)
        if not os.path.exists(p):
            continue
        for it in extract.load(p).items:
            if it.kind == "impl" and re.match(r"(Database|DatabaseRef) for ", it.name or ""):
                found[it.name] = (f, [c.name for c in it.children if c.kind == "fn"])
    return found


def census_layers():
    found = _impls()
    unknown = sorted(set(found) - set(_KNOWN))
    missing = sorted(k for k in _KNOWN if k not in found)
    if unknown:
        return False, "database layer(s) not under contract: " + ", ".join(unknown)
    if missing:
        return False, "database layer(s) under contract no longer found (lost anchor): " + ", ".join(missing)
    return True, ""


def _has_storage_census():
    try:
        out = []
        for name, (f, fns) in sorted(_impls().items()):
            m = "has_storage_ref" if name.startswith("DatabaseRef") else "has_storage"
            out.append(f"{name}: " + ("overrides " + m if m in fns else "does NOT override " + m + " (trait default Ok(false) applies)"))
        return "; ".join(out)
    except Exception as e:  # never break the loading of the property table
        return "census failed: " + str(e)


_KB = ("loop-free harness over a stub inner database whose five answers are fully symbolic (Ok/Err, all 256 bits of balance / "
       "storage value / hashes, nonce, error code) and symbolic query arguments: complete over that domain (AccountInfo.code is "
       "always None; Bytecode answers are compared by Ok/Err only)")
_QUICK_LAYERS = ["database_mut_ref", "database_box", "database_ref_shared_ref", "components_database", "components_database_ref"]
_THOROUGH_LAYERS = ["database_ref_mut_ref", "database_ref_box", "database_ref_rc", "database_ref_arc"]
# three harnesses per layer: _words (storage, block_hash, has_storage), _info (basic), _code (code_by_hash)
_KANI = [dict(crate="kdb", harness=f"c20::{l}_{part}", bounded=False, bound=_KB, timeout=400, mem_gb=10)
         for l in _QUICK_LAYERS for part in ("words", "info", "code")]
_KANI += [dict(crate="kdb", harness=f"c20::{l}_{part}", bounded=False, bound=_KB, timeout=400, mem_gb=10, thorough_only=True)
          for l in _THOROUGH_LAYERS for part in ("words", "info", "code")]

# Kani stand-in for the CacheDB obligations of unit dbwrap (crate kani/kcachedb: the REAL in_memory_db.rs included by #[path]).
# Verus cannot read a has_storage_ref written with iterator adapters / closures (independent seeds C20-1, C21-1: the unit reports
# UNDECIDED, lost loop anchor); Kani checks the compiled MIR against the same oracle on a bounded family of cache contents.
# BOUNDED: never counted as proved.
_KCB = ("one concrete queried address; the cache holds at most one account (the queried one or one other) with at most two slots under "
        "concrete keys (address / keys fixed so that CBMC constant-folds the std HashMap probes under a fixed SipHash seed); symbolic: "
        "AccountState (all four), every bit of the slot values / cached balance, nonce, code hash, the inner database's answers (Ok / Err); "
        "AccountInfo.code == None; unwind 34")
# (-Z unstable-options: vf/kani.py's concrete-playback command does not pass it, and --cbmc-args needs it)
_KCB_ARGS = ["-Z", "unstable-options", "--no-assertion-reach-checks", "--cbmc-args", "--max-field-sensitivity-array-size", "2048"]
_KCB_QUICK = ["has_storage_not_cached", "has_storage_cached_0", "has_storage_cached_1"]
_KCB_THOROUGH = ["has_storage_cached_2", "has_storage_other_cached_1", "storage_ref_not_cached", "storage_ref_cached_1_hit",
                 "storage_ref_cached_1_miss", "storage_ref_cached_0_miss", "basic_ref_not_cached", "basic_ref_cached_0"]
_KANI_CACHEDB = [dict(crate="kcachedb", harness=f"cachedb::{h}", bounded=True, bound=_KCB, timeout=600, mem_gb=8, args=_KCB_ARGS)
                 for h in _KCB_QUICK]
_KANI_CACHEDB += [dict(crate="kcachedb", harness=f"cachedb::{h}", bounded=True, bound=_KCB, timeout=600, mem_gb=8, args=_KCB_ARGS,
                       thorough_only=True) for h in _KCB_THOROUGH]
_KANI += _KANI_CACHEDB

PROP = dict(
    level="proof",
    engine="verus+kani",
    units=["dbwrap"],
    kani=_KANI,
    census=[census_layers],
    technique="Verus contracts on the extracted database-layer methods (unbounded); Kani (complete, loop-free) for the layers "
              "without extractable / Verus-acceptable text (auto_impl references and boxes, DatabaseComponents)",
    level_text="PROOF (Verus, unbounded: all wrapped databases, all cache contents, all arguments) on the real types of the compiled "
               "crates, text extracted on every run: "
               "(1) WrapDatabaseRef<T>: basic / code_by_hash / storage / block_hash / has_storage each return a value that "
               "T::{basic_ref, code_by_hash_ref, storage_ref, block_hash_ref, has_storage_ref} returns for the SAME arguments "
               "(Verus call_ensures on the trait method of the generic inner type; no determinism assumption) and leave the wrapper unchanged. "
               "(2) EmptyDBTyped<E> (both traits): basic -> Ok(None), storage -> Ok(0), code_by_hash -> Ok(Bytecode::default()), "
               "block_hash(n) -> Ok(keccak256(n.to_string())) with keccak256 / to_string / UTF-8 uninterpreted, has_storage -> Ok(false). "
               "(2b) has_storage / has_storage_ref (EIP-7610, C21's database-layer part) of CacheDB (both traits, since /repo 9bf99cf2): true if the "
               "cache itself holds a non-zero slot of the account, false if it knows the storage to be cleared / the account not to exist, otherwise "
               "EXACTLY the wrapped database's has_storage_ref answer (loop over HashMap::values() with a spliced invariant); of State: if nothing is "
               "cached for the address and no preloaded bundle is consulted, the answer is an error, the wrapped database's has_storage answer, or false "
               "because the wrapped database reported the account as not existing. The block is //@extract-or <override> || <trait default body>: "
               "dropping an override again makes the default `Ok(false)` fail the same obligation. "
               "(3) CacheDB<ExtDB>, DatabaseRef impl: each of basic_ref / code_by_hash_ref / storage_ref / block_hash_ref returns the cache's own "
               "answer when the cache has one (cached account info with NotExisting => None; cached slot; zero for a slot of an account whose "
               "storage is known cleared / not existing; cached code; cached block hash) and otherwise EXACTLY what the wrapped database "
               "returns for the same arguments. "
               "(4) CacheDB<ExtDB>, Database impl (&mut self): the same answers, and the WHOLE post-state: which entry is inserted "
               "(accounts / account storage / contracts / block_hashes as mathematical maps), that every other entry and every other field is "
               "untouched, and that 'caching never changes an answer': after an Ok answer x the cache itself answers the same question with x, "
               "and its answers about every other address / hash are what they were. "
               "(5) the DbAccount helpers (new_not_existing, info, From<AccountInfo>, From<Option<AccountInfo>>). "
               "(6) State<DB>::code_by_hash: the cached code, else (preloaded bundle) the bundle's code, else exactly the answer (Ok or Err) the wrapped "
               "`&mut` database gives for the same hash (named by an uninterpreted input/output relation on the external trait method, since "
               "call_ensures cannot take a &mut argument); an Ok answer is cached, the same question is then answered from the cache, nothing else changes. "
               "COMPLETE (Kani, loop-free, symbolic answers): &mut D and Box<D> as Database, &D / &mut D / Box<D> / Rc<D> / Arc<D> as DatabaseRef "
               "(all five methods incl. has_storage), DatabaseComponents as Database and DatabaseRef (basic / code_by_hash / storage from the "
               "state component with errors wrapped in ::State, block_hash from the block-hash component with errors wrapped in ::BlockHash). "
               "BOUNDED (Kani crate kcachedb, NOT counted as proved; a second, syntax-independent check of (2b) and of the reads of (3) on the compiled MIR of "
               "the real in_memory_db.rs): CacheDB::has_storage_ref / has_storage, storage_ref, basic_ref against the same oracle for an empty cache and for "
               "one cached account with 0 / 1 / 2 slots, every AccountState, symbolic slot values and inner answers.",
    level_note="NOT covered (named, nothing is claimed for them): "
               "(a) State<DB>::{basic, storage, block_hash} incl. the 256-block hash window: block_hash uses the BTreeMap entry / first_entry / "
               "OccupiedEntry::remove API, for which vstd has no model (vstd models only HashMap's entry API); storage wraps the database call in a "
               "closure capturing `&mut self.database` with `?` inside (no Verus support); basic goes through load_cache_account and the "
               "CacheAccount / BundleAccount / AccountStatus constructors (C15-C19's vocabulary). Kani cannot stand in because kani-compiler cannot build crate `revm`. "
               "(b) commit histories: CacheDB::commit (for-loop over a HashMap + iterator adapters) and the insert_* / load_account helpers are "
               "outside the unit; the contracts above hold for EVERY cache content, hence for every content a commit history produces, but that "
               "commit produces the right content is not proved here. "
               "(c) CacheDB::basic builds the cached account with the inline closure `|info| DbAccount { info, ..Default::default() }`; Verus has no "
               "contract for an un-annotated closure, so the extractor re-brackets it as `|info| -> (acc: DbAccount) ensures loaded_account(Some(info), acc) "
               "{ <body verbatim> }` (//@hint closure, recorded under extraction_drops); Verus proves that ensures on the closure body. "
               "(d) on an Err of the wrapped database inside `entry.insert(<expr>?)` (basic, code_by_hash) the contract is silent about the cache "
               "content (Verus does not resolve the moved VacantEntry on that exit); storage and block_hash prove 'unchanged' on their error paths. "
               "(e) DatabaseComponents' methods cannot go through Verus (datatype constructor used as a function value in map_err): Kani, complete over the stub domain. "
               "(f) State/BlockHash component impls for &T / Arc<T> (components/state.rs, block_hash.rs), AlloyDB / EthersDB (feature-gated network leaves), BenchmarkDB (leaf). "
               "(g) State::has_storage is verified only for the case 'nothing cached, no preloaded bundle', and on an ASSUMED (not proved) contract of "
               "State::load_cache_account for that case (the function goes through Into::into / BundleAccount / CacheAccount constructors); the exact rule "
               "for cached accounts (slots of the PlainAccount, AccountStatus) belongs to C15-C19's vocabulary. "
               "FINDING (C20 'has-storage answer' = C21 database-layer part; obligations dbwrap:has_storage*__finding_components*, expected to fail, in "
               "known_findings.txt, never counted): DatabaseComponents (both traits) does not override has_storage / has_storage_ref and cannot: its "
               "State / StateRef component traits have no such method, so the trait default Ok(false) answers whatever the wrapped data says. "
               "(CacheDB and State had the same defect; fixed in /repo 9bf99cf2 after the demonstration mutations/C20/demo_has_storage.rs.) "
               "Explicit assumption in CacheDB::storage's contract: for an account the wrapped database does not have, the answer is zero "
               "without asking the wrapped database for the slot.",
    explanation="has_storage census of this run: " + _has_storage_census(),
    trusted=COMMON_TRUST + [
        "vstd's specifications of std HashMap (get, insert, entry, Entry::{Occupied,Vacant}, OccupiedEntry::{get,get_mut,into_mut}, "
        "VacantEntry::insert), Option::{map, unwrap_or_else, is_some}, Result `?`, ToString::to_string",
        "alloy's DefaultHashBuilder builds valid hashers and Address / B256 / U256 obey vstd's hash-table key model (4 axioms in the unit)",
        "ruint: U256::ZERO, U256::default() and U256::from(u64) (uninterpreted constants / function; only their identity matters here); "
        "Uint::is_zero(x) <=> x == ZERO",
        "vstd's specification of HashMap::values() and of `for` loops over it (the yielded sequence has exactly the map's values as its set)",
        "derive(Clone) on AccountInfo / Bytecode returns an equal value; derive(Default) on DbAccount is field-wise with AccountState::None",
        "keccak256, String::as_bytes (UTF-8) and Display for u64 are uninterpreted functions of their argument",
        "assume_specification on the compiled DbAccount helpers and EmptyDBTyped's DatabaseRef methods carry the clause text that the same "
        "unit proves on their extracted source (contracts/dbwrap.vc)",
    ],
    assumptions=[
        "call_ensures(T::f_ref, (&inner, args), r) is read as 'r is an answer of the wrapped data for args'; for a wrapped database whose "
        "answers are a function of (data, args) this is 'the same answer'",
        "CacheDB::storage: an account absent from the wrapped database has no storage there (the cache answers zero without asking)",
        "State<DB>::{basic, storage, block_hash}, commit histories and the 256-block hash window are NOT covered",
        "Kani harnesses: AccountInfo.code is None, Bytecode answers compared by Ok/Err only",
        "State::load_cache_account: ASSUMED contract (case: address not cached, no preloaded bundle) -- asks database.basic(address), passes an "
        "error on, otherwise returns a freshly loaded CacheAccount (no storage entries; LoadedNotExisting iff the answer was None)",
        "FINDING has_storage not forwarded by DatabaseComponents (see known_findings.txt); CacheDB / State fixed in 9bf99cf2",
    ],
)
