use vstd::prelude::*;
verus! {
pub assume_specification [u64::overflowing_sub] (a: u64, b: u64) -> (r:(u64, bool))
  ensures r.1 == (a < b), r.1 ==> r.0 == a - b + 0x1_0000_0000_0000_0000, !r.1 ==> r.0 == a - b;

#[derive(Clone, Copy, Debug, Default, PartialEq, Eq, Hash)]
struct Gas {
    /// The initial gas limit. This is constant throughout execution.
    limit: u64,
    /// The remaining gas.
    remaining: u64,
    /// Refunded gas. This is used only at the end of execution.
    refunded: i64,
}

impl Gas {
    spec fn wf(&self) -> bool { self.remaining <= self.limit }

    #[inline]
    const fn new(limit: u64) -> (r: Self)
        ensures r.wf(), r.limit == limit, r.remaining == limit, r.refunded == 0
    {
        Self {
            limit,
            remaining: limit,
            refunded: 0,
        }
    }

    #[inline]
    const fn spent(&self) -> (r: u64)
        requires self.wf()
        ensures r == self.limit - self.remaining
    {
        self.limit - self.remaining
    }

    #[inline]
    #[must_use = "prefer using `gas!` instead to return an out-of-gas error on failure"]
    fn record_cost(&mut self, cost: u64) -> (success: bool)
        requires old(self).wf()
        ensures final(self).wf(),
            success == (cost <= old(self).remaining),
            success ==> final(self).remaining == old(self).remaining - cost,
            !success ==> *final(self) == *old(self),
            final(self).limit == old(self).limit, final(self).refunded == old(self).refunded,
    {
        let (remaining, overflow) = self.remaining.overflowing_sub(cost);
        let success = !overflow;
        if success {
            self.remaining = remaining;
        }
        success
    }

    fn set_final_refund(&mut self, is_london: bool)
        requires old(self).wf(), old(self).refunded >= 0
    {
        let max_refund_quotient = if is_london { 5 } else { 2 };
        self.refunded = (self.refunded() as u64).min(self.spent() / max_refund_quotient) as i64;
    }
    const fn refunded(&self) -> i64 {
        self.refunded
    }
}
}
fn main(){}
