#![allow(unused_imports)]
use vstd::prelude::*;
use revm_interpreter::{Interpreter, Gas, Host, InstructionResult, Stack, Contract, SharedMemory, FunctionStack, InterpreterAction};
use revm_interpreter::primitives::{U256, Bytes};
use revm_interpreter::primitives::ruint::Uint;

macro_rules! gas {
    ($interp:expr, $gas:expr) => {
        gas!($interp, $gas, ())
    };
    ($interp:expr, $gas:expr, $ret:expr) => {
        if !$interp.gas.record_cost($gas) {
            $interp.instruction_result = InstructionResult::OutOfGas;
            return $ret;
        }
    };
}
macro_rules! pop_top {
    ($interp:expr, $x1:ident, $x2:ident) => {
        if $interp.stack.len() < 2 {
            $interp.instruction_result = InstructionResult::StackUnderflow;
            return;
        }
        // SAFETY: Length is checked above.
        let ($x1, $x2) = unsafe { $interp.stack.pop_top_unsafe() };
    };
}

verus! {
mod gas { pub const VERYLOW: u64 = 3; }

#[verifier::external_type_specification]
#[verifier::external_body]
pub struct ExUint<const BITS: usize, const LIMBS: usize>(Uint<BITS, LIMBS>);
#[verifier::external_type_specification]
#[verifier::external_body]
pub struct ExGas(Gas);
#[verifier::external_type_specification]
#[verifier::external_body]
pub struct ExStack(Stack);
#[verifier::external_type_specification]
#[verifier::external_body]
pub struct ExContract(Contract);
#[verifier::external_type_specification]
#[verifier::external_body]
pub struct ExBytes(Bytes);
#[verifier::external_type_specification]
#[verifier::external_body]
pub struct ExSharedMemory(SharedMemory);
#[verifier::external_type_specification]
#[verifier::external_body]
pub struct ExFunctionStack(FunctionStack);
#[verifier::external_type_specification]
#[verifier::external_body]
pub struct ExInterpreterAction(InterpreterAction);
#[verifier::external_type_specification]
pub struct ExInstructionResult(InstructionResult);
#[verifier::external_type_specification]
pub struct ExInterpreter(Interpreter);

pub uninterp spec fn uval<const BITS: usize, const LIMBS: usize>(x: Uint<BITS, LIMBS>) -> nat;
pub uninterp spec fn gas_remaining(g: Gas) -> u64;
pub uninterp spec fn stack_view(s: Stack) -> Seq<U256>;
pub open spec fn pow2(n: nat) -> nat decreases n { if n == 0 { 1 } else { 2 * pow2((n - 1) as nat) } }

pub assume_specification [Gas::record_cost] (g: &mut Gas, cost: u64) -> (r: bool)
  ensures r == (cost <= gas_remaining(*old(g))),
          r ==> gas_remaining(*final(g)) == gas_remaining(*old(g)) - cost,
          !r ==> *final(g) == *old(g);
pub assume_specification [Stack::len] (s: &Stack) -> (r: usize)
  ensures r == stack_view(*s).len();
pub assume_specification [Stack::pop_top_unsafe] (s: &mut Stack) -> (r: (U256, &mut U256))
  requires stack_view(*old(s)).len() >= 2
  ensures r.0 == stack_view(*old(s)).last(),
          *r.1 == stack_view(*old(s))[stack_view(*old(s)).len() - 2],
          stack_view(*final(s)) == stack_view(*old(s)).drop_last().drop_last().push(*final(r.1));
pub assume_specification<const BITS: usize, const LIMBS: usize> [Uint::<BITS, LIMBS>::wrapping_add] (a: Uint<BITS, LIMBS>, b: Uint<BITS, LIMBS>) -> (r: Uint<BITS, LIMBS>)
  ensures uval(r) == (uval(a) + uval(b)) % pow2(BITS as nat);

pub fn add<H: Host + ?Sized>(interpreter: &mut Interpreter, _host: &mut H)
  ensures
     gas_remaining(old(interpreter).gas) < 3 ==> final(interpreter).instruction_result == InstructionResult::OutOfGas && stack_view(final(interpreter).stack) == stack_view(old(interpreter).stack),
     gas_remaining(old(interpreter).gas) >= 3 && stack_view(old(interpreter).stack).len() >= 2 ==> {
        let s = stack_view(old(interpreter).stack);
        let t = stack_view(final(interpreter).stack);
        &&& t.len() == s.len() - 1
        &&& uval(t.last()) == (uval(s[s.len()-1]) + uval(s[s.len()-2])) % pow2(256)
        &&& t.drop_last() == s.drop_last().drop_last()
        &&& gas_remaining(final(interpreter).gas) == gas_remaining(old(interpreter).gas) - 3
        &&& final(interpreter).instruction_result == old(interpreter).instruction_result
     }
{
    gas!(interpreter, gas::VERYLOW);
    pop_top!(interpreter, op1, op2);
    *op2 = op1.wrapping_add(*op2);
}
}
fn main(){}
