// SPIKE (2026-09-22, builder c20): Verus accepts `default_ensures` on a PROVIDED method of an EXTERNAL trait
// (external_trait_specification) and applies it to calls on external types whose impl (in the compiled rlib) does NOT
// override the method: via_cachedb / via_cachedb_mut verify `r == Ok(false)` for CacheDB (no override), via_wrap FAILS for
// WrapDatabaseRef (overrides has_storage).  Not used in unit dbwrap (a verified 'is constant false' would turn into a
// violation the day the defect is fixed); kept as a compiled-crate-level cross-check of the has_storage finding.
// run: verus spike_verus_default_ensures.rs --no-trait-conflicts --extern revm=... --extern revm_primitives=... -L dependency=...
#![allow(unused_imports, dead_code)]
use vstd::prelude::*;
use revm_primitives::{AccountInfo, Address, Bytecode, B256, U256};
use revm_primitives::db::{Database, DatabaseRef, WrapDatabaseRef};
use revm_primitives::ruint::Uint;
use revm_primitives::alloy_primitives::FixedBytes;

verus! {
#[verifier::external_type_specification]
#[verifier::external_body]
pub struct ExUint<const BITS: usize, const LIMBS: usize>(Uint<BITS, LIMBS>);
#[verifier::external_type_specification]
#[verifier::external_body]
pub struct ExFixedBytes<const N: usize>(FixedBytes<N>);
#[verifier::external_type_specification]
#[verifier::external_body]
pub struct ExAddress(Address);
#[verifier::external_type_specification]
#[verifier::external_body]
pub struct ExAccountInfo(AccountInfo);
#[verifier::external_type_specification]
#[verifier::external_body]
pub struct ExBytecode(Bytecode);

#[verifier::external_type_specification]
#[verifier::external_body]
#[verifier::reject_recursive_types(T)]
pub struct ExArrayIntoIter<T, const N: usize>(core::array::IntoIter<T, N>);

#[verifier::external_trait_specification]
pub trait ExDatabaseRef {
    type ExternalTraitSpecificationFor: DatabaseRef;
    type Error;
    fn basic_ref(&self, address: Address) -> Result<Option<AccountInfo>, Self::Error>;
    fn code_by_hash_ref(&self, code_hash: B256) -> Result<Bytecode, Self::Error>;
    fn has_storage_ref(&self, _address: Address) -> (r: Result<bool, Self::Error>)
        default_ensures r == Ok::<bool, Self::Error>(false);
    fn storage_ref(&self, address: Address, index: U256) -> Result<U256, Self::Error>;
    fn block_hash_ref(&self, number: u64) -> Result<B256, Self::Error>;
}

#[verifier::external_type_specification]
#[verifier::reject_recursive_types(T)]
pub struct ExWrapDatabaseRef<T: DatabaseRef>(WrapDatabaseRef<T>);


use revm::db::CacheDB;
#[verifier::external_trait_specification]
pub trait ExDatabase {
    type ExternalTraitSpecificationFor: Database;
    type Error;
    fn basic(&mut self, address: Address) -> Result<Option<AccountInfo>, Self::Error>;
    fn code_by_hash(&mut self, code_hash: B256) -> Result<Bytecode, Self::Error>;
    fn has_storage(&mut self, _address: Address) -> (r: Result<bool, Self::Error>)
        default_ensures r == Ok::<bool, Self::Error>(false);
    fn storage(&mut self, address: Address, index: U256) -> Result<U256, Self::Error>;
    fn block_hash(&mut self, number: u64) -> Result<B256, Self::Error>;
}
fn via_cachedb_mut<E: DatabaseRef>(c: &mut CacheDB<E>, a: Address) -> (r: Result<bool, E::Error>)
    ensures r == Ok::<bool, E::Error>(false)
{
    c.has_storage(a)
}

#[verifier::external_type_specification]
#[verifier::external_body]
#[verifier::reject_recursive_types(ExtDB)]
pub struct ExCacheDB<ExtDB>(CacheDB<ExtDB>);
fn via_cachedb<E: DatabaseRef>(c: &CacheDB<E>, a: Address) -> (r: Result<bool, E::Error>)
    ensures r == Ok::<bool, E::Error>(false)
{
    c.has_storage_ref(a)
}
fn via_wrap<T: DatabaseRef>(c: &mut WrapDatabaseRef<T>, a: Address) -> (r: Result<bool, T::Error>)
    ensures r == Ok::<bool, T::Error>(false)
{
    c.has_storage(a)
}
}
fn main() {}
