#!/bin/bash
# usage: tools/seed_eval.sh <property-id> <n> [checks...]
# Verifies a seeded change produced in /tmp/seed_<id>_<n>/DEMO and runs our checks against it
# in that scratch worktree (VERIF_REPO), then stores it under /verif/seeded/<id>-<n>/.
set -u
ID=$1; N=$2; shift 2
CHECKS=${@:-$ID}
WT=/tmp/seed_${ID}_${N}
OUT=/verif/seeded/${ID}-${N}
mkdir -p $OUT
cp $WT/DEMO/patch.diff $WT/DEMO/demo.rs $WT/DEMO/meta.json $WT/DEMO/RUN.md $OUT/ 2>/dev/null
cd $WT
git stash -q 2>/dev/null; git checkout -q . ; git clean -qfd -e DEMO >/dev/null 2>&1
if ! git apply --check DEMO/patch.diff; then echo "PATCH DOES NOT APPLY"; exit 3; fi
git apply DEMO/patch.diff
echo "== patch applied: $(git diff --stat | tail -1)"
echo "== existing test suite with patch"
CARGO_TARGET_DIR=/tmp/seed-target cargo test --workspace --no-fail-fast --offline 2>&1 | grep -E "^test result|FAILED|failed" | sort | uniq -c | head -20
for c in $CHECKS; do
  echo "== ./check $c against the patched worktree"
  (cd /verif && VERIF_REPO=$WT ./check $c 2>&1 | tail -12; echo "exit=${PIPESTATUS[0]}")
done
