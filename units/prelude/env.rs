// ======================================================================================
// prelude/env.rs (owner: validate / C02, also used by fees / C09) -- the REAL transaction-environment
// and account types of revm_primitives, declared to Verus, and the (trusted, minimal) assumed
// specifications of the alloy / bytes / std operations the validation and fee functions call.
// `//@include prelude/env.rs` INSIDE verus!{} AFTER prelude/ruint.rs and AFTER either prelude/state.rs (units that
// work on the journaled state: it declares SpecId, Address, FixedBytes, Bytecode, AccountStatus, AccountInfo, Account,
// EvmStorageSlot, InvalidTransaction/InvalidHeader (opaque there), EVMError, Database, Uint::default) or
// prelude/env_base.rs (the same names for units that do not: InvalidTransaction / InvalidHeader transparent).
// Requires in scope: revm_primitives::{AccessListItem, Account, AccountInfo, AccountStatus, Address,
//   AnalysisKind, AuthorizationList, BlobExcessGasAndPrice, BlockEnv, Bytecode, Bytes, CfgEnv, Env,
//   EvmStorageSlot, FixedBytes, InvalidHeader, InvalidTransaction, RecoveredAuthorization, SignedAuthorization,
//   Spec, SpecId, TxEnv, TxKind, B256, U256}, revm_primitives::kzg::EnvKzgSettings, core::cmp::Ordering.
// Transparent (real public fields / variants): SpecId, TxKind, AnalysisKind, BlobExcessGasAndPrice, CfgEnv,
//   BlockEnv, TxEnv, Env, InvalidHeader, InvalidTransaction, AccountInfo, Account, AuthorizationList.
// Opaque: Address, FixedBytes<N>, Bytes, bytes::Bytes, AccessListItem, Signed/RecoveredAuthorization,
//   EnvKzgSettings, Bytecode, EvmStorageSlot, AccountStatus -- seen through the uninterpreted views below.
// ======================================================================================
#[verifier::external_type_specification]
#[verifier::external_body]
pub struct ExBytes(Bytes);
#[verifier::external_type_specification]
#[verifier::external_body]
pub struct ExRawBytes(revm_primitives::alloy_primitives::bytes::Bytes);
#[verifier::external_type_specification]
pub struct ExTxKind(TxKind);
#[verifier::external_type_specification]
#[verifier::external_body]
pub struct ExAccessListItem(AccessListItem);
#[verifier::external_type_specification]
#[verifier::external_body]
pub struct ExSignedAuthorization(SignedAuthorization);
#[verifier::external_type_specification]
#[verifier::external_body]
pub struct ExRecoveredAuthorization(RecoveredAuthorization);
#[verifier::external_type_specification]
pub struct ExAuthorizationList(AuthorizationList);
#[verifier::external_type_specification]
#[verifier::external_body]
pub struct ExEnvKzgSettings(EnvKzgSettings);
#[verifier::external_type_specification]
pub struct ExAnalysisKind(AnalysisKind);
#[verifier::external_type_specification]
pub struct ExBlobExcessGasAndPrice(BlobExcessGasAndPrice);
#[verifier::external_type_specification]
pub struct ExCfgEnv(CfgEnv);
#[verifier::external_type_specification]
pub struct ExBlockEnv(BlockEnv);
#[verifier::external_type_specification]
pub struct ExTxEnv(TxEnv);
#[verifier::external_type_specification]
pub struct ExEnv(Env);

// ---- the fork parameter `SPEC: Spec` -------------------------------------------------------------
// `SPEC::enabled(f)` is a PROVIDED method of the external trait `Spec` (specification.rs:
// `SpecId::enabled(Self::SPEC_ID, spec_id)`; no implementation in /repo overrides it -- the `spec!` macro
// only sets SPEC_ID).  TRUSTED: that provided body, stated as the trait method's contract.
// Verus (this build) supports no associated consts of an external trait: `SPEC::SPEC_ID` is substituted by
// `spec_id_exec::<SPEC>()` (external_body wrapper whose body is exactly the real associated constant).
pub uninterp spec fn spec_id_of<SPEC>() -> SpecId;
#[verifier::external_trait_specification]
pub trait ExSpec: Sized + 'static {
    type ExternalTraitSpecificationFor: Spec;
    fn enabled(spec_id: SpecId) -> (r: bool)
        ensures r == (spec_id_of::<Self>() as u8 >= spec_id as u8);
}
#[verifier::external_body]
pub fn spec_id_exec<SPEC: Spec>() -> (r: SpecId)
    ensures r == spec_id_of::<SPEC>(),
{
    <SPEC as Spec>::SPEC_ID
}

// ---- std / core (TRUSTED) -----------------------------------------------------------------------
// core::cmp::min: "Returns the minimum of two values. Returns the first argument if the comparison
// determines them to be equal."
pub uninterp spec fn ord_le<T>(a: T, b: T) -> bool;
#[verifier::external_body]
pub broadcast proof fn axiom_ord_le_uint<const BITS: usize, const LIMBS: usize>(a: Uint<BITS, LIMBS>, b: Uint<BITS, LIMBS>)
    ensures #[trigger] ord_le(a, b) == (uval(a) <= uval(b)),
{
}
pub assume_specification<T: Ord> [core::cmp::min::<T>] (a: T, b: T) -> (r: T)
    ensures r == (if ord_le(a, b) { a } else { b });

/// `Uint::from(Uint)` is the identity (ruint from.rs: UintTryFrom<Uint<B,L>> for Uint<B,L>)
#[verifier::external_body]
pub broadcast proof fn axiom_ru_from_val_uint<const BITS: usize, const LIMBS: usize>(v: Uint<BITS, LIMBS>)
    ensures #[trigger] ru_from_val::<Uint<BITS, LIMBS>>(v) == uval(v) as int,
{
}
/// `Uint::from(u128)` denotes the same integer
#[verifier::external_body]
pub broadcast proof fn axiom_ru_from_val_u128(v: u128)
    ensures #[trigger] ru_from_val::<u128>(v) == v as int,
{
}

// ---- alloy / bytes views (TRUSTED, minimal: length, emptiness, one index) ---------------------------
/// number of bytes of a `Bytes` (alloy `Bytes` derefs to `bytes::Bytes`, whose `len()` is its length)
pub uninterp spec fn bytes_len(b: Bytes) -> nat;
pub uninterp spec fn raw_bytes_len(b: revm_primitives::alloy_primitives::bytes::Bytes) -> nat;
pub uninterp spec fn bytes_deref(b: Bytes) -> revm_primitives::alloy_primitives::bytes::Bytes;
#[verifier::external_body]
pub broadcast proof fn axiom_bytes_deref_len(b: Bytes)
    ensures #[trigger] raw_bytes_len(bytes_deref(b)) == bytes_len(b),
{
}
pub assume_specification [<Bytes as core::ops::Deref>::deref] (b: &Bytes) -> (r: &<Bytes as core::ops::Deref>::Target)
    ensures *r == bytes_deref(*b);
pub assume_specification [revm_primitives::alloy_primitives::bytes::Bytes::len] (b: &revm_primitives::alloy_primitives::bytes::Bytes) -> (r: usize)
    ensures r == raw_bytes_len(*b);

/// the byte string itself (`&Bytes` coerces to `&[u8]` through alloy's and bytes' Deref)
pub uninterp spec fn bytes_view(b: Bytes) -> Seq<u8>;
pub uninterp spec fn raw_bytes_view(b: revm_primitives::alloy_primitives::bytes::Bytes) -> Seq<u8>;
#[verifier::external_body]
pub broadcast proof fn axiom_bytes_deref_view(b: Bytes)
    ensures #[trigger] raw_bytes_view(bytes_deref(b)) == bytes_view(b), bytes_view(b).len() == bytes_len(b),
{
}
pub assume_specification [<revm_primitives::alloy_primitives::bytes::Bytes as core::ops::Deref>::deref] (b: &revm_primitives::alloy_primitives::bytes::Bytes) -> (r: &[u8])
    ensures r@ == raw_bytes_view(*b);

/// i-th byte of a fixed byte string (`FixedBytes<N>` derives Index from its `[u8; N]`)
pub uninterp spec fn fb_index<IdxT, const N: usize>(b: FixedBytes<N>, i: IdxT) -> &'static <FixedBytes<N> as core::ops::Index<IdxT>>::Output
    where [u8; N]: core::ops::Index<IdxT>;
pub assume_specification<IdxT, const N: usize> [<FixedBytes<N> as core::ops::Index<IdxT>>::index] (b: &FixedBytes<N>, i: IdxT) -> (r: &<FixedBytes<N> as core::ops::Index<IdxT>>::Output)
    where [u8; N]: core::ops::Index<IdxT>
    ensures r == fb_index(*b, i);
/// vstd gives `container[i]` on a foreign type an uninterpreted precondition: alloy's FixedBytes indexes its
/// inner `[u8; N]` (panics when out of range)
#[verifier::external_body]
pub broadcast proof fn axiom_fixed_bytes_index_req<const N: usize>(b: FixedBytes<N>, i: usize)
    ensures #[trigger] vstd::std_specs::core::IndexSpec::index_req(&b, &i) == (i < N),
{
}
pub open spec fn fb_byte<const N: usize>(b: FixedBytes<N>, i: int) -> u8 { *fb_index::<usize, N>(b, i as usize) }

/// `TxKind::is_create` (alloy common.rs: `matches!(self, Self::Create)`)
pub assume_specification [TxKind::is_create] (k: &TxKind) -> (r: bool)
    ensures r == (*k is Create);

/// code views: "the account has no code" / "the code is an EIP-7702 delegation designation 0xef0100 || address"
pub uninterp spec fn bc_is_empty(b: Bytecode) -> bool;
pub uninterp spec fn bc_is_eip7702(b: Bytecode) -> bool;
pub assume_specification [Bytecode::is_empty] (b: &Bytecode) -> (r: bool)
    ensures r == bc_is_empty(*b);
pub assume_specification [Bytecode::is_eip7702] (b: &Bytecode) -> (r: bool)
    ensures r == bc_is_eip7702(*b);

// ---- the error type of the handlers (requires in scope: revm_primitives::EVMError) -------------------

// result.rs: `impl<DBError> From<InvalidTransaction> for EVMError<DBError> { Self::Transaction(value) }` (and Header)
pub assume_specification<DBError> [<EVMError<DBError> as core::convert::From<InvalidTransaction>>::from] (value: InvalidTransaction) -> (r: EVMError<DBError>)
    ensures r == EVMError::<DBError>::Transaction(value);
pub assume_specification<DBError> [<EVMError<DBError> as core::convert::From<InvalidHeader>>::from] (value: InvalidHeader) -> (r: EVMError<DBError>)
    ensures r == EVMError::<DBError>::Header(value);

pub broadcast group group_env {
    axiom_ord_le_uint, axiom_ru_from_val_uint, axiom_ru_from_val_u128, axiom_bytes_deref_len, axiom_bytes_deref_view, axiom_fixed_bytes_index_req,
}
