// ======================================================================================
// prelude/interp.rs -- the REAL interpreter types, declared to Verus.
// `//@include prelude/interp.rs` INSIDE verus!{} AFTER prelude/ruint.rs.
// Requires in scope: revm_interpreter::{Interpreter, Gas, Stack, Contract, SharedMemory,
//   FunctionStack, InterpreterAction, InstructionResult, Host}, revm_interpreter::primitives::{Bytes, U256, Spec, SpecId}.
// `Interpreter` and `InstructionResult` are transparent (their real public fields / variants);
// the component types are opaque and seen only through the views of the contract stores
// (gas.vc, stack.vc, memory.vc ...).
// ======================================================================================
#[verifier::external_type_specification]
#[verifier::external_body]
pub struct ExGas(Gas);
#[verifier::external_type_specification]
#[verifier::external_body]
pub struct ExStack(Stack);
#[verifier::external_type_specification]
#[verifier::external_body]
pub struct ExBytes(Bytes);
#[verifier::external_type_specification]
#[verifier::external_body]
pub struct ExContract(Contract);
#[verifier::external_type_specification]
#[verifier::external_body]
pub struct ExSharedMemory(SharedMemory);
#[verifier::external_type_specification]
#[verifier::external_body]
pub struct ExFunctionStack(FunctionStack);
#[verifier::external_type_specification]
#[verifier::external_body]
pub struct ExInterpreterAction(InterpreterAction);
#[verifier::external_type_specification]
pub struct ExInstructionResult(InstructionResult);
#[verifier::external_type_specification]
pub struct ExInterpreter(Interpreter);
#[verifier::external_type_specification]
pub struct ExSpecId(SpecId);

#[verifier::external_trait_specification]
pub trait ExHost {
    type ExternalTraitSpecificationFor: Host;
}

/// Everything of an interpreter except gas, stack and instruction_result is unchanged
/// (the frame every pure stack instruction must respect).
pub open spec fn interp_rest_unchanged(a: Interpreter, b: Interpreter) -> bool {
    &&& a.instruction_pointer == b.instruction_pointer
    &&& a.contract == b.contract
    &&& a.bytecode == b.bytecode
    &&& a.is_eof == b.is_eof
    &&& a.is_eof_init == b.is_eof_init
    &&& a.shared_memory == b.shared_memory
    &&& a.function_stack == b.function_stack
    &&& a.return_data_buffer == b.return_data_buffer
    &&& a.is_static == b.is_static
    &&& a.next_action == b.next_action
}
