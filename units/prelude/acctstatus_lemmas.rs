// ======================================================================================
// prelude/acctstatus_lemmas.rs (owner: acctstatus / C15-C19) -- lemmas over the ORACLE of contracts/acctstatus.vc.
// Everything here is proved, except the two TRUSTED axioms right below (semantics of the derived PartialEq).
// Needs in scope: the enum AccountStatus and `//@views acctstatus shared`.
// These are statements over the step CONTRACTS (meaning / ev_* spec functions), not over the code; the code is tied
// to them by the contracts of the extracted on_* / transition methods.
// ======================================================================================

// TRUSTED (Rust language semantics of #[derive(PartialEq)] on a field-less enum): `==` is variant equality.
#[verifier::external_body]
broadcast proof fn axiom_status_derive_obeys_eq()
    ensures #[trigger] <AccountStatus as vstd::std_specs::cmp::PartialEqSpec>::obeys_eq_spec(),
{
}
#[verifier::external_body]
broadcast proof fn axiom_status_derive_eq(a: AccountStatus, b: AccountStatus)
    ensures #[trigger] vstd::std_specs::cmp::PartialEqSpec::eq_spec(&a, &b) == (a == b),
{
}
broadcast group group_status_eq { axiom_status_derive_obeys_eq, axiom_status_derive_eq }

// ---- meaning is injective: a contract `meaning(r) == m` determines the variant r ----
spec fn st_of(m: Meaning) -> AccountStatus {
    if m.was_destroyed {
        if m.exists { AccountStatus::DestroyedChanged } else if m.again { AccountStatus::DestroyedAgain } else { AccountStatus::Destroyed }
    } else if !m.modified {
        if !m.exists { AccountStatus::LoadedNotExisting } else if m.empty161 { AccountStatus::LoadedEmptyEIP161 } else { AccountStatus::Loaded }
    } else if m.storage_known {
        AccountStatus::InMemoryChange
    } else {
        AccountStatus::Changed
    }
}

proof fn lemma_meaning_injective(a: AccountStatus, b: AccountStatus)
    requires meaning(a) == meaning(b),
    ensures a == b,
{
}

proof fn lemma_st_of_meaning(s: AccountStatus)
    ensures st_of(meaning(s)) == s,
{
}

// ---- the spec-level machine: events, legality (= the preconditions of the extracted methods), step ----
pub enum Ev {
    Created,
    TouchedEmptyPost161,
    /// argument: had_no_info
    TouchedCreatedPre161(bool),
    /// argument: had_no_nonce_and_code
    Changed(bool),
    Selfdestructed,
}

spec fn legal(s: AccountStatus, e: Ev) -> bool {
    match e {
        Ev::TouchedEmptyPost161 => touch_legal(meaning(s)),
        Ev::TouchedCreatedPre161(_) => touch_legal(meaning(s)),
        _ => true,
    }
}

/// when on_touched_created_pre_eip161 answers None (status stays)
spec fn pre161_none(m: Meaning, had_no_info: bool) -> bool {
    m.empty161 || (m.exists && m.was_destroyed && had_no_info)
}

spec fn step(s: AccountStatus, e: Ev) -> AccountStatus {
    match e {
        Ev::Created => st_of(ev_created(meaning(s))),
        Ev::TouchedEmptyPost161 => st_of(ev_touched_empty_post_eip161(meaning(s))),
        Ev::TouchedCreatedPre161(h) => if pre161_none(meaning(s), h) { s } else { st_of(ev_touched_created_pre_eip161(meaning(s))) },
        Ev::Changed(h) => st_of(ev_changed(meaning(s), h)),
        Ev::Selfdestructed => st_of(ev_selfdestructed(meaning(s))),
    }
}

/// the oracle is consistent: every legal event maps a status meaning to a status meaning (so the contracts
/// `meaning(r) == ev_*(meaning(self))` are satisfiable and `step` is the status they determine)
proof fn lemma_step_meaning(s: AccountStatus, e: Ev)
    requires legal(s, e),
    ensures
        e is Created ==> meaning(step(s, e)) == ev_created(meaning(s)),
        e is TouchedEmptyPost161 ==> meaning(step(s, e)) == ev_touched_empty_post_eip161(meaning(s)),
        e is TouchedCreatedPre161 && !pre161_none(meaning(s), e->TouchedCreatedPre161_0) ==> meaning(step(s, e)) == ev_touched_created_pre_eip161(meaning(s)),
        e is Changed ==> meaning(step(s, e)) == ev_changed(meaning(s), e->Changed_0),
        e is Selfdestructed ==> meaning(step(s, e)) == ev_selfdestructed(meaning(s)),
{
}

/// THE LEGAL-TRANSITION RELATION (the pairs satisfying the preconditions that stand for the `unreachable!()` arms):
/// every (status, event) pair except touching-as-empty an account in status Loaded or Changed.
proof fn lemma_legal_relation(s: AccountStatus, e: Ev)
    ensures legal(s, e) <==> !((s is Loaded || s is Changed) && (e is TouchedEmptyPost161 || e is TouchedCreatedPre161)),
{
}

/// the complete step table (8 statuses x 7 events), as a cross-check of oracle against the documentation's wording
proof fn lemma_step_table()
    ensures
        // creation: in memory; "if account was destroyed previously" it stays destroyed
        forall|s: AccountStatus| #[trigger] step(s, Ev::Created) == (if meaning(s).was_destroyed { AccountStatus::DestroyedChanged } else { AccountStatus::InMemoryChange }),
        // selfdestruct: "Non existing account can't be destroyed"; first destruction Destroyed, later ones DestroyedAgain
        forall|s: AccountStatus| #[trigger] step(s, Ev::Selfdestructed) == (if s is LoadedNotExisting { s } else if meaning(s).was_destroyed { AccountStatus::DestroyedAgain } else { AccountStatus::Destroyed }),
        // touched empty, state clear: absent accounts stay, present ones are deleted
        forall|s: AccountStatus| legal(s, Ev::TouchedEmptyPost161) ==> #[trigger] step(s, Ev::TouchedEmptyPost161) == (
            if !meaning(s).exists { s } else if meaning(s).was_destroyed { AccountStatus::DestroyedAgain } else { AccountStatus::Destroyed }),
        // change
        forall|s: AccountStatus, h: bool| #[trigger] step(s, Ev::Changed(h)) == (
            if meaning(s).was_destroyed { AccountStatus::DestroyedChanged }
            else if s is Changed || (s is Loaded && !h) { AccountStatus::Changed }
            else { AccountStatus::InMemoryChange }),
        // touched empty before state clear
        forall|s: AccountStatus, h: bool| legal(s, Ev::TouchedCreatedPre161(h)) ==> #[trigger] step(s, Ev::TouchedCreatedPre161(h)) == (
            if s is LoadedEmptyEIP161 { s } else if meaning(s).was_destroyed { AccountStatus::DestroyedChanged } else { AccountStatus::InMemoryChange }),
{
}

// ---- reachable statuses from the three Loaded* statuses ----
spec fn is_loaded_status(s: AccountStatus) -> bool { !meaning(s).modified }

spec fn reach(l0: AccountStatus, s: AccountStatus) -> bool {
    match l0 {
        AccountStatus::LoadedNotExisting =>
            s is LoadedNotExisting || s is InMemoryChange || s is Destroyed || s is DestroyedChanged || s is DestroyedAgain,
        AccountStatus::Loaded =>
            s is Loaded || s is Changed || s is InMemoryChange || s is Destroyed || s is DestroyedChanged || s is DestroyedAgain,
        AccountStatus::LoadedEmptyEIP161 =>
            s is LoadedEmptyEIP161 || s is InMemoryChange || s is Destroyed || s is DestroyedChanged || s is DestroyedAgain,
        _ => false,
    }
}

/// closed: from a reachable status every legal event leads to a reachable status (legality itself is a decidable
/// predicate of the status: lemma_legal_relation)
proof fn lemma_reach_closed(l0: AccountStatus, s: AccountStatus, e: Ev)
    requires reach(l0, s), legal(s, e),
    ensures reach(l0, step(s, e)), is_loaded_status(l0),
{
}

proof fn lemma_reach_base(l0: AccountStatus)
    requires is_loaded_status(l0),
    ensures reach(l0, l0),
{
}

/// least: any set that contains l0 and is closed under legal events contains reach(l0, .)
proof fn lemma_reach_least(l0: AccountStatus, p: spec_fn(AccountStatus) -> bool, s: AccountStatus)
    requires
        is_loaded_status(l0), p(l0),
        forall|a: AccountStatus, e: Ev| p(a) && legal(a, e) ==> #[trigger] p(step(a, e)),
        reach(l0, s),
    ensures p(s),
{
    let imc = step(l0, Ev::Created);
    assert(imc == AccountStatus::InMemoryChange);
    assert(p(imc));
    let d = step(imc, Ev::Selfdestructed);
    assert(d == AccountStatus::Destroyed);
    assert(p(d));
    let dc = step(d, Ev::Created);
    assert(dc == AccountStatus::DestroyedChanged);
    assert(p(dc));
    let da = step(dc, Ev::Selfdestructed);
    assert(da == AccountStatus::DestroyedAgain);
    assert(p(da));
    if l0 is Loaded {
        let c = step(l0, Ev::Changed(false));
        assert(c == AccountStatus::Changed);
        assert(p(c));
    }
}

/// only modified statuses are ever emitted in a transition / stored in a bundle: after any legal event a status is
/// either unchanged-and-unmodified (no transition is produced) or modified, and modified statuses stay modified
proof fn lemma_step_modified(s: AccountStatus, e: Ev)
    requires legal(s, e),
    ensures
        meaning(s).modified ==> meaning(step(s, e)).modified,
        !meaning(step(s, e)).modified ==> step(s, e) == s,
{
}

// ---- C18 "status composition": extending a bundle for blocks 1..i by one for blocks i+1..n ----
// `a`  : status of the account in the first bundle (a post-transition status: modified)
// `l0` : status with which the SECOND run loaded the account from the database that holds the result of the first
// `o`  : status in the second run; `c`: status in the MONOLITHIC run (continuing from `a`)
/// the second run's load status is what a database holding the first half's result answers
spec fn compat(a: AccountStatus, l0: AccountStatus) -> bool {
    if meaning(a).exists {
        l0 is Loaded || (l0 is LoadedEmptyEIP161 && touch_legal(meaning(a)))
    } else {
        l0 is LoadedNotExisting
    }
}

/// flag consistency (an invariant of account infos, not of statuses): an account in status Changed has a nonce or code
/// (it was Loaded with one, and neither can be lost without a destruction)
spec fn flag_ok(s: AccountStatus, e: Ev) -> bool { !(s is Changed && e == Ev::Changed(true)) }

spec fn sim_inv(a: AccountStatus, l0: AccountStatus, o: AccountStatus, c: AccountStatus) -> bool {
    meaning(c).modified && (
        if !meaning(o).modified { o == l0 && obs(meaning(c)) == obs(meaning(a)) }
        else { obs(meaning(c)) == compose_obs(meaning(a), meaning(o)) })
}

proof fn lemma_sim_init(a: AccountStatus, l0: AccountStatus)
    requires meaning(a).modified, compat(a, l0),
    ensures sim_inv(a, l0, l0, a),
{
}

proof fn lemma_sim_step(a: AccountStatus, l0: AccountStatus, o: AccountStatus, c: AccountStatus, e: Ev)
    requires
        meaning(a).modified, compat(a, l0), sim_inv(a, l0, o, c),
        legal(o, e), legal(c, e), flag_ok(o, e), flag_ok(c, e),
    ensures sim_inv(a, l0, step(o, e), step(c, e)),
{
}

spec fn run(s: AccountStatus, es: Seq<Ev>) -> AccountStatus
    decreases es.len(),
{
    if es.len() == 0 { s } else { run(step(s, es[0]), es.drop_first()) }
}

spec fn run_ok(s: AccountStatus, es: Seq<Ev>) -> bool
    decreases es.len(),
{
    es.len() == 0 || (legal(s, es[0]) && flag_ok(s, es[0]) && run_ok(step(s, es[0]), es.drop_first()))
}

proof fn lemma_sim_run(a: AccountStatus, l0: AccountStatus, o: AccountStatus, c: AccountStatus, es: Seq<Ev>)
    requires meaning(a).modified, compat(a, l0), sim_inv(a, l0, o, c), run_ok(o, es), run_ok(c, es),
    ensures sim_inv(a, l0, run(o, es), run(c, es)),
    decreases es.len(),
{
    if es.len() > 0 {
        lemma_sim_step(a, l0, o, c, es[0]);
        lemma_sim_run(a, l0, step(o, es[0]), step(c, es[0]), es.drop_first());
    }
}

/// C18 at the level of statuses, for ANY history: let the first bundle leave the account in status `a`; let the second
/// run load it (l0) and apply the events `es`, ending in a modified status (so the second bundle has an entry); then
/// ANY status `t` that satisfies the contract of `AccountStatus::transition(a, run(l0, es))` is observably
/// (exists, was_destroyed, storage_known, modified) the status of the monolithic run `run(a, es)`.
proof fn lemma_c18_status_composition(a: AccountStatus, l0: AccountStatus, es: Seq<Ev>, t: AccountStatus)
    requires
        meaning(a).modified, compat(a, l0), run_ok(l0, es), run_ok(a, es),
        meaning(run(l0, es)).modified,
        obs(meaning(t)) == compose_obs(meaning(a), meaning(run(l0, es))),
    ensures
        obs(meaning(t)) == obs(meaning(run(a, es))),
{
    lemma_sim_init(a, l0);
    lemma_sim_run(a, l0, l0, a, es);
}

/// ... and the representative differs from the monolithic one only inside {Destroyed, DestroyedAgain}
proof fn lemma_obs_classes(x: AccountStatus, y: AccountStatus)
    requires meaning(x).modified, meaning(y).modified, obs(meaning(x)) == obs(meaning(y)),
    ensures x == y || ((x is Destroyed || x is DestroyedAgain) && (y is Destroyed || y is DestroyedAgain)),
{
}

/// observably equal modified statuses behave alike under every event (so the representative does not matter later)
proof fn lemma_obs_congruence(x: AccountStatus, y: AccountStatus, e: Ev)
    requires meaning(x).modified, meaning(y).modified, obs(meaning(x)) == obs(meaning(y)),
    ensures legal(x, e) == legal(y, e), obs(meaning(step(x, e))) == obs(meaning(step(y, e))),
{
}
