// ======================================================================================
// prelude/stackop.rs (owner: i256 / C03) -- Yellow-Paper effect of a PURE stack instruction on the real
// Interpreter.  `//@include` after prelude/interp.rs, `//@views gas uninterp`, `//@views stack uninterp`.
// Shape shared by all of them (static gas `g`, `n` operands, one result):
//   * gas_remaining < g               => instruction_result = OutOfGas, stack view and gas meter unchanged;
//   * enough gas, fewer than n words  => instruction_result = StackUnderflow, stack view unchanged, g charged
//                                        (the code charges first; an exceptional halt discards the frame);
//   * otherwise                       => the top n words are replaced by f(top, second, ...), exactly g is
//                                        charged, instruction_result is unchanged;
//   * always: gas limit / refund counter and every other field of the interpreter unchanged.
// Nothing here is trusted.
// ======================================================================================
/// frame + gas accounting common to every case
pub open spec fn stackop_frame(pre: Interpreter, post: Interpreter, g: u64) -> bool {
    &&& interp_rest_unchanged(pre, post)
    &&& gas_limit(post.gas) == gas_limit(pre.gas) && gas_refunded(post.gas) == gas_refunded(pre.gas)
    &&& gas_remaining(pre.gas) < g ==> post.instruction_result == InstructionResult::OutOfGas
            && stack_view(post.stack) == stack_view(pre.stack) && post.gas == pre.gas
    &&& gas_remaining(pre.gas) >= g ==> gas_remaining(post.gas) == gas_remaining(pre.gas) - g
}

pub open spec fn unop_effect(pre: Interpreter, post: Interpreter, g: u64, f: spec_fn(nat) -> nat) -> bool {
    let s = stack_view(pre.stack);
    let t = stack_view(post.stack);
    &&& stackop_frame(pre, post, g)
    &&& gas_remaining(pre.gas) >= g && s.len() < 1 ==> post.instruction_result == InstructionResult::StackUnderflow && t == s
    &&& gas_remaining(pre.gas) >= g && s.len() >= 1 ==> {
            &&& post.instruction_result == pre.instruction_result
            &&& t.len() == s.len()
            &&& t == s.drop_last().push(t.last())
            &&& uval(t.last()) == f(uval(s[s.len() - 1]))
        }
}

/// relational form for one operand: the result word r satisfies rel(top, r)
pub open spec fn unop_effect_rel(pre: Interpreter, post: Interpreter, g: u64, rel: spec_fn(nat, nat) -> bool) -> bool {
    let s = stack_view(pre.stack);
    let t = stack_view(post.stack);
    &&& stackop_frame(pre, post, g)
    &&& gas_remaining(pre.gas) >= g && s.len() < 1 ==> post.instruction_result == InstructionResult::StackUnderflow && t == s
    &&& gas_remaining(pre.gas) >= g && s.len() >= 1 ==> {
            &&& post.instruction_result == pre.instruction_result
            &&& t.len() == s.len()
            &&& t == s.drop_last().push(t.last())
            &&& rel(uval(s[s.len() - 1]), uval(t.last()))
        }
}

/// f(top, second)
pub open spec fn binop_effect(pre: Interpreter, post: Interpreter, g: u64, f: spec_fn(nat, nat) -> nat) -> bool {
    let s = stack_view(pre.stack);
    let t = stack_view(post.stack);
    &&& stackop_frame(pre, post, g)
    &&& gas_remaining(pre.gas) >= g && s.len() < 2 ==> post.instruction_result == InstructionResult::StackUnderflow && t == s
    &&& gas_remaining(pre.gas) >= g && s.len() >= 2 ==> {
            &&& post.instruction_result == pre.instruction_result
            &&& t.len() == s.len() - 1
            &&& t == s.drop_last().drop_last().push(t.last())
            &&& uval(t.last()) == f(uval(s[s.len() - 1]), uval(s[s.len() - 2]))
        }
}

/// relational form: the result word r satisfies rel(top, second, r) (for oracles given bit by bit)
pub open spec fn binop_effect_rel(pre: Interpreter, post: Interpreter, g: u64, rel: spec_fn(nat, nat, nat) -> bool) -> bool {
    let s = stack_view(pre.stack);
    let t = stack_view(post.stack);
    &&& stackop_frame(pre, post, g)
    &&& gas_remaining(pre.gas) >= g && s.len() < 2 ==> post.instruction_result == InstructionResult::StackUnderflow && t == s
    &&& gas_remaining(pre.gas) >= g && s.len() >= 2 ==> {
            &&& post.instruction_result == pre.instruction_result
            &&& t.len() == s.len() - 1
            &&& t == s.drop_last().drop_last().push(t.last())
            &&& rel(uval(s[s.len() - 1]), uval(s[s.len() - 2]), uval(t.last()))
        }
}

/// f(top, second, third)
pub open spec fn ternop_effect(pre: Interpreter, post: Interpreter, g: u64, f: spec_fn(nat, nat, nat) -> nat) -> bool {
    let s = stack_view(pre.stack);
    let t = stack_view(post.stack);
    &&& stackop_frame(pre, post, g)
    &&& gas_remaining(pre.gas) >= g && s.len() < 3 ==> post.instruction_result == InstructionResult::StackUnderflow && t == s
    &&& gas_remaining(pre.gas) >= g && s.len() >= 3 ==> {
            &&& post.instruction_result == pre.instruction_result
            &&& t.len() == s.len() - 2
            &&& t == s.drop_last().drop_last().drop_last().push(t.last())
            &&& uval(t.last()) == f(uval(s[s.len() - 1]), uval(s[s.len() - 2]), uval(s[s.len() - 3]))
        }
}

/// the whole interpreter except instruction_result is untouched (fork gate failed)
pub open spec fn interp_only_result_changed(pre: Interpreter, post: Interpreter) -> bool {
    &&& interp_rest_unchanged(pre, post)
    &&& post.gas == pre.gas
    &&& post.stack == pre.stack
}
