// ======================================================================================
// prelude/static_types.rs (owner: static / C10) -- the REAL interpreter / action / host-result types, declared
// to Verus for units `static` and `static_s`.  `//@include` INSIDE verus!{} AFTER prelude/ruint.rs and
// prelude/env.rs (which declares SpecId, Address, FixedBytes, Bytes, Bytecode, Env, Spec::enabled, spec_id_exec).
// Differs from prelude/interp.rs in: Contract, InterpreterAction, CallInputs, CreateInputs, CallScheme,
// CallValue, CreateScheme, InterpreterResult are TRANSPARENT (real public fields / variants), and the Host
// trait is declared with all its methods by the including file.
// ======================================================================================
#[verifier::external_type_specification]
#[verifier::external_body]
pub struct ExGas(Gas);
#[verifier::external_type_specification]
#[verifier::external_body]
pub struct ExStack(Stack);
#[verifier::external_type_specification]
#[verifier::external_body]
pub struct ExSharedMemory(SharedMemory);
#[verifier::external_type_specification]
#[verifier::external_body]
pub struct ExFunctionStack(FunctionStack);
#[verifier::external_type_specification]
#[verifier::external_body]
pub struct ExEOFCreateInputs(EOFCreateInputs);
#[verifier::external_type_specification]
#[verifier::external_body]
pub struct ExLogData(LogData);
#[verifier::external_type_specification]
#[verifier::reject_recursive_types(T)]
pub struct ExLog<T>(revm_interpreter::primitives::alloy_primitives::Log<T>);
#[verifier::external_type_specification]
pub struct ExInstructionResult(InstructionResult);
#[verifier::external_type_specification]
pub struct ExContract(Contract);
#[verifier::external_type_specification]
pub struct ExInterpreter(Interpreter);
#[verifier::external_type_specification]
pub struct ExInterpreterResult(InterpreterResult);
#[verifier::external_type_specification]
pub struct ExInterpreterAction(InterpreterAction);
#[verifier::external_type_specification]
pub struct ExCallInputs(CallInputs);
#[verifier::external_type_specification]
pub struct ExCallScheme(CallScheme);
#[verifier::external_type_specification]
pub struct ExCallValue(CallValue);
#[verifier::external_type_specification]
pub struct ExCreateInputs(CreateInputs);
#[verifier::external_type_specification]
pub struct ExCreateScheme(CreateScheme);
#[verifier::external_type_specification]
pub struct ExSStoreResult(SStoreResult);
#[verifier::external_type_specification]
pub struct ExSelfDestructResult(SelfDestructResult);
#[verifier::external_type_specification]
pub struct ExAccountLoad(AccountLoad);
#[verifier::external_type_specification]
#[verifier::reject_recursive_types(T)]
pub struct ExStateLoad<T>(StateLoad<T>);
#[verifier::external_type_specification]
#[verifier::reject_recursive_types(T)]
pub struct ExEip7702CodeLoad<T>(Eip7702CodeLoad<T>);
