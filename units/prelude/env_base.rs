// ======================================================================================
// prelude/env_base.rs (owner: validate / C02) -- the declarations prelude/env.rs needs and prelude/state.rs
// (owner: journal / C06) also makes; include THIS file instead of state.rs in units that do not work on the
// journaled state.  Difference: InvalidTransaction / InvalidHeader are TRANSPARENT here (C02 states which error is
// returned), EvmStorageSlot / AccountStatus / Bytecode are opaque.
// Requires in scope: revm_primitives::{db::Database, Account, AccountInfo, AccountStatus, Address, Bytecode, EVMError,
//   EvmStorageSlot, FixedBytes, InvalidHeader, InvalidTransaction, SpecId}, Uint.
// ======================================================================================
#[verifier::external_type_specification]
pub struct ExSpecId(SpecId);
#[verifier::external_type_specification]
#[verifier::external_body]
pub struct ExFixedBytes<const N: usize>(FixedBytes<N>);
#[verifier::external_type_specification]
#[verifier::external_body]
#[verifier::reject_recursive_types(T)]
pub struct ExArrayIntoIter<T, const N: usize>(core::array::IntoIter<T, N>);
#[verifier::external_type_specification]
#[verifier::external_body]
pub struct ExAddress(Address);
#[verifier::external_type_specification]
pub struct ExInvalidHeader(InvalidHeader);
#[verifier::external_type_specification]
pub struct ExInvalidTransaction(InvalidTransaction);
#[verifier::external_type_specification]
#[verifier::external_body]
pub struct ExBytecode(Bytecode);
#[verifier::external_type_specification]
#[verifier::external_body]
pub struct ExEvmStorageSlot(EvmStorageSlot);
#[verifier::external_type_specification]
#[verifier::external_body]
pub struct ExAccountStatus(AccountStatus);
#[verifier::external_type_specification]
pub struct ExAccountInfo(AccountInfo);
#[verifier::external_type_specification]
pub struct ExAccount(Account);
#[verifier::external_type_specification]
#[verifier::reject_recursive_types(DBError)]
pub struct ExEVMError<DBError>(EVMError<DBError>);
/// ruint: `#[derive(Default)]` on `struct Uint { limbs: [u64; LIMBS] }` -- the zero value
pub assume_specification<const BITS: usize, const LIMBS: usize> [<Uint<BITS, LIMBS> as core::default::Default>::default] () -> (r: Uint<BITS, LIMBS>)
    ensures uval(r) == 0;

#[verifier::external_trait_specification]
pub trait ExDatabase {
    type ExternalTraitSpecificationFor: Database;
    type Error;
}

