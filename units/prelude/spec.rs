// ======================================================================================
// prelude/spec.rs (owner: i256 / C03) -- the fork parameter `SPEC: Spec` of instructions.
// `//@include prelude/spec.rs` INSIDE verus!{} after prelude/interp.rs (needs Spec, SpecId in scope and
// ExSpecId declared).
// Verus (this build) supports neither associated consts of an external trait nor `const { }` blocks, so
// units substitute, in the extracted text (recorded as path-subst in the evidence):
//     `SPEC::SPEC_ID`  /  `<SPEC as $crate::primitives::Spec>::SPEC_ID`   ->   `spec_id_exec::<SPEC>()`
//     `if const {`                                                      ->   `if {`
// `spec_id_exec` is an external_body wrapper whose body is exactly the real associated constant (TRUSTED:
// that it returns the same SpecId on every call, which is what a `const` is); `if const { c }` evaluates
// `c` at compile time instead of run time, the value is the same.
// ======================================================================================
#[verifier::external_trait_specification]
pub trait ExSpec: Sized + 'static {
    type ExternalTraitSpecificationFor: Spec;
}
/// the fork a `SPEC` type stands for (`<SPEC as Spec>::SPEC_ID`)
pub uninterp spec fn spec_id_of<SPEC: Spec>() -> SpecId;
#[verifier::external_body]
pub fn spec_id_exec<SPEC: Spec>() -> (r: SpecId)
    ensures r == spec_id_of::<SPEC>(),
{
    <SPEC as Spec>::SPEC_ID
}
