// ======================================================================================
// prelude/bytesview.rs (owner: bytecode / C27, eofcodec / C26) -- alloy-primitives `Bytes`, TRUSTED.
// `//@include prelude/bytesview.rs` INSIDE verus!{}.  Requires in scope: `Bytes` (alloy_primitives::Bytes, e.g. through
// revm_primitives::Bytes), `Vec`, `use vstd::std_specs::cmp::*;`, and `#![feature(allocator_api)]` is NOT needed.
// Declares alloy `Bytes` and `bytes::Bytes` (alias RawBytes) OPAQUE.  A `Bytes` is seen through
//     bytes_view(b): Seq<u8>     -- the byte string it holds
// Contracts read from alloy-primitives 0.8.15 src/bytes/mod.rs and bytes 1.7.1 src/bytes.rs; only operations that some
// extracted body uses.  Everything on `[u8]` itself (len, is_empty, index, range index, get(range), starts_with,
// split_at) is vstd's own specification of the slice primitives.
// ======================================================================================
pub type RawBytes = revm_primitives::alloy_primitives::bytes::Bytes;
#[verifier::external_type_specification]
#[verifier::external_body]
pub struct ExBytes(Bytes);
#[verifier::external_type_specification]
#[verifier::external_body]
pub struct ExRawBytes(RawBytes);

/// alloy `Bytes` is a #[repr(transparent)] wrapper of `bytes::Bytes`: the wrapped value
pub uninterp spec fn raw_of(b: Bytes) -> RawBytes;
/// the byte string a `bytes::Bytes` holds
pub uninterp spec fn raw_view(b: RawBytes) -> Seq<u8>;
/// the byte string an alloy `Bytes` holds
pub open spec fn bytes_view(b: Bytes) -> Seq<u8> { raw_view(raw_of(b)) }

// alloy: `impl Deref for Bytes { type Target = bytes::Bytes; fn deref(&self) -> &bytes::Bytes { &self.0 } }`
pub assume_specification [<Bytes as core::ops::Deref>::deref] (b: &Bytes) -> (r: &<Bytes as core::ops::Deref>::Target)
    ensures *r == raw_of(*b);
// bytes: `impl Deref for Bytes { type Target = [u8]; fn deref(&self) -> &[u8] { self.as_slice() } }`
pub assume_specification [<RawBytes as core::ops::Deref>::deref] (b: &RawBytes) -> (r: &[u8])
    ensures r@ == raw_view(*b);
// alloy: `impl AsRef<[u8]> for Bytes { fn as_ref(&self) -> &[u8] { self.0.as_ref() } }`
pub assume_specification [<Bytes as core::convert::AsRef<[u8]>>::as_ref] (b: &Bytes) -> (r: &[u8])
    ensures r@ == bytes_view(*b);
// bytes: `pub const fn len(&self) -> usize { self.len }`; a slice never exceeds isize::MAX bytes (core::slice::from_raw_parts)
pub assume_specification [RawBytes::len] (b: &RawBytes) -> (r: usize)
    ensures r == raw_view(*b).len(), r <= isize::MAX;
// alloy: `#[derive(Clone)]`; bytes: "clone: shallow, both handles see the same memory"
pub assume_specification [<Bytes as core::clone::Clone>::clone] (b: &Bytes) -> (r: Bytes)
    ensures bytes_view(r) == bytes_view(*b);
// alloy: `pub const fn new() -> Self { Self(bytes::Bytes::new()) }`  "Creates a new empty Bytes"
pub assume_specification [Bytes::new] () -> (r: Bytes)
    ensures bytes_view(r) == Seq::<u8>::empty();
// alloy: `pub const fn from_static(bytes: &'static [u8]) -> Self { Self(bytes::Bytes::from_static(bytes)) }`
pub assume_specification [Bytes::from_static] (s: &'static [u8]) -> (r: Bytes)
    ensures bytes_view(r) == s@;
// alloy: `impl From<Vec<u8>> for Bytes { fn from(value: Vec<u8>) -> Self { Self(value.into()) } }`; bytes: takes over the Vec's buffer
pub assume_specification [<Bytes as core::convert::From<Vec<u8>>>::from] (v: Vec<u8>) -> (r: Bytes)
    ensures bytes_view(r) == v@;
// alloy: `pub fn slice(&self, range: impl RangeBounds<usize>) -> Self { Self(self.0.slice(range)) }`
// bytes: "Returns a slice of self for the provided range. Panics: Requires that begin <= end and end <= self.len()".
// Generic in the range type; begin/end are pinned down below for RangeTo / Range / RangeFrom<usize> (the instantiations used).
pub uninterp spec fn rb_begin<R>(range: R) -> int;
pub uninterp spec fn rb_end<R>(range: R, len: int) -> int;
pub assume_specification<R: core::ops::RangeBounds<usize>> [Bytes::slice] (b: &Bytes, range: R) -> (r: Bytes)
    requires 0 <= rb_begin(range) <= rb_end(range, bytes_view(*b).len() as int) <= bytes_view(*b).len(),
    ensures bytes_view(r) == bytes_view(*b).subrange(rb_begin(range), rb_end(range, bytes_view(*b).len() as int));
#[verifier::external_body]
pub broadcast proof fn axiom_rb_range_to(range: core::ops::RangeTo<usize>, len: int)
    ensures #[trigger] rb_end(range, len) == range.end, rb_begin(range) == 0 {}
#[verifier::external_body]
pub broadcast proof fn axiom_rb_range(range: core::ops::Range<usize>, len: int)
    ensures #[trigger] rb_end(range, len) == range.end, rb_begin(range) == range.start {}
#[verifier::external_body]
pub broadcast proof fn axiom_rb_range_from(range: core::ops::RangeFrom<usize>, len: int)
    ensures #[trigger] rb_end(range, len) == len, rb_begin(range) == range.start {}
// alloy: `pub fn split_off(&mut self, at: usize) -> Self { Self(self.0.split_off(at)) }`
// bytes: "Afterwards self contains elements [0, at), and the returned Bytes contains elements [at, len). Panics if at > len."
pub assume_specification [Bytes::split_off] (b: &mut Bytes, at: usize) -> (r: Bytes)
    requires at <= bytes_view(*old(b)).len(),
    ensures
        bytes_view(*final(b)) == bytes_view(*old(b)).subrange(0, at as int),
        bytes_view(r) == bytes_view(*old(b)).subrange(at as int, bytes_view(*old(b)).len() as int);
// alloy: `impl PartialEq<Bytes> for [u8] { fn eq(&self, other: &Bytes) -> bool { *self == other[..] } }`  (content equality).
// Extracted text compares `&[u8] == &Bytes`: std's `impl PartialEq<&B> for &A where A: PartialEq<B>`, which vstd
// specifies through the spec-level trait PartialEqSpec of `[u8]: PartialEq<Bytes>`; that is what is axiomatized.
#[verifier::external_body]
pub broadcast proof fn axiom_slice_eq_bytes_obeys()
    ensures #[trigger] <[u8] as PartialEqSpec<Bytes>>::obeys_eq_spec() {}
#[verifier::external_body]
pub broadcast proof fn axiom_slice_eq_bytes(a: &[u8], b: &Bytes)
    ensures #[trigger] <[u8] as PartialEqSpec<Bytes>>::eq_spec(a, b) == (a@ == bytes_view(*b)) {}

pub broadcast group group_bytesview {
    axiom_rb_range_to, axiom_rb_range, axiom_rb_range_from, axiom_slice_eq_bytes_obeys, axiom_slice_eq_bytes,
}
// ---- end prelude/bytesview.rs ----
