// ======================================================================================
// prelude/b256.rs (owner: memory / C11) -- alloy-primitives FixedBytes<N> / B256, TRUSTED.
// `//@include prelude/b256.rs` INSIDE verus!{} after prelude/ruint.rs.  Requires in scope: B256, U256.
// A FixedBytes<N> is seen through its N bytes (`fb_bytes`); the conversions used by SharedMemory and the
// stack are given contracts over that view (alloy-primitives 0.8 documentation: `FixedBytes<N>` is a
// `#[repr(transparent)]` wrapper of `[u8; N]`; `TryFrom<&[u8]>` is the array's; `Index` derefs to the
// array; `From<B256> for U256` is `U256::from_be_bytes(value.0)`).
// ======================================================================================
#[verifier::external_type_specification]
#[verifier::external_body]
pub struct ExFixedBytes<const N: usize>(revm_interpreter::primitives::FixedBytes<N>);
#[verifier::external_type_specification]
#[verifier::external_body]
pub struct ExTryFromSliceError(core::array::TryFromSliceError);

pub uninterp spec fn fb_bytes<const N: usize>(b: revm_interpreter::primitives::FixedBytes<N>) -> Seq<u8>;
pub open spec fn b256_bytes(b: B256) -> Seq<u8> { fb_bytes::<32>(b) }
#[verifier::external_body]
pub broadcast proof fn axiom_fb_len<const N: usize>(b: revm_interpreter::primitives::FixedBytes<N>)
    ensures #[trigger] fb_bytes::<N>(b).len() == N {}

pub assume_specification<'a, const N: usize> [<revm_interpreter::primitives::FixedBytes<N> as core::convert::TryFrom<&'a [u8]>>::try_from] (s: &[u8])
    -> (r: Result<revm_interpreter::primitives::FixedBytes<N>, <revm_interpreter::primitives::FixedBytes<N> as core::convert::TryFrom<&'a [u8]>>::Error>)
    ensures
        r is Ok == (s@.len() == N),
        r is Ok ==> fb_bytes::<N>(r->Ok_0) == s@;
pub assume_specification [<U256 as core::convert::From<B256>>::from] (b: B256) -> (r: U256)
    ensures uval(r) == ru_be_bytes_nat(b256_bytes(b));
// `&value[..]` on a FixedBytes: derive_more's `Index<I> for FixedBytes<N> where [u8; N]: Index<I>` forwards to the
// array.  Only the `RangeFull` instantiation is pinned down (the whole byte string); vstd's generic precondition
// `index_req` is uninterpreted for foreign types and is stated true for `..` (a full-range index cannot fail).
pub uninterp spec fn fb_index_is<I, const N: usize>(b: revm_interpreter::primitives::FixedBytes<N>, i: I,
    r: &<revm_interpreter::primitives::FixedBytes<N> as core::ops::Index<I>>::Output) -> bool where [u8; N]: core::ops::Index<I>;
pub assume_specification<I, const N: usize> [<revm_interpreter::primitives::FixedBytes<N> as core::ops::Index<I>>::index]
    (b: &revm_interpreter::primitives::FixedBytes<N>, i: I) -> (r: &<revm_interpreter::primitives::FixedBytes<N> as core::ops::Index<I>>::Output)
    where [u8; N]: core::ops::Index<I>
    ensures fb_index_is::<I, N>(*b, i, r);
#[verifier::external_body]
pub broadcast proof fn axiom_fb_index_req<const N: usize>(b: revm_interpreter::primitives::FixedBytes<N>, i: core::ops::RangeFull)
    ensures #[trigger] vstd::std_specs::core::IndexSpec::index_req(&b, &i) {}
#[verifier::external_body]
pub broadcast proof fn axiom_fb_index_full<const N: usize>(b: revm_interpreter::primitives::FixedBytes<N>, i: core::ops::RangeFull, r: &[u8])
    ensures #[trigger] fb_index_is::<core::ops::RangeFull, N>(b, i, r) == (r@ == fb_bytes::<N>(b)) {}
pub broadcast group group_b256 { axiom_fb_len, axiom_fb_index_req, axiom_fb_index_full }
