// ======================================================================================
// prelude/ruint.rs -- shared assumed contracts for ruint::Uint (U256 = Uint<256,4>).
// Plain Verus text; `//@include prelude/ruint.rs` it INSIDE verus!{}.
// Requires in scope:  `Uint` (use revm_primitives::ruint::Uint  or
//                      revm_interpreter::primitives::ruint::Uint)  and  vstd::prelude::*.
// Everything here is TRUSTED (DESIGN.md 2.9 item 2): each assume_specification / axiom is
// listed in the evidence of every property whose unit includes this file.
// Several builders edit this file: only APPEND clearly delimited sections
// (`// ---- section <name> (owner: <unit>) ----` ... `// ---- end section <name> ----`),
// never change an existing section without telling its owner.
// ======================================================================================

// ---- section base (owner: gascalc / C14) ----
#[verifier::external_type_specification]
#[verifier::external_body]
pub struct ExUint<const BITS: usize, const LIMBS: usize>(Uint<BITS, LIMBS>);

/// the mathematical value of a Uint
pub uninterp spec fn uval<const BITS: usize, const LIMBS: usize>(x: Uint<BITS, LIMBS>) -> nat;

/// 2^n on naturals (self-contained: no dependency on vstd::arithmetic)
pub open spec fn ru_pow2(n: nat) -> nat
    decreases n,
{
    if n == 0 { 1 } else { 2 * ru_pow2((n - 1) as nat) }
}

/// every Uint<BITS, _> value is below 2^BITS (ruint keeps the top limb masked)
#[verifier::external_body]
pub broadcast proof fn axiom_uval_bound<const BITS: usize, const LIMBS: usize>(x: Uint<BITS, LIMBS>)
    ensures #[trigger] uval(x) < ru_pow2(BITS as nat),
{
}
// ---- end section base ----

// ---- section pow2-lemmas (owner: gascalc / C14) ----  (proved, nothing trusted here)
pub proof fn lemma_ru_pow2_pos(a: nat)
    ensures ru_pow2(a) > 0,
    decreases a,
{
    if a > 0 { lemma_ru_pow2_pos((a - 1) as nat); }
}

pub proof fn lemma_ru_pow2_add(a: nat, b: nat)
    ensures ru_pow2(a + b) == ru_pow2(a) * ru_pow2(b),
    decreases a,
{
    if a > 0 {
        lemma_ru_pow2_add((a - 1) as nat, b);
        assert(ru_pow2(a + b) == 2 * ru_pow2((a - 1 + b) as nat));
        assert(2 * (ru_pow2((a - 1) as nat) * ru_pow2(b)) == (2 * ru_pow2((a - 1) as nat)) * ru_pow2(b)) by(nonlinear_arith);
    } else {
        assert(ru_pow2(0) == 1);
        assert(1 * ru_pow2(b) == ru_pow2(b));
    }
}

pub proof fn lemma_ru_pow2_mono(a: nat, b: nat)
    requires a <= b,
    ensures ru_pow2(a) <= ru_pow2(b),
    decreases b,
{
    if a < b { lemma_ru_pow2_mono(a, (b - 1) as nat); }
}

pub proof fn lemma_ru_pow2_64()
    ensures ru_pow2(8) == 256, ru_pow2(16) == 0x1_0000, ru_pow2(32) == 0x1_0000_0000,
        ru_pow2(64) == 0x1_0000_0000_0000_0000,
{
    assert(ru_pow2(8) == 256) by(compute);
    lemma_ru_pow2_add(8, 8);
    assert(ru_pow2(16) == 0x1_0000);
    lemma_ru_pow2_add(16, 16);
    assert(ru_pow2(32) == 0x1_0000_0000);
    lemma_ru_pow2_add(32, 32);
}

/// 2^256 exceeds every u64 (and 2^64)
pub proof fn lemma_ru_pow2_256_ge_64()
    ensures ru_pow2(256) >= 0x1_0000_0000_0000_0000,
{
    lemma_ru_pow2_64();
    lemma_ru_pow2_add(64, 192);
    lemma_ru_pow2_pos(192);
    assert(ru_pow2(256) >= 0x1_0000_0000_0000_0000) by(nonlinear_arith)
        requires ru_pow2(256) == ru_pow2(64) * ru_pow2(192), ru_pow2(192) > 0, ru_pow2(64) == 0x1_0000_0000_0000_0000;
}

/// floor(log2 x) of a non-zero u64 from vstd's leading-zero count
pub proof fn lemma_u64_leading_zeros_pow2(x: u64)
    requires x != 0,
    ensures
        vstd::std_specs::bits::u64_leading_zeros(x) < 64,
        ru_pow2((63 - vstd::std_specs::bits::u64_leading_zeros(x)) as nat) <= x
            < ru_pow2((64 - vstd::std_specs::bits::u64_leading_zeros(x)) as nat),
    decreases x,
{
    reveal(vstd::std_specs::bits::u64_leading_zeros);
    let y = x / 2;
    reveal_with_fuel(ru_pow2, 3);
    if y == 0 {
        assert(x == 1);
        assert(vstd::std_specs::bits::u64_leading_zeros(x) == vstd::std_specs::bits::u64_leading_zeros(0) - 1);
    } else {
        lemma_u64_leading_zeros_pow2(y);
        assert(vstd::std_specs::bits::u64_leading_zeros(x) == vstd::std_specs::bits::u64_leading_zeros(y) - 1);
    }
}
// ---- end section pow2-lemmas ----

// ---- section checked-ops / limbs / conversions (owner: gascalc / C14) ----  (TRUSTED: ruint 1.12.3)
// needs `--extern revm_primitives` (paths are spelled through revm_primitives::ruint)
#[verifier::external_trait_specification]
pub trait ExUintTryFrom<T>: Sized {
    type ExternalTraitSpecificationFor: revm_primitives::ruint::UintTryFrom<T>;
}
#[verifier::external_type_specification]
#[verifier::external_body]
#[verifier::reject_recursive_types(T)]
pub struct ExFromUintError<T>(revm_primitives::ruint::FromUintError<T>);
#[verifier::external_type_specification]
#[verifier::external_body]
#[verifier::reject_recursive_types(T)]
pub struct ExToUintError<T>(revm_primitives::ruint::ToUintError<T>);

/// the integer a primitive value denotes when handed to `Uint::from` (one axiom per source type)
pub uninterp spec fn ru_from_val<T>(v: T) -> int;
#[verifier::external_body]
pub broadcast proof fn axiom_ru_from_val_u64(v: u64)
    ensures #[trigger] ru_from_val::<u64>(v) == v as int,
{
}
#[verifier::external_body]
pub broadcast proof fn axiom_ru_from_val_i32(v: i32)
    ensures #[trigger] ru_from_val::<i32>(v) == v as int,
{
}

/// `Uint::from` panics when the value does not fit: that is its precondition here
pub assume_specification<const BITS: usize, const LIMBS: usize, T> [Uint::<BITS, LIMBS>::from::<T>] (value: T) -> (r: Uint<BITS, LIMBS>)
    where Uint<BITS, LIMBS>: revm_primitives::ruint::UintTryFrom<T>
    requires 0 <= ru_from_val(value) < ru_pow2(BITS as nat),
    ensures uval(r) == ru_from_val(value);

pub assume_specification<const BITS: usize, const LIMBS: usize> [Uint::<BITS, LIMBS>::is_zero] (x: &Uint<BITS, LIMBS>) -> (r: bool)
    ensures r == (uval(*x) == 0);

pub assume_specification<const BITS: usize, const LIMBS: usize> [<Uint<BITS, LIMBS> as PartialEq>::eq] (a: &Uint<BITS, LIMBS>, b: &Uint<BITS, LIMBS>) -> (r: bool)
    ensures r == (uval(*a) == uval(*b));

pub assume_specification<const BITS: usize, const LIMBS: usize> [Uint::<BITS, LIMBS>::checked_add] (a: Uint<BITS, LIMBS>, b: Uint<BITS, LIMBS>) -> (r: Option<Uint<BITS, LIMBS>>)
    ensures
        r.is_some() == (uval(a) + uval(b) < ru_pow2(BITS as nat)),
        r.is_some() ==> uval(r.unwrap()) == uval(a) + uval(b);

pub assume_specification<const BITS: usize, const LIMBS: usize> [Uint::<BITS, LIMBS>::checked_mul] (a: Uint<BITS, LIMBS>, b: Uint<BITS, LIMBS>) -> (r: Option<Uint<BITS, LIMBS>>)
    ensures
        r.is_some() == (uval(a) * uval(b) < ru_pow2(BITS as nat)),
        r.is_some() ==> uval(r.unwrap()) == uval(a) * uval(b);

/// little-endian 64-bit limbs
pub uninterp spec fn ru_limbs<const BITS: usize, const LIMBS: usize>(x: Uint<BITS, LIMBS>) -> Seq<u64>;
pub open spec fn ru_limbs_nat(s: Seq<u64>) -> nat
    decreases s.len(),
{
    if s.len() == 0 { 0 } else { s[0] as nat + 0x1_0000_0000_0000_0000 * ru_limbs_nat(s.drop_first()) }
}
#[verifier::external_body]
pub broadcast proof fn axiom_ru_limbs<const BITS: usize, const LIMBS: usize>(x: Uint<BITS, LIMBS>)
    ensures (#[trigger] ru_limbs(x)).len() == LIMBS, uval(x) == ru_limbs_nat(ru_limbs(x)),
{
}
pub assume_specification<const BITS: usize, const LIMBS: usize> [Uint::<BITS, LIMBS>::as_limbs] (x: &Uint<BITS, LIMBS>) -> (r: &[u64; LIMBS])
    ensures r@ == ru_limbs(*x);

pub assume_specification<const BITS: usize, const LIMBS: usize> [<u64 as TryFrom<Uint<BITS, LIMBS>>>::try_from] (x: Uint<BITS, LIMBS>) -> (r: Result<u64, <u64 as TryFrom<Uint<BITS, LIMBS>>>::Error>)
    ensures
        r.is_ok() == (uval(x) <= u64::MAX),
        r.is_ok() ==> r.unwrap() == uval(x);
// ---- end section checked-ops / limbs / conversions ----

// ---- section core-axioms (owner: i256 / C03) ----  (TRUSTED: 1 axiom; the rest is proved)
/// uval is injective: ruint keeps the bits above BITS zero, so two Uints with the same value have
/// the same limbs and are the same Uint (the derived structural `==`)
#[verifier::external_body]
pub broadcast proof fn axiom_uval_inj<const BITS: usize, const LIMBS: usize>(x: Uint<BITS, LIMBS>, y: Uint<BITS, LIMBS>)
    ensures (#[trigger] uval(x) == #[trigger] uval(y)) == (x == y),
{
}

/// bridge to vstd: ru_pow2 is vstd::arithmetic::power2::pow2 (so vstd's pow2 lemmas apply)
pub proof fn lemma_ru_pow2_is_pow2(n: nat)
    ensures ru_pow2(n) == vstd::arithmetic::power2::pow2(n),
    decreases n,
{
    if n == 0 {
        vstd::arithmetic::power2::lemma2_to64();
    } else {
        lemma_ru_pow2_is_pow2((n - 1) as nat);
        vstd::arithmetic::power2::lemma_pow2_unfold(n);
    }
}

/// the concrete powers the 256-bit code needs
pub proof fn lemma_ru_pow2_values()
    ensures
        ru_pow2(0) == 1, ru_pow2(1) == 2, ru_pow2(8) == 256,
        ru_pow2(63) == 0x8000_0000_0000_0000,
        ru_pow2(64) == 0x1_0000_0000_0000_0000,
        ru_pow2(128) == 0x1_0000_0000_0000_0000_0000_0000_0000_0000,
        ru_pow2(192) == 0x1_0000_0000_0000_0000_0000_0000_0000_0000_0000_0000_0000_0000,
        ru_pow2(255) == 0x8000_0000_0000_0000_0000_0000_0000_0000_0000_0000_0000_0000_0000_0000_0000_0000,
        ru_pow2(256) == 0x1_0000_0000_0000_0000_0000_0000_0000_0000_0000_0000_0000_0000_0000_0000_0000_0000,
{
    lemma_ru_pow2_64();
    reveal_with_fuel(ru_pow2, 2);
    lemma_ru_pow2_add(63, 1);
    lemma_ru_pow2_add(64, 64);
    lemma_ru_pow2_add(128, 64);
    lemma_ru_pow2_add(192, 64);
    lemma_ru_pow2_add(255, 1);
}

/// bit i of a natural number
pub open spec fn ubit(x: nat, i: nat) -> bool {
    (x / ru_pow2(i)) % 2 == 1
}

/// three-way comparison of naturals as core::cmp::Ordering
pub open spec fn nat_cmp(a: nat, b: nat) -> core::cmp::Ordering {
    if a < b { core::cmp::Ordering::Less } else if a == b { core::cmp::Ordering::Equal } else { core::cmp::Ordering::Greater }
}

/// value of a 4-limb little-endian sequence, closed form (limb i holds bits 64i .. 64i+63)
pub proof fn lemma_ru_limbs_nat_4(s: Seq<u64>)
    requires s.len() == 4,
    ensures
        ru_limbs_nat(s) == s[0] as nat + 0x1_0000_0000_0000_0000 * (s[1] as nat + 0x1_0000_0000_0000_0000 * (s[2] as nat + 0x1_0000_0000_0000_0000 * (s[3] as nat))),
        ru_limbs_nat(s) == s[0] as nat + ru_pow2(64) * s[1] as nat + ru_pow2(128) * s[2] as nat + ru_pow2(192) * s[3] as nat,
        ru_limbs_nat(s) < ru_pow2(256),
{
    reveal_with_fuel(ru_limbs_nat, 6);
    let s1 = s.drop_first();
    let s2 = s1.drop_first();
    let s3 = s2.drop_first();
    let s4 = s3.drop_first();
    assert(s4.len() == 0);
    assert(s1[0] == s[1] && s2[0] == s[2] && s3[0] == s[3]);
    lemma_ru_pow2_values();
    let b: nat = 0x1_0000_0000_0000_0000;
    let (a0, a1, a2, a3) = (s[0] as nat, s[1] as nat, s[2] as nat, s[3] as nat);
    assert(ru_limbs_nat(s) == a0 + b * (a1 + b * (a2 + b * a3)));
    assert(a0 + b * (a1 + b * (a2 + b * a3)) == a0 + b * a1 + (b * b) * a2 + (b * b * b) * a3) by(nonlinear_arith);
    assert(b * b == ru_pow2(128) && b * b * b == ru_pow2(192)) by(nonlinear_arith)
        requires b == 0x1_0000_0000_0000_0000, ru_pow2(128) == 0x1_0000_0000_0000_0000_0000_0000_0000_0000,
            ru_pow2(192) == 0x1_0000_0000_0000_0000_0000_0000_0000_0000_0000_0000_0000_0000;
    assert(a0 + b * (a1 + b * (a2 + b * a3)) < b * b * b * b) by(nonlinear_arith)
        requires a0 < b, a1 < b, a2 < b, a3 < b;
    assert(b * b * b * b == ru_pow2(256)) by(nonlinear_arith)
        requires b == 0x1_0000_0000_0000_0000,
            ru_pow2(256) == 0x1_0000_0000_0000_0000_0000_0000_0000_0000_0000_0000_0000_0000_0000_0000_0000_0000;
}
// ---- end section core-axioms ----

// ---- section arithmetic (owner: i256 / C03) ----  (TRUSTED: ruint 1.12.3 add.rs mul.rs div.rs modular.rs pow.rs)
// "Computes `self + rhs`, wrapping around at the boundary of the type."
pub assume_specification<const BITS: usize, const LIMBS: usize> [Uint::<BITS, LIMBS>::wrapping_add] (a: Uint<BITS, LIMBS>, b: Uint<BITS, LIMBS>) -> (r: Uint<BITS, LIMBS>)
    ensures uval(r) == (uval(a) + uval(b)) % ru_pow2(BITS as nat);

pub assume_specification<const BITS: usize, const LIMBS: usize> [Uint::<BITS, LIMBS>::wrapping_sub] (a: Uint<BITS, LIMBS>, b: Uint<BITS, LIMBS>) -> (r: Uint<BITS, LIMBS>)
    ensures uval(r) as int == (uval(a) as int - uval(b) as int) % (ru_pow2(BITS as nat) as int);

pub assume_specification<const BITS: usize, const LIMBS: usize> [Uint::<BITS, LIMBS>::wrapping_mul] (a: Uint<BITS, LIMBS>, b: Uint<BITS, LIMBS>) -> (r: Uint<BITS, LIMBS>)
    ensures uval(r) == (uval(a) * uval(b)) % ru_pow2(BITS as nat);

// "Computes `-self`, wrapping around at the boundary of the type."  ( = mod(-self, 2^BITS) )
pub assume_specification<const BITS: usize, const LIMBS: usize> [Uint::<BITS, LIMBS>::wrapping_neg] (a: Uint<BITS, LIMBS>) -> (r: Uint<BITS, LIMBS>)
    ensures uval(r) as int == (ru_pow2(BITS as nat) as int - uval(a) as int) % (ru_pow2(BITS as nat) as int);

// "Computes `self / rhs` rounding down.  Panics if `rhs == 0`."
pub assume_specification<const BITS: usize, const LIMBS: usize> [Uint::<BITS, LIMBS>::wrapping_div] (a: Uint<BITS, LIMBS>, b: Uint<BITS, LIMBS>) -> (r: Uint<BITS, LIMBS>)
    requires uval(b) != 0,
    ensures uval(r) == uval(a) / uval(b);

// "Computes `self % rhs`.  Panics if `rhs == 0`."
pub assume_specification<const BITS: usize, const LIMBS: usize> [Uint::<BITS, LIMBS>::wrapping_rem] (a: Uint<BITS, LIMBS>, b: Uint<BITS, LIMBS>) -> (r: Uint<BITS, LIMBS>)
    requires uval(b) != 0,
    ensures uval(r) == uval(a) % uval(b);

pub assume_specification<const BITS: usize, const LIMBS: usize> [Uint::<BITS, LIMBS>::checked_sub] (a: Uint<BITS, LIMBS>, b: Uint<BITS, LIMBS>) -> (r: Option<Uint<BITS, LIMBS>>)
    ensures
        r.is_some() == (uval(a) >= uval(b)),
        r.is_some() ==> uval(r.unwrap()) == uval(a) - uval(b);

// overflowing_*: "(wrapped value, whether an arithmetic overflow would occur)"
pub assume_specification<const BITS: usize, const LIMBS: usize> [Uint::<BITS, LIMBS>::overflowing_add] (a: Uint<BITS, LIMBS>, b: Uint<BITS, LIMBS>) -> (r: (Uint<BITS, LIMBS>, bool))
    ensures
        uval(r.0) == (uval(a) + uval(b)) % ru_pow2(BITS as nat),
        r.1 == (uval(a) + uval(b) >= ru_pow2(BITS as nat));

pub assume_specification<const BITS: usize, const LIMBS: usize> [Uint::<BITS, LIMBS>::overflowing_sub] (a: Uint<BITS, LIMBS>, b: Uint<BITS, LIMBS>) -> (r: (Uint<BITS, LIMBS>, bool))
    ensures
        uval(r.0) as int == (uval(a) as int - uval(b) as int) % (ru_pow2(BITS as nat) as int),
        r.1 == (uval(a) < uval(b));

pub assume_specification<const BITS: usize, const LIMBS: usize> [Uint::<BITS, LIMBS>::overflowing_mul] (a: Uint<BITS, LIMBS>, b: Uint<BITS, LIMBS>) -> (r: (Uint<BITS, LIMBS>, bool))
    ensures
        uval(r.0) == (uval(a) * uval(b)) % ru_pow2(BITS as nat),
        r.1 == (uval(a) * uval(b) >= ru_pow2(BITS as nat));

// saturating_*: "saturating at the numeric bounds instead of overflowing"
pub assume_specification<const BITS: usize, const LIMBS: usize> [Uint::<BITS, LIMBS>::saturating_add] (a: Uint<BITS, LIMBS>, b: Uint<BITS, LIMBS>) -> (r: Uint<BITS, LIMBS>)
    ensures uval(r) == if uval(a) + uval(b) < ru_pow2(BITS as nat) { uval(a) + uval(b) } else { (ru_pow2(BITS as nat) - 1) as nat };

pub assume_specification<const BITS: usize, const LIMBS: usize> [Uint::<BITS, LIMBS>::saturating_sub] (a: Uint<BITS, LIMBS>, b: Uint<BITS, LIMBS>) -> (r: Uint<BITS, LIMBS>)
    ensures uval(r) == if uval(a) >= uval(b) { (uval(a) - uval(b)) as nat } else { 0 };

pub assume_specification<const BITS: usize, const LIMBS: usize> [Uint::<BITS, LIMBS>::saturating_mul] (a: Uint<BITS, LIMBS>, b: Uint<BITS, LIMBS>) -> (r: Uint<BITS, LIMBS>)
    ensures uval(r) == if uval(a) * uval(b) < ru_pow2(BITS as nat) { uval(a) * uval(b) } else { (ru_pow2(BITS as nat) - 1) as nat };

// "Compute mod(self + rhs, modulus).  Returns zero if the modulus is zero."
pub assume_specification<const BITS: usize, const LIMBS: usize> [Uint::<BITS, LIMBS>::add_mod] (a: Uint<BITS, LIMBS>, b: Uint<BITS, LIMBS>, m: Uint<BITS, LIMBS>) -> (r: Uint<BITS, LIMBS>)
    ensures uval(r) == if uval(m) == 0 { 0 } else { (uval(a) + uval(b)) % uval(m) };

// "Compute mod(self * rhs, modulus).  Returns zero if the modulus is zero."
pub assume_specification<const BITS: usize, const LIMBS: usize> [Uint::<BITS, LIMBS>::mul_mod] (a: Uint<BITS, LIMBS>, b: Uint<BITS, LIMBS>, m: Uint<BITS, LIMBS>) -> (r: Uint<BITS, LIMBS>)
    ensures uval(r) == if uval(m) == 0 { 0 } else { (uval(a) * uval(b)) % uval(m) };

// "Raises self to the power of `exp`, wrapping around on overflow."  (0^0 == 1 as in vstd's pow)
pub assume_specification<const BITS: usize, const LIMBS: usize> [Uint::<BITS, LIMBS>::pow] (a: Uint<BITS, LIMBS>, e: Uint<BITS, LIMBS>) -> (r: Uint<BITS, LIMBS>)
    ensures uval(r) as int == vstd::arithmetic::power::pow(uval(a) as int, uval(e)) % (ru_pow2(BITS as nat) as int);

// operators (ruint macros.rs impl_bin_op!: `a + b` is a.wrapping_add(b), `a / b` is a.wrapping_div(b), ...).
// vstd gives every operator trait a precondition `x_req`; for the foreign type Uint it is uninterpreted, the
// axioms below state it (true, or "divisor non-zero": ruint's Div/Rem PANIC on a zero divisor).
pub assume_specification<const BITS: usize, const LIMBS: usize> [<Uint<BITS, LIMBS> as core::ops::Add<Uint<BITS, LIMBS>>>::add] (a: Uint<BITS, LIMBS>, b: Uint<BITS, LIMBS>) -> (r: <Uint<BITS, LIMBS> as core::ops::Add>::Output)
    ensures uval(r) == (uval(a) + uval(b)) % ru_pow2(BITS as nat);
pub assume_specification<const BITS: usize, const LIMBS: usize> [<Uint<BITS, LIMBS> as core::ops::Sub<Uint<BITS, LIMBS>>>::sub] (a: Uint<BITS, LIMBS>, b: Uint<BITS, LIMBS>) -> (r: <Uint<BITS, LIMBS> as core::ops::Sub>::Output)
    ensures uval(r) as int == (uval(a) as int - uval(b) as int) % (ru_pow2(BITS as nat) as int);
pub assume_specification<const BITS: usize, const LIMBS: usize> [<Uint<BITS, LIMBS> as core::ops::Mul<Uint<BITS, LIMBS>>>::mul] (a: Uint<BITS, LIMBS>, b: Uint<BITS, LIMBS>) -> (r: <Uint<BITS, LIMBS> as core::ops::Mul>::Output)
    ensures uval(r) == (uval(a) * uval(b)) % ru_pow2(BITS as nat);
pub assume_specification<const BITS: usize, const LIMBS: usize> [<Uint<BITS, LIMBS> as core::ops::Div<Uint<BITS, LIMBS>>>::div] (a: Uint<BITS, LIMBS>, b: Uint<BITS, LIMBS>) -> (r: <Uint<BITS, LIMBS> as core::ops::Div>::Output)
    ensures uval(b) != 0 ==> uval(r) == uval(a) / uval(b);
pub assume_specification<const BITS: usize, const LIMBS: usize> [<Uint<BITS, LIMBS> as core::ops::Rem<Uint<BITS, LIMBS>>>::rem] (a: Uint<BITS, LIMBS>, b: Uint<BITS, LIMBS>) -> (r: <Uint<BITS, LIMBS> as core::ops::Rem>::Output)
    ensures uval(b) != 0 ==> uval(r) == uval(a) % uval(b);
pub assume_specification<const BITS: usize, const LIMBS: usize> [<Uint<BITS, LIMBS> as core::ops::Neg>::neg] (a: Uint<BITS, LIMBS>) -> (r: <Uint<BITS, LIMBS> as core::ops::Neg>::Output)
    ensures uval(r) as int == (ru_pow2(BITS as nat) as int - uval(a) as int) % (ru_pow2(BITS as nat) as int);

#[verifier::external_body]
pub broadcast proof fn axiom_uint_add_req<const BITS: usize, const LIMBS: usize>(a: Uint<BITS, LIMBS>, b: Uint<BITS, LIMBS>)
    ensures #[trigger] vstd::std_specs::ops::AddSpec::add_req(a, b),
{
}
#[verifier::external_body]
pub broadcast proof fn axiom_uint_sub_req<const BITS: usize, const LIMBS: usize>(a: Uint<BITS, LIMBS>, b: Uint<BITS, LIMBS>)
    ensures #[trigger] vstd::std_specs::ops::SubSpec::sub_req(a, b),
{
}
#[verifier::external_body]
pub broadcast proof fn axiom_uint_mul_req<const BITS: usize, const LIMBS: usize>(a: Uint<BITS, LIMBS>, b: Uint<BITS, LIMBS>)
    ensures #[trigger] vstd::std_specs::ops::MulSpec::mul_req(a, b),
{
}
/// ruint's `/` panics on a zero divisor: that is the precondition
#[verifier::external_body]
pub broadcast proof fn axiom_uint_div_req<const BITS: usize, const LIMBS: usize>(a: Uint<BITS, LIMBS>, b: Uint<BITS, LIMBS>)
    ensures #[trigger] vstd::std_specs::ops::DivSpec::div_req(a, b) == (uval(b) != 0),
{
}
/// ruint's `%` panics on a zero divisor: that is the precondition
#[verifier::external_body]
pub broadcast proof fn axiom_uint_rem_req<const BITS: usize, const LIMBS: usize>(a: Uint<BITS, LIMBS>, b: Uint<BITS, LIMBS>)
    ensures #[trigger] vstd::std_specs::ops::RemSpec::rem_req(a, b) == (uval(b) != 0),
{
}
#[verifier::external_body]
pub broadcast proof fn axiom_uint_neg_req<const BITS: usize, const LIMBS: usize>(a: Uint<BITS, LIMBS>)
    ensures #[trigger] vstd::std_specs::ops::NegSpec::neg_req(a),
{
}
// ---- end section arithmetic ----

// ---- section bits-and-shifts (owner: i256 / C03) ----  (TRUSTED: ruint 1.12.3 bits.rs)
// "Returns whether a specific bit is set.  Returns `false` if `index` exceeds the bit width of the number."
pub assume_specification<const BITS: usize, const LIMBS: usize> [Uint::<BITS, LIMBS>::bit] (x: &Uint<BITS, LIMBS>, index: usize) -> (r: bool)
    ensures r == (index < BITS && ubit(uval(*x), index as nat));

// "Returns a specific byte. The byte at index `0` is the least significant byte (little endian).
//  Panics if `index` exceeds the byte width of the number."
pub assume_specification<const BITS: usize, const LIMBS: usize> [Uint::<BITS, LIMBS>::byte] (x: &Uint<BITS, LIMBS>, index: usize) -> (r: u8)
    requires index < (BITS + 7) / 8,
    ensures r as nat == (uval(*x) / ru_pow2(8 * index as nat)) % 256;

// wrapping_shl: "Returns mod(value * 2^rhs, 2^BITS)"  (NOT reduced modulo BITS like u64::wrapping_shl)
pub assume_specification<const BITS: usize, const LIMBS: usize> [<Uint<BITS, LIMBS> as core::ops::Shl<usize>>::shl] (a: Uint<BITS, LIMBS>, rhs: usize) -> (r: <Uint<BITS, LIMBS> as core::ops::Shl<usize>>::Output)
    ensures uval(r) == (uval(a) * ru_pow2(rhs as nat)) % ru_pow2(BITS as nat);

// wrapping_shr: "floor(self / 2^rhs)"
pub assume_specification<const BITS: usize, const LIMBS: usize> [<Uint<BITS, LIMBS> as core::ops::Shr<usize>>::shr] (a: Uint<BITS, LIMBS>, rhs: usize) -> (r: <Uint<BITS, LIMBS> as core::ops::Shr<usize>>::Output)
    ensures uval(r) == uval(a) / ru_pow2(rhs as nat);

pub assume_specification<const BITS: usize, const LIMBS: usize> [Uint::<BITS, LIMBS>::wrapping_shl] (a: Uint<BITS, LIMBS>, rhs: usize) -> (r: Uint<BITS, LIMBS>)
    ensures uval(r) == (uval(a) * ru_pow2(rhs as nat)) % ru_pow2(BITS as nat);

pub assume_specification<const BITS: usize, const LIMBS: usize> [Uint::<BITS, LIMBS>::wrapping_shr] (a: Uint<BITS, LIMBS>, rhs: usize) -> (r: Uint<BITS, LIMBS>)
    ensures uval(r) == uval(a) / ru_pow2(rhs as nat);

// "Arithmetic shift right by `rhs` bits."  = floor(signed(self) / 2^rhs) mod 2^BITS, with
// signed(x) = x - 2^BITS when the top bit (BITS-1) is set (the vacated bits are filled with the top bit;
// for rhs >= BITS the result is 0 resp. 2^BITS - 1).  `/` on int with a positive divisor is floor division.
pub assume_specification<const BITS: usize, const LIMBS: usize> [Uint::<BITS, LIMBS>::arithmetic_shr] (a: Uint<BITS, LIMBS>, rhs: usize) -> (r: Uint<BITS, LIMBS>)
    requires BITS > 0,
    ensures
        uval(a) < ru_pow2((BITS - 1) as nat) ==> uval(r) == uval(a) / ru_pow2(rhs as nat),
        uval(a) >= ru_pow2((BITS - 1) as nat) ==> uval(r) as int ==
            ((uval(a) as int - ru_pow2(BITS as nat) as int) / (ru_pow2(rhs as nat) as int)) % (ru_pow2(BITS as nat) as int);

// `!x` flips the low BITS bits
pub assume_specification<const BITS: usize, const LIMBS: usize> [<Uint<BITS, LIMBS> as core::ops::Not>::not] (a: Uint<BITS, LIMBS>) -> (r: <Uint<BITS, LIMBS> as core::ops::Not>::Output)
    ensures uval(r) == ru_pow2(BITS as nat) - 1 - uval(a);

// `&`, `|`, `^`: limb-wise, i.e. bit-wise on the value
pub assume_specification<const BITS: usize, const LIMBS: usize> [<Uint<BITS, LIMBS> as core::ops::BitAnd<Uint<BITS, LIMBS>>>::bitand] (a: Uint<BITS, LIMBS>, b: Uint<BITS, LIMBS>) -> (r: <Uint<BITS, LIMBS> as core::ops::BitAnd>::Output)
    ensures forall|i: nat| i < BITS ==> #[trigger] ubit(uval(r), i) == (ubit(uval(a), i) && ubit(uval(b), i));
pub assume_specification<const BITS: usize, const LIMBS: usize> [<Uint<BITS, LIMBS> as core::ops::BitOr<Uint<BITS, LIMBS>>>::bitor] (a: Uint<BITS, LIMBS>, b: Uint<BITS, LIMBS>) -> (r: <Uint<BITS, LIMBS> as core::ops::BitOr>::Output)
    ensures forall|i: nat| i < BITS ==> #[trigger] ubit(uval(r), i) == (ubit(uval(a), i) || ubit(uval(b), i));
pub assume_specification<const BITS: usize, const LIMBS: usize> [<Uint<BITS, LIMBS> as core::ops::BitXor<Uint<BITS, LIMBS>>>::bitxor] (a: Uint<BITS, LIMBS>, b: Uint<BITS, LIMBS>) -> (r: <Uint<BITS, LIMBS> as core::ops::BitXor>::Output)
    ensures forall|i: nat| i < BITS ==> #[trigger] ubit(uval(r), i) == (ubit(uval(a), i) != ubit(uval(b), i));

#[verifier::external_body]
pub broadcast proof fn axiom_uint_shl_req<const BITS: usize, const LIMBS: usize>(a: Uint<BITS, LIMBS>, rhs: usize)
    ensures #[trigger] vstd::std_specs::ops::ShlSpec::shl_req(a, rhs),
{
}
#[verifier::external_body]
pub broadcast proof fn axiom_uint_shr_req<const BITS: usize, const LIMBS: usize>(a: Uint<BITS, LIMBS>, rhs: usize)
    ensures #[trigger] vstd::std_specs::ops::ShrSpec::shr_req(a, rhs),
{
}
#[verifier::external_body]
pub broadcast proof fn axiom_uint_not_req<const BITS: usize, const LIMBS: usize>(a: Uint<BITS, LIMBS>)
    ensures #[trigger] vstd::std_specs::ops::NotSpec::not_req(a),
{
}
#[verifier::external_body]
pub broadcast proof fn axiom_uint_bitand_req<const BITS: usize, const LIMBS: usize>(a: Uint<BITS, LIMBS>, b: Uint<BITS, LIMBS>)
    ensures #[trigger] vstd::std_specs::ops::BitAndSpec::bitand_req(a, b),
{
}
#[verifier::external_body]
pub broadcast proof fn axiom_uint_bitor_req<const BITS: usize, const LIMBS: usize>(a: Uint<BITS, LIMBS>, b: Uint<BITS, LIMBS>)
    ensures #[trigger] vstd::std_specs::ops::BitOrSpec::bitor_req(a, b),
{
}
#[verifier::external_body]
pub broadcast proof fn axiom_uint_bitxor_req<const BITS: usize, const LIMBS: usize>(a: Uint<BITS, LIMBS>, b: Uint<BITS, LIMBS>)
    ensures #[trigger] vstd::std_specs::ops::BitXorSpec::bitxor_req(a, b),
{
}

// "Returns the number of leading zeros in the binary representation of `self`."  (BITS for zero)
pub assume_specification<const BITS: usize, const LIMBS: usize> [Uint::<BITS, LIMBS>::leading_zeros] (x: &Uint<BITS, LIMBS>) -> (r: usize)
    ensures
        r <= BITS,
        uval(*x) == 0 ==> r == BITS,
        uval(*x) != 0 ==> r < BITS && ru_pow2((BITS - 1 - r) as nat) <= uval(*x) < ru_pow2((BITS - r) as nat);
// ---- end section bits-and-shifts ----

// ---- section compare (owner: i256 / C03) ----  (TRUSTED: ruint 1.12.3 cmp.rs; Uint derives PartialEq/Eq)
// `==` itself (PartialEq::eq) is specified in gascalc's section above.
pub assume_specification<const BITS: usize, const LIMBS: usize> [<Uint<BITS, LIMBS> as core::cmp::Ord>::cmp] (a: &Uint<BITS, LIMBS>, b: &Uint<BITS, LIMBS>) -> (r: core::cmp::Ordering)
    ensures r == nat_cmp(uval(*a), uval(*b));
pub assume_specification<const BITS: usize, const LIMBS: usize> [<Uint<BITS, LIMBS> as core::cmp::PartialOrd>::partial_cmp] (a: &Uint<BITS, LIMBS>, b: &Uint<BITS, LIMBS>) -> (r: Option<core::cmp::Ordering>)
    ensures r == Some(nat_cmp(uval(*a), uval(*b)));

// `!=`, `<`, `<=`, `>`, `>=` are PROVIDED methods of PartialEq / PartialOrd (no impl in ruint to attach a
// specification to): vstd specifies them through the type's eq_spec / partial_cmp_spec, stated here.
#[verifier::external_body]
pub broadcast proof fn axiom_uint_obeys_eq_spec<const BITS: usize, const LIMBS: usize>()
    ensures #[trigger] <Uint<BITS, LIMBS> as vstd::std_specs::cmp::PartialEqSpec>::obeys_eq_spec(),
{
}
#[verifier::external_body]
pub broadcast proof fn axiom_uint_eq_spec<const BITS: usize, const LIMBS: usize>(a: Uint<BITS, LIMBS>, b: Uint<BITS, LIMBS>)
    ensures #[trigger] vstd::std_specs::cmp::PartialEqSpec::eq_spec(&a, &b) == (uval(a) == uval(b)),
{
}
#[verifier::external_body]
pub broadcast proof fn axiom_uint_obeys_partial_cmp_spec<const BITS: usize, const LIMBS: usize>()
    ensures #[trigger] <Uint<BITS, LIMBS> as vstd::std_specs::cmp::PartialOrdSpec>::obeys_partial_cmp_spec(),
{
}
#[verifier::external_body]
pub broadcast proof fn axiom_uint_partial_cmp_spec<const BITS: usize, const LIMBS: usize>(a: Uint<BITS, LIMBS>, b: Uint<BITS, LIMBS>)
    ensures #[trigger] vstd::std_specs::cmp::PartialOrdSpec::partial_cmp_spec(&a, &b) == Some(nat_cmp(uval(a), uval(b))),
{
}
// ---- end section compare ----

// ---- section conversions-2 (owner: i256 / C03) ----  (TRUSTED: ruint 1.12.3 from.rs lib.rs bytes.rs)
// more source types for gascalc's ru_from_val / Uint::from::<T>
#[verifier::external_body]
pub broadcast proof fn axiom_ru_from_val_bool(v: bool)
    ensures #[trigger] ru_from_val::<bool>(v) == (if v { 1int } else { 0int }),
{
}
#[verifier::external_body]
pub broadcast proof fn axiom_ru_from_val_u8(v: u8)
    ensures #[trigger] ru_from_val::<u8>(v) == v as int,
{
}
#[verifier::external_body]
pub broadcast proof fn axiom_ru_from_val_usize(v: usize)
    ensures #[trigger] ru_from_val::<usize>(v) == v as int,
{
}

pub assume_specification<const BITS: usize, const LIMBS: usize> [<usize as TryFrom<Uint<BITS, LIMBS>>>::try_from] (x: Uint<BITS, LIMBS>) -> (r: Result<usize, <usize as TryFrom<Uint<BITS, LIMBS>>>::Error>)
    ensures
        r.is_ok() == (uval(x) <= usize::MAX),
        r.is_ok() ==> r.unwrap() == uval(x);

// "Construct a new integer from little-endian a array of limbs.  Panics if the value is to large for the
//  bit-size of the Uint."
pub assume_specification<const BITS: usize, const LIMBS: usize> [Uint::<BITS, LIMBS>::from_limbs] (limbs: [u64; LIMBS]) -> (r: Uint<BITS, LIMBS>)
    requires ru_limbs_nat(limbs@) < ru_pow2(BITS as nat),
    ensures ru_limbs(r) == limbs@, uval(r) == ru_limbs_nat(limbs@);

// "Access the array of limbs. ... unsafe because it allows setting a bit outside the bit size if the
//  bit-size is not limb-aligned": restricted here to limb-aligned sizes, where every limb array is a value.
pub assume_specification<const BITS: usize, const LIMBS: usize> [Uint::<BITS, LIMBS>::as_limbs_mut] (x: &mut Uint<BITS, LIMBS>) -> (r: &mut [u64; LIMBS])
    requires BITS == 64 * LIMBS,
    ensures
        (*r)@ == ru_limbs(*old(x)),
        ru_limbs(*final(x)) == (*final(r))@;

/// big-endian value of a byte sequence
pub open spec fn ru_be_bytes_nat(s: Seq<u8>) -> nat
    decreases s.len(),
{
    if s.len() == 0 { 0 } else { 256 * ru_be_bytes_nat(s.drop_last()) + s.last() as nat }
}

// "Converts the Uint to a big-endian byte array of size exactly Self::BYTES.  Panics if BYTES != Self::BYTES"
pub assume_specification<const BITS: usize, const LIMBS: usize, const BYTES: usize> [Uint::<BITS, LIMBS>::to_be_bytes::<BYTES>] (x: &Uint<BITS, LIMBS>) -> (r: [u8; BYTES])
    requires BYTES == (BITS + 7) / 8,
    ensures
        ru_be_bytes_nat(r@) == uval(*x),
        forall|i: int| 0 <= i < BYTES ==> #[trigger] r@[i] as nat == (uval(*x) / ru_pow2((8 * (BYTES - 1 - i)) as nat)) % 256;

// "Converts a big-endian byte array of size exactly Self::BYTES to Uint.  Panics if BYTES != Self::BYTES,
//  panics if the value is too large for the bit-size of the Uint."  (cannot happen when BITS is a multiple of 8)
pub assume_specification<const BITS: usize, const LIMBS: usize, const BYTES: usize> [Uint::<BITS, LIMBS>::from_be_bytes::<BYTES>] (bytes: [u8; BYTES]) -> (r: Uint<BITS, LIMBS>)
    requires BYTES == (BITS + 7) / 8, BITS % 8 == 0 || ru_be_bytes_nat(bytes@) < ru_pow2(BITS as nat),
    ensures uval(r) == ru_be_bytes_nat(bytes@);

// Associated constants of the GENERIC type cannot be given a Verus specification (generics are not allowed in
// const specifications); units substitute the paths textually: //@subst "U256::ZERO" "U256_ZERO" etc.
// Each wrapper's body is exactly the real constant.
#[verifier::external_body]
pub exec const U256_ZERO: Uint<256, 4>
    ensures uval(U256_ZERO) == 0,
{
    Uint::<256, 4>::ZERO
}
/// "The largest value that can be represented by this integer type, 2^BITS - 1."
#[verifier::external_body]
pub exec const U256_MAX: Uint<256, 4>
    ensures uval(U256_MAX) == ru_pow2(256) - 1,
{
    Uint::<256, 4>::MAX
}
/// "The size of this integer type in bits."
#[verifier::external_body]
pub exec const U256_BITS: usize
    ensures U256_BITS == 256,
{
    Uint::<256, 4>::BITS
}
// ---- end section conversions-2 ----

// ---- section groups (owner: i256 / C03) ----
// `broadcast use group_ruint;` as FIRST statement of a function (a module-level `broadcast use` of axioms
// defined in the same module is rejected as a cyclic definition).
pub broadcast group group_ruint_ops {
    axiom_uint_add_req, axiom_uint_sub_req, axiom_uint_mul_req, axiom_uint_div_req, axiom_uint_rem_req,
    axiom_uint_neg_req, axiom_uint_shl_req, axiom_uint_shr_req, axiom_uint_not_req, axiom_uint_bitand_req,
    axiom_uint_bitor_req, axiom_uint_bitxor_req,
    axiom_uint_obeys_eq_spec, axiom_uint_eq_spec, axiom_uint_obeys_partial_cmp_spec, axiom_uint_partial_cmp_spec,
}
pub broadcast group group_ruint_from {
    axiom_ru_from_val_u64, axiom_ru_from_val_i32, axiom_ru_from_val_bool, axiom_ru_from_val_u8, axiom_ru_from_val_usize,
}
pub broadcast group group_ruint {
    axiom_uval_bound, axiom_uval_inj, axiom_ru_limbs, group_ruint_ops, group_ruint_from,
}
// ---- end section groups ----

// ---- section std-ordering (owner: i256 / C03) ----  (TRUSTED: core; not ruint, but needed wherever a
// comparison result is tested, e.g. `i256_cmp(..) == Ordering::Less` in SLT / SGT)
// core::cmp::Ordering derives PartialEq: `==` is variant equality (vstd has no specification for it)
pub assume_specification [<core::cmp::Ordering as PartialEq>::eq] (a: &core::cmp::Ordering, b: &core::cmp::Ordering) -> (r: bool)
    ensures r == (*a == *b);
// ---- end section std-ordering ----

// ---- section bit-lemmas (owner: i256 / C03) ----  (proved, nothing trusted here)
pub proof fn lemma_ru_pow2_strict(a: nat, b: nat)
    requires a < b,
    ensures ru_pow2(a) < ru_pow2(b), 2 * ru_pow2(a) <= ru_pow2(b),
{
    lemma_ru_pow2_add(a, (b - a) as nat);
    lemma_ru_pow2_add(1, (b - a - 1) as nat);
    lemma_ru_pow2_pos(a);
    lemma_ru_pow2_pos((b - a - 1) as nat);
    reveal_with_fuel(ru_pow2, 2);
    let (x, y) = (ru_pow2(a), ru_pow2((b - a - 1) as nat));
    assert(ru_pow2(b) == x * (2 * y));
    assert(2 * x <= x * (2 * y)) by(nonlinear_arith) requires x > 0, y >= 1;
}

/// x = q * 2^i + r with 0 <= r < 2^i  ==>  bit i of x is the parity of q
pub proof fn lemma_ubit_decompose(x: nat, i: nat, q: nat, r: nat)
    requires x == q * ru_pow2(i) + r, r < ru_pow2(i),
    ensures ubit(x, i) == (q % 2 == 1), x / ru_pow2(i) == q,
{
    lemma_ru_pow2_pos(i);
    vstd::arithmetic::div_mod::lemma_fundamental_div_mod_converse(x as int, ru_pow2(i) as int, q as int, r as int);
}

/// bits of 2^n - 1: exactly the bits below n
pub proof fn lemma_ubit_mask(n: nat, i: nat)
    ensures ubit((ru_pow2(n) - 1) as nat, i) == (i < n),
{
    lemma_ru_pow2_pos(n);
    lemma_ru_pow2_pos(i);
    let x = (ru_pow2(n) - 1) as nat;
    if i < n {
        let d = (n - i) as nat;
        lemma_ru_pow2_add(i, d);
        lemma_ru_pow2_add(1, (d - 1) as nat);
        reveal_with_fuel(ru_pow2, 2);
        let h = ru_pow2((d - 1) as nat);
        lemma_ru_pow2_pos((d - 1) as nat);
        let q = (2 * h - 1) as nat;
        let r = (ru_pow2(i) - 1) as nat;
        assert(ru_pow2(n) == ru_pow2(i) * (2 * h));
        assert(x == q * ru_pow2(i) + r) by(nonlinear_arith)
            requires x == ru_pow2(i) * (2 * h) - 1, q == 2 * h - 1, r == ru_pow2(i) - 1, h >= 1;
        lemma_ubit_decompose(x, i, q, r);
    } else {
        if n < i { lemma_ru_pow2_strict(n, i); }
        assert(x == 0 * ru_pow2(i) + x) by(nonlinear_arith);
        lemma_ubit_decompose(x, i, 0, x);
    }
}

/// bits of the complement 2^w - 1 - m (m < 2^w): the negated bits of m, below w
pub proof fn lemma_ubit_not(w: nat, m: nat, i: nat)
    requires m < ru_pow2(w), i < w,
    ensures ubit((ru_pow2(w) - 1 - m) as nat, i) == !ubit(m, i),
{
    lemma_ru_pow2_pos(i);
    let b = ru_pow2(i);
    let q = m / b;
    let r = m % b;
    vstd::arithmetic::div_mod::lemma_fundamental_div_mod(m as int, b as int);
    assert(0 <= r < b) by(nonlinear_arith) requires r == m % b, b > 0;
    assert(m == b * q + r);
    let d = (w - i) as nat;
    lemma_ru_pow2_add(i, d);
    lemma_ru_pow2_add(1, (d - 1) as nat);
    reveal_with_fuel(ru_pow2, 2);
    let h = ru_pow2((d - 1) as nat);
    assert(ru_pow2(w) == b * (2 * h));
    assert(q < 2 * h) by(nonlinear_arith) requires b * q + r < b * (2 * h), r >= 0, b > 0;
    let x = (ru_pow2(w) - 1 - m) as nat;
    let q2 = (2 * h - 1 - q) as nat;
    let r2 = (b - 1 - r) as nat;
    assert(x == q2 * b + r2) by(nonlinear_arith)
        requires x == b * (2 * h) - 1 - (b * q + r), q2 == 2 * h - 1 - q, r2 == b - 1 - r;
    lemma_ubit_decompose(x, i, q2, r2);
    assert(q * b + r == m) by(nonlinear_arith) requires m == b * q + r;
    lemma_ubit_decompose(m, i, q, r);
}

/// a natural below 2^w with all bits below w clear is 0 / two naturals below 2^w with the same bits are equal
pub proof fn lemma_ubit_ext(w: nat, x: nat, y: nat)
    requires x < ru_pow2(w), y < ru_pow2(w), forall|i: nat| i < w ==> ubit(x, i) == ubit(y, i),
    ensures x == y,
    decreases w,
{
    reveal_with_fuel(ru_pow2, 2);
    if w > 0 {
        // strip bit 0: x = 2 x' + b0
        let (x1, y1) = (x / 2, y / 2);
        assert(x1 < ru_pow2((w - 1) as nat) && y1 < ru_pow2((w - 1) as nat));
        assert forall|i: nat| i < w - 1 implies ubit(x1, i) == ubit(y1, i) by {
            lemma_ru_pow2_add(1, i);
            lemma_ru_pow2_pos(i);
            assert(ubit(x, i + 1) == ubit(y, i + 1));
            let b = ru_pow2(i);
            assert(ru_pow2(i + 1) == 2 * b);
            vstd::arithmetic::div_mod::lemma_div_denominator(x as int, 2, b as int);
            vstd::arithmetic::div_mod::lemma_div_denominator(y as int, 2, b as int);
        }
        lemma_ubit_ext((w - 1) as nat, x1, y1);
        assert(ubit(x, 0) == ubit(y, 0));
        assert(x / 1 == x && y / 1 == y);
    }
}
// ---- end section bit-lemmas ----
