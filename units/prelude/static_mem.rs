// ======================================================================================
// prelude/static_mem.rs (owner: static / C10) -- per-frame memory as the C10 instructions use it.
// LOCAL, TRUSTED copy of ledger contracts that are being proved by builder c11-memory:
//   * SharedMemory::len / slice / slice_range / set_data : clause text identical to contracts/memory.vc
//     (proved in unit `memory`);
//   * interpreter::resize_memory (the free fn behind `resize_memory!`): clause text as announced by c11-memory for
//     contracts/meminstr.vc (`@fn crates/interpreter/src/interpreter.rs fn:resize_memory`, proved in unit `meminstr`).
// To switch to the ledger replace this file's view declarations and assume_specifications by
//   //@views memory uninterp   //@views meminstr uninterp   //@assume memory ...   //@assume meminstr ...
// `//@include` after `//@views gas uninterp` and `//@views gascalc uninterp` (ceil32, yp_cmem).
// ======================================================================================
pub uninterp spec fn mem_parents(m: SharedMemory) -> Seq<Seq<u8>>;
pub uninterp spec fn mem_ctx(m: SharedMemory) -> Seq<u8>;
pub uninterp spec fn mem_wf(m: SharedMemory) -> bool;
/// n zero bytes
pub open spec fn mem_zeros(n: int) -> Seq<u8> { Seq::new(n as nat, |i: int| 0u8) }
/// `len` bytes of `data` starting at `data_offset`, zero-padded where data ends
pub open spec fn mem_padded(data: Seq<u8>, data_offset: int, len: int) -> Seq<u8> {
    Seq::new(len as nat, |i: int| if data_offset + i < data.len() { data[data_offset + i] } else { 0u8 })
}
/// frame of every operation that only touches the current frame
pub open spec fn mem_frame(pre: SharedMemory, post: SharedMemory) -> bool {
    mem_wf(post) && mem_parents(post) == mem_parents(pre)
}
/// memory already paid for + gas left < 2^55 (holds at frame start iff gas_limit < 2^55; preserved by every charge)
pub open spec fn mem_gas_inv(m: SharedMemory, g: Gas) -> bool {
    yp_cmem(ceil32(mem_ctx(m).len() as int)) + gas_remaining(g) < 0x80_0000_0000_0000
}

pub assume_specification [SharedMemory::len] (self_: &SharedMemory) -> (r: usize)
    requires mem_wf(*self_),
    ensures r == mem_ctx(*self_).len();
pub assume_specification [SharedMemory::slice_range] (self_: &SharedMemory, range: Range<usize>) -> (r: &[u8])
    requires mem_wf(*self_), range.start <= range.end <= mem_ctx(*self_).len(),
    ensures r@ == mem_ctx(*self_).subrange(range.start as int, range.end as int);
pub assume_specification [SharedMemory::slice] (self_: &SharedMemory, offset: usize, size: usize) -> (r: &[u8])
    requires mem_wf(*self_), offset + size <= mem_ctx(*self_).len(),
    ensures r@ == mem_ctx(*self_).subrange(offset as int, offset + size);
pub assume_specification [SharedMemory::set_data] (self_: &mut SharedMemory, memory_offset: usize, data_offset: usize, len: usize, data: &[u8])
    requires mem_wf(*old(self_)), memory_offset + len <= mem_ctx(*old(self_)).len(),
    ensures
        mem_ctx(*final(self_)) == mem_ctx(*old(self_)).subrange(0, memory_offset as int)
            + mem_padded(data@, data_offset as int, len as int)
            + mem_ctx(*old(self_)).subrange(memory_offset + len, mem_ctx(*old(self_)).len() as int),
        mem_ctx(*final(self_)).len() == mem_ctx(*old(self_)).len(),
        mem_frame(*old(self_), *final(self_));
pub assume_specification [revm_interpreter::interpreter::resize_memory] (memory: &mut SharedMemory, gas: &mut Gas, new_size: usize) -> (success: bool)
    requires mem_wf(*old(memory)), gas_wf(*old(gas)), new_size >= mem_ctx(*old(memory)).len(), mem_gas_inv(*old(memory), *old(gas)),
    ensures
        gas_wf(*final(gas)), gas_limit(*final(gas)) == gas_limit(*old(gas)), gas_refunded(*final(gas)) == gas_refunded(*old(gas)),
        mem_frame(*old(memory), *final(memory)), mem_gas_inv(*final(memory), *final(gas)),
        success == (yp_cmem(ceil32(new_size as int)) - yp_cmem(ceil32(mem_ctx(*old(memory)).len() as int)) <= gas_remaining(*old(gas))),
        success ==> gas_remaining(*final(gas)) == gas_remaining(*old(gas)) - (yp_cmem(ceil32(new_size as int)) - yp_cmem(ceil32(mem_ctx(*old(memory)).len() as int)))
            && mem_ctx(*final(memory)) == mem_ctx(*old(memory)) + mem_zeros(32 * ceil32(new_size as int) - mem_ctx(*old(memory)).len()),
        !success ==> *final(gas) == *old(gas) && *final(memory) == *old(memory);

/// after a successful `resize_memory!(interp, offset, len)` (new_size = offset.saturating_add(len) > old length):
/// the sum did not saturate and the range [offset, offset + len) lies inside the frame's memory
pub proof fn lemma_resized(old_len: int, new_size: int, rem: int, new_len: int)
    requires
        0 <= old_len < new_size <= usize::MAX,
        0 <= rem,
        yp_cmem(ceil32(old_len)) + rem < 0x80_0000_0000_0000,
        yp_cmem(ceil32(new_size)) - yp_cmem(ceil32(old_len)) <= rem,
        new_len == old_len + (32 * ceil32(new_size) - old_len),
    ensures
        new_size < 0x8000_0000_0000_0000,
        new_size <= new_len,
{
    let a = ceil32(new_size);
    assert(0 <= (a * a) / 512) by(nonlinear_arith) requires a >= 0;
    assert(3 * a <= yp_cmem(a));
}
