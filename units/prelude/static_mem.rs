// ======================================================================================
// prelude/static_mem.rs (owner: static / C10) -- per-frame memory as the C10 instructions use it: all through the
// contract LEDGER (nothing assumed locally):
//   * SharedMemory::len / slice / slice_range / set_data : contracts/memory.vc, proved in unit `memory`;
//   * interpreter::resize_memory (the free fn behind `resize_memory!`): contracts/meminstr.vc, proved in unit `meminstr`.
// `//@include` after `//@views gas uninterp` and `//@views gascalc uninterp` (ceil32, yp_cmem).
// ======================================================================================
//@views memory uninterp
//@views meminstr uninterp
//@assume memory crates/interpreter/src/interpreter/shared_memory.rs impl:SharedMemory fn:len
//@assume memory crates/interpreter/src/interpreter/shared_memory.rs impl:SharedMemory fn:slice_range
//@assume memory crates/interpreter/src/interpreter/shared_memory.rs impl:SharedMemory fn:slice
//@assume memory crates/interpreter/src/interpreter/shared_memory.rs impl:SharedMemory fn:set_data
// (the free fn `resize_memory` of interpreter.rs shares its name with the call helper of contract/call_helpers.rs that
// this unit extracts: its assume_specification is emitted inside a module where the name means the real free fn)
pub mod __resize_memory_ledger {
use super::*;
use revm_interpreter::interpreter::resize_memory;
//@assume meminstr crates/interpreter/src/interpreter.rs fn:resize_memory
}

/// after a successful `resize_memory!(interp, offset, len)` (new_size = offset.saturating_add(len) > old length):
/// the sum did not saturate and the range [offset, offset + len) lies inside the frame's memory
pub proof fn lemma_resized(old_len: int, new_size: int, rem: int, new_len: int)
    requires
        0 <= old_len < new_size <= usize::MAX,
        0 <= rem,
        yp_cmem(ceil32(old_len)) + rem < 0x80_0000_0000_0000,
        yp_cmem(ceil32(new_size)) - yp_cmem(ceil32(old_len)) <= rem,
        new_len == old_len + (32 * ceil32(new_size) - old_len),
    ensures
        new_size < 0x8000_0000_0000_0000,
        new_size <= new_len,
{
    let a = ceil32(new_size);
    assert(0 <= (a * a) / 512) by(nonlinear_arith) requires a >= 0;
    assert(3 * a <= yp_cmem(a));
}
