"""Replay files and witness search (the search only supplies a witness; the deciding step is
the failed obligation)."""
import json
import os
import re
import subprocess

from . import vunit

VERIF = vunit.VERIF
RCRATE = os.path.join(VERIF, "replay")
RTARGET = os.path.join(vunit.BUILD, "replay-target")


def build():
    if not os.path.exists(os.path.join(RCRATE, "Cargo.toml")):
        return None
    env = dict(os.environ, CARGO_TARGET_DIR=RTARGET, CARGO_NET_OFFLINE="true")
    lock = os.path.join(RCRATE, "Cargo.lock")
    if not os.path.exists(lock):
        import shutil
        shutil.copy(os.path.join(vunit.REPO, "Cargo.lock"), lock)
    p = subprocess.run(["cargo", "build", "--offline", "--release"], cwd=RCRATE, env=env, capture_output=True, text=True)
    if p.returncode != 0:
        raise RuntimeError("replay crate does not build: " + p.stderr[-1500:])
    return os.path.join(RTARGET, "release", "verif-replay")


def search_witness(pid, v, seed):
    """Run the seeded boundary/random search of the replay crate for the failed obligation.
    Returns a dict (input + observed vs expected) or None."""
    fn = v["fn"].split("::")[-1]
    if v.get("kani") and v["kani"].get("witness"):
        return v["kani"]["witness"]
    try:
        exe = build()
    except RuntimeError:
        return None
    if not exe:
        return None
    p = subprocess.run([exe, "search", fn, str(seed)], capture_output=True, text=True, timeout=300)
    for ln in p.stdout.split("\n"):
        if ln.startswith("WITNESS "):
            return json.loads(ln[8:])
    return None


def write_replay(pid, v):
    d = os.path.join(VERIF, "replays", pid)
    os.makedirs(d, exist_ok=True)
    name = re.sub(r"[^A-Za-z0-9_.-]", "_", v["obligation"])
    path = os.path.join(d, name + ".json")
    rec = {
        "property": pid,
        "failed_obligation": v["obligation"],
        "unit": v["unit"],
        "function": v["fn"],
        "verifier_output": [{"message": x["message"], "spans": x.get("spans"), "rendered": x.get("rendered")} for x in v["diags"]],
        "witness": v.get("witness"),
        "replay": "./check replay " + os.path.relpath(path, VERIF),
        "note": "witness (if any) was found by running the REAL function in the replay crate; without one the violation is the failed obligation itself",
    }
    with open(path, "w") as f:
        json.dump(rec, f, indent=1)
    return os.path.relpath(path, VERIF)


def replay_file(path):
    with open(os.path.join(VERIF, path) if not os.path.isabs(path) else path) as f:
        rec = json.load(f)
    print("property:", rec["property"], " failed obligation:", rec["failed_obligation"])
    for x in rec["verifier_output"]:
        print(x.get("rendered") or x["message"])
    w = rec.get("witness")
    if not w:
        print("no concrete witness recorded (no-failing-input-found); the failed obligation above is the violation")
        return 1
    print("witness:", json.dumps(w))
    exe = build()
    if not exe:
        return 1
    p = subprocess.run([exe, "replay", json.dumps(w)], capture_output=True, text=True)
    print(p.stdout + p.stderr)
    return 1 if p.returncode != 0 else 0
