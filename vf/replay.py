"""Replay files and witness search (the search only supplies a witness; the deciding step is
the failed obligation)."""
import json
import os
import re
import subprocess

from . import vunit

VERIF = vunit.VERIF
RCRATE = os.path.join(VERIF, "replay")
# The replay crate depends on the crates of the repository UNDER CHECK by path, so its Cargo.toml is generated:
# replay/Cargo.toml.in (with @REPO@) + replay/src/ are copied to RSRC, built into RTARGET (both outside /repo and
# /verif/replay; build/ is git-ignored, scratch runs live under /tmp/verif-target-<hash>-replay/).
if vunit.REPO == "/repo":
    RSRC = os.path.join(vunit.BUILD, "replay-src")
    RTARGET = os.path.join(vunit.BUILD, "replay-target")
else:
    RSRC = os.path.join(vunit.TARGET + "-replay", "replay-src")
    RTARGET = os.path.join(vunit.TARGET + "-replay", "target")
MAIN_RTARGET = os.path.join(vunit.BUILD, "replay-target")
JOBS = os.environ.get("VERIF_REPLAY_JOBS", "4")
_built = {}


def prepare():
    """copy the crate to RSRC with @REPO@ substituted (same scheme as vf/kani.py prepare())"""
    os.makedirs(RSRC, exist_ok=True)
    for root, dirs, files in os.walk(RCRATE):
        dirs[:] = [d for d in dirs if d != "target"]
        rel = os.path.relpath(root, RCRATE)
        os.makedirs(os.path.join(RSRC, rel), exist_ok=True)
        for fn in files:
            if fn in ("Cargo.lock", "Cargo.toml"):
                continue
            with open(os.path.join(root, fn)) as f:
                t = f.read()
            if fn == "Cargo.toml.in":
                fn = "Cargo.toml"
                t = t.replace("@REPO@", vunit.REPO)
            p = os.path.join(RSRC, rel, fn)
            if not os.path.exists(p) or open(p).read() != t:   # keep mtimes: no needless rebuild
                with open(p, "w") as f:
                    f.write(t)
    os.makedirs(os.path.join(RSRC, ".cargo"), exist_ok=True)
    cfg = os.path.join(RSRC, ".cargo", "config.toml")
    if not os.path.exists(cfg):
        with open(cfg, "w") as f:
            f.write("[net]\noffline = true\n")
    with open(os.path.join(vunit.REPO, "Cargo.lock")) as f:
        lock = f.read()
    lp = os.path.join(RSRC, "Cargo.lock")
    # cargo adds the verif-replay package to its copy of the lock file: refresh only when the repository's changed
    # (or the crate's dependency list: cargo prunes packages the previous dependency set did not need)
    stamp = os.path.join(RSRC, ".repo-lock")
    with open(os.path.join(RSRC, "Cargo.toml")) as f:
        want = f.read() + "\n#----\n" + lock
    if not os.path.exists(lp) or not os.path.exists(stamp) or open(stamp).read() != want:
        with open(lp, "w") as f:
            f.write(lock)
        with open(stamp, "w") as f:
            f.write(want)
    return RSRC


def build():
    """Build verif-replay against vunit.REPO; returns the path of the executable, None if there is no replay
    crate, raises RuntimeError if it does not build (callers treat that as 'no witness')."""
    if not os.path.exists(os.path.join(RCRATE, "Cargo.toml.in")):
        return None
    if _built.get(RSRC):
        return _built[RSRC]
    import fcntl
    import shutil
    os.makedirs(os.path.dirname(RSRC), exist_ok=True)
    lock = open(os.path.join(os.path.dirname(RSRC), ".replay.lock"), "w")
    fcntl.flock(lock, fcntl.LOCK_EX)
    try:
        try:
            prepare()
        except OSError as e:   # e.g. a partial scratch copy without Cargo.lock / crates: no replay binary, never an error of the check
            raise RuntimeError("replay crate cannot be prepared for %s: %s" % (vunit.REPO, e))
        # scratch repository: start from the dependency artifacts already built for /repo (registry crates are
        # identical; only the path crates revm-primitives / revm-interpreter and verif-replay are rebuilt)
        if RTARGET != MAIN_RTARGET and not os.path.isdir(RTARGET) and os.path.isdir(os.path.join(MAIN_RTARGET, "release")):
            try:
                shutil.copytree(MAIN_RTARGET, RTARGET, symlinks=True)   # copy2: mtimes preserved
            except Exception:
                shutil.rmtree(RTARGET, ignore_errors=True)
        env = dict(os.environ, CARGO_TARGET_DIR=RTARGET, CARGO_NET_OFFLINE="true")
        env.pop("RUSTFLAGS", None)
        p = subprocess.run(["cargo", "build", "--offline", "--release", "-j", JOBS], cwd=RSRC, env=env,
                           capture_output=True, text=True)
        if p.returncode != 0:
            raise RuntimeError("replay crate does not build: " + p.stderr[-3000:])
    finally:
        fcntl.flock(lock, fcntl.LOCK_UN)
        lock.close()
    exe = os.path.join(RTARGET, "release", "verif-replay")
    _built[RSRC] = exe
    return exe


def _is_known_finding(pid, v):
    """same test as props.run_property: the failed obligation is a `__finding_` twin listed in known_findings.txt"""
    try:
        from . import driver
        from .propdefs import PROPS
        for k in driver.load_known_findings()["finding"]:
            if k.get("obligation") == v.get("obligation") and (
                    k.get("property") == pid or v.get("unit") not in PROPS[pid].get("units", [])):
                return True
    except Exception:
        pass
    return False


def search_witness(pid, v, seed):
    """Run the seeded boundary/random search of the replay crate for the failed obligation.
    Returns a dict (input + observed vs expected) or None."""
    fn = v["fn"].split("::")[-1]
    if v.get("kani"):
        return v["kani"].get("witness")
    if _is_known_finding(pid, v):
        # the check reports KNOWN-FINDING for it and drops the witness: no build, no search on the unchanged tree
        return None
    import time
    t0 = time.time()
    try:
        exe = build()
    except RuntimeError as e:
        v["witness_search"] = {"error": str(e)[-600:]}
        return None
    if not exe:
        return None
    t1 = time.time()
    w = None
    try:
        p = subprocess.run([exe, "search", fn, str(seed)], capture_output=True, text=True, timeout=300)
        for ln in p.stdout.split("\n"):
            if ln.startswith("WITNESS "):
                w = json.loads(ln[8:])
                break
        note = p.stderr.strip().split("\n")[-3:]
        m = re.search(r"search [^:]+: (\d+) evaluated", p.stderr)
        evaluated = int(m.group(1)) if m else 0
    except subprocess.TimeoutExpired:
        note = ["search timed out"]
    v["witness_search"] = {"cmd": f"{exe} search {fn} {seed}", "build_s": round(t1 - t0, 1), "search_s": round(time.time() - t1, 1), "log": note,
                           "evaluated": locals().get("evaluated", 0)}
    return w


def write_replay(pid, v):
    d = os.path.join(VERIF, "replays", pid)
    os.makedirs(d, exist_ok=True)
    name = re.sub(r"[^A-Za-z0-9_.-]", "_", v["obligation"])
    path = os.path.join(d, name + ".json")
    rec = {
        "property": pid,
        "failed_obligation": v["obligation"],
        "unit": v["unit"],
        "function": v["fn"],
        "verifier_output": [{"message": x["message"], "spans": x.get("spans"), "rendered": x.get("rendered")} for x in v["diags"]],
        "witness": v.get("witness"),
        "witness_search": v.get("witness_search"),
        "replay": "./check replay " + os.path.relpath(path, VERIF),
        "note": "witness (if any) was found by running the REAL function in the replay crate; without one the violation is the failed obligation itself",
    }
    with open(path, "w") as f:
        json.dump(rec, f, indent=1)
    return os.path.relpath(path, VERIF)


def replay_file(path):
    with open(os.path.join(VERIF, path) if not os.path.isabs(path) else path) as f:
        rec = json.load(f)
    print("property:", rec["property"], " failed obligation:", rec["failed_obligation"])
    for x in rec["verifier_output"]:
        print(x.get("rendered") or x["message"])
    w = rec.get("witness")
    if not w:
        print("no concrete witness recorded (no-failing-input-found); the failed obligation above is the violation")
        return 1
    print("witness:", json.dumps(w))
    if w.get("kind") == "kani-concrete-playback" or "function" not in w:
        print("witness comes from Kani's concrete playback (unit test text above); it is not re-executed by the replay crate")
        return 1
    try:
        exe = build()
    except RuntimeError as e:
        print(e)
        return 1
    if not exe:
        return 1
    p = subprocess.run([exe, "replay", json.dumps(w)], capture_output=True, text=True)
    print(p.stdout + p.stderr)
    return 1 if p.returncode != 0 else 0
