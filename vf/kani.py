"""Kani harness runner.  Harness crates live in /verif/kani/<crate>/ and depend on /repo's
crates BY PATH, so Kani compiles the current working tree.  Each run copies the harness crate
to build/kani/<crate>/ with @REPO@ substituted, runs `cargo kani` under a time and memory cap
and parses per-harness verdicts.  Timeout / OOM / unwinding-assertion failures are UNDECIDED,
never violations."""
import os
import re
import resource
import shutil
import subprocess
import threading
import time

from . import vunit

VERIF = vunit.VERIF
KBUILD = os.path.join(vunit.BUILD, "kani") if vunit.REPO == "/repo" else vunit.TARGET + "-kani"

TRUSTED = [
    "Kani 0.68 / CBMC 6.11 (bit-precise model of the compiled MIR of the real crates)",
]


def prepare(crate):
    src = os.path.join(VERIF, "kani", crate)
    dst = os.path.join(KBUILD, crate)
    os.makedirs(dst, exist_ok=True)
    for root, dirs, files in os.walk(src):
        dirs[:] = [d for d in dirs if d != "target"]
        rel = os.path.relpath(root, src)
        os.makedirs(os.path.join(dst, rel), exist_ok=True)
        for fn in files:
            with open(os.path.join(root, fn)) as f:
                t = f.read()
            t = t.replace("@REPO@", vunit.REPO)
            p = os.path.join(dst, rel, fn)
            if not os.path.exists(p) or open(p).read() != t:
                with open(p, "w") as f:
                    f.write(t)
    os.makedirs(os.path.join(dst, ".cargo"), exist_ok=True)
    with open(os.path.join(dst, ".cargo", "config.toml"), "w") as f:
        f.write("[net]\noffline = true\n")
    shutil.copy(os.path.join(vunit.REPO, "Cargo.lock"), os.path.join(dst, "Cargo.lock"))
    return dst


def _limits(mem_gb):
    def f():
        lim = int(mem_gb * 1024 ** 3)
        resource.setrlimit(resource.RLIMIT_AS, (lim, lim))
        os.setsid()
    return f


def _watchdog(pgid, mem_gb, stop):
    """Kill any cbmc process of this run (same session) whose RSS exceeds the cap: an address-space
    rlimit on cargo-kani itself makes its thread pool panic, so the cap is enforced from outside."""
    while not stop.wait(2.0):
        try:
            out = subprocess.run(["ps", "-eo", "pid,sid,rss,comm"], capture_output=True, text=True).stdout
        except Exception:
            continue
        for ln in out.split("\n")[1:]:
            f = ln.split()
            if len(f) >= 4 and f[1] == str(pgid) and f[3].startswith("cbmc") and int(f[2]) > mem_gb * 1024 * 1024:
                try:
                    os.kill(int(f[0]), 9)
                except OSError:
                    pass


def run_crate(crate, harnesses, tier, jobs=4):
    """harnesses: list of dicts (name, bounded, bound, timeout, args). Returns list of results."""
    d = prepare(crate)
    names = [h["harness"] for h in harnesses]
    timeout = sum(h.get("timeout", 300) for h in harnesses) / max(1, min(jobs, len(harnesses))) + 600
    cmd = ["cargo", "kani", "-Z", "function-contracts", "-Z", "stubbing", "-Z", "unstable-options",
           "--output-format=terse", "-j", str(jobs), "--exact"]
    extra = []
    for h in harnesses:
        cmd += ["--harness", h["harness"]]
        for a in h.get("args", []):
            if a not in extra:
                extra.append(a)
    cmd += extra
    env = dict(os.environ, CARGO_NET_OFFLINE="true", CARGO_TARGET_DIR=os.path.join(KBUILD, "target-" + crate))
    env.pop("RUSTFLAGS", None)
    t0 = time.time()
    mem = max(h.get("mem_gb", 12) for h in harnesses)
    try:
        p = subprocess.Popen(cmd, cwd=d, env=env, stdout=subprocess.PIPE, stderr=subprocess.STDOUT, text=True,
                             preexec_fn=os.setsid)
        stop = threading.Event()
        wd = threading.Thread(target=_watchdog, args=(p.pid, mem, stop), daemon=True)
        wd.start()
        try:
            out, _ = p.communicate(timeout=timeout)
            timed_out = False
            stop.set()
        except subprocess.TimeoutExpired:
            stop.set()
            os.killpg(p.pid, 9)
            out, _ = p.communicate()
            timed_out = True
    except Exception as e:  # pragma: no cover
        out, timed_out = str(e), False
    wall = time.time() - t0
    res = []
    sections = split_sections(out)
    for h in harnesses:
        name = h["harness"].split("::")[-1]
        sec = sections.get(name)
        r = {"name": f"{crate}::{h['harness']}", "cmd": " ".join(cmd), "bounded": bool(h.get("bounded")), "bound": h.get("bound", ""),
             "time_s": None, "status": "undecided", "reason": "", "output": ""}
        if sec is None:
            r["reason"] = "harness produced no verdict (" + ("timeout" if timed_out else "compile error or crash") + ")"
            r["output"] = out[-3000:]
            res.append(r)
            continue
        r["output"] = sec
        m = re.search(r"Verification Time: ([0-9.]+)s", sec)
        if m:
            r["time_s"] = float(m.group(1))
        if "VERIFICATION:- SUCCESSFUL" in sec:
            cov = re.findall(r"(\d+) of (\d+) cover properties satisfied", sec)
            if cov and any(a != b for a, b in cov):
                r["reason"] = "vacuity guard: cover property unsatisfied"
            elif h.get("needs_cover", True) and not cov:
                r["reason"] = "vacuity guard: harness has no cover property"
            else:
                r["status"] = "ok"
        elif "VERIFICATION:- FAILED" in sec:
            failed = re.findall(r"Failed Checks: (.*)", sec)
            real = [f for f in failed if "unwinding assertion" not in f and "not supported" not in f.lower()]
            if not real:
                r["reason"] = "only unwinding assertions / unsupported constructs failed: " + "; ".join(failed[:3])
            else:
                r["status"] = "failed"
                r["reason"] = "; ".join(real[:4])
        else:
            r["reason"] = "no verdict (timeout / out of memory)"
        if "run out of memory" in sec or "CBMC failed" in sec:
            r["status"] = "undecided"
            r["reason"] = "CBMC out of memory / crashed"
        res.append(r)
    # concrete playback for failures
    for r, h in zip(res, harnesses):
        if r["status"] == "failed":
            r["witness"] = playback(crate, d, h, env)
    return res, wall


def split_sections(out):
    """Per-harness output blocks.  With -j, lines are `Thread N: Checking harness X...` and result
    blocks start with a `Thread N: ` line; without -j a block follows its `Checking harness` line."""
    secs = {}
    cur_of_thread = {}
    active = None  # harness receiving lines
    for ln in out.split("\n"):
        m = re.match(r"(?:Thread (\d+): )?Checking harness ([\w:]+)\.\.\.", ln)
        if m:
            h = m.group(2).split("::")[-1]
            cur_of_thread[m.group(1)] = h
            secs.setdefault(h, "")
            active = h if m.group(1) is None else None
            continue
        m = re.match(r"Thread (\d+): ?(.*)", ln)
        if m:
            active = cur_of_thread.get(m.group(1))
            if active is not None:
                secs[active] += m.group(2) + "\n"
            continue
        if ln.startswith("Manual Harness Summary") or ln.startswith("Complete - "):
            active = None
            continue
        if active is not None:
            secs[active] += ln + "\n"
    return {k: v for k, v in secs.items() if v.strip()}


def playback(crate, d, h, env):
    cmd = ["cargo", "kani", "-Z", "function-contracts", "-Z", "stubbing", "-Z", "concrete-playback",
           "--concrete-playback=print", "--exact", "--harness", h["harness"]] + h.get("args", [])
    try:
        p = subprocess.run(cmd, cwd=d, env=env, capture_output=True, text=True, timeout=h.get("timeout", 300) + 300)
    except subprocess.TimeoutExpired:
        return None
    m = re.search(r"```\n(.*?)```", p.stdout, re.S)
    if not m:
        return None
    vals = re.findall(r"//\s*(.+)\n\s*vec!\[([^\]]*)\]", m.group(1))
    return {"kind": "kani-concrete-playback", "harness": h["harness"], "values": [{"value": a.strip(), "bytes": b.strip()} for a, b in vals][:40],
            "unit_test": m.group(1)[:6000]}


def run_harnesses(pid, specs, tier):
    """specs: list of dicts with crate, harness, ... ; quick tier skips specs marked thorough_only."""
    by_crate = {}
    for s in specs:
        if s.get("thorough_only") and tier != "thorough":
            continue
        by_crate.setdefault(s["crate"], []).append(s)
    out = []
    for crate, hs in by_crate.items():
        res, wall = run_crate(crate, hs, tier, jobs=min(8, len(hs)))
        out += res
    return out


def setup():
    if not os.path.isdir(os.path.join(VERIF, "kani")):
        return
    for crate in sorted(os.listdir(os.path.join(VERIF, "kani"))):
        if os.path.exists(os.path.join(VERIF, "kani", crate, "Cargo.toml")):
            prepare(crate)
