"""Property definitions: which units / harnesses / census guards decide each property."""

COMMON_TRUST = [
    "Verus 0.2026.09.13 + bundled z3; rustc 1.98.1 builds the rlibs the units are type-checked against (repository pins 1.95)",
    "extractor vf/extract.py: items are copied by text with the transformations listed under extraction_drops only",
]

PROPS = {}

NOT_APPLICABLE = {
    "C01": "whole-transaction equivalence with the execution specification: needs the entire spec as oracle and an invariant of the unbounded interpreter loop through dyn handler tables; no function-level contract can state it. Decidable fragments are claimed as C02-C05, C09-C14, C32, C34.",
    "C19": "both mechanisms that carry it are outside the verifiers' reach: `From<BundleAccount> for CacheAccount` is an iterator-adapter chain (.iter().map(|(k, v)| ..).collect(), tuple-pattern closures: rejected by Verus) and `State::load_cache_account` reaches it through .cloned().map(Into::into); Kani cannot compile crate revm (internal compiler error). What remains verifiable (read functions of CacheAccount/BundleAccount, reported under C15) says nothing about bundle preloading.",
    "C24": "agreement of alternative cryptographic back ends: both sides are foreign code (C FFI / external crates) selected by mutually exclusive cargo features; no repository function carries a contract relating them and neither verifier executes FFI.",
    "C28": "relational property between two whole executions (with / without inspector) implemented by closures wrapping every instruction-table entry and Arc<dyn Fn> handlers; no function boundary carries it.",
    "C29": "trace property over calls on a dyn Inspector made from closures sharing Rc<RefCell<Vec>> stacks across the frame loop; needs ghost call history on an external trait object, outside Verus (Rc<RefCell>, dyn Fn) and Kani (unbounded loop).",
    "C30": "the notification logic is an anonymous closure in inspector_handle_register inspecting journal.last().last(); same obstacle as C29. The journal entry it reads is under contract in C06/C08.",
}


def _load():
    import importlib.util, os
    d = os.path.join(os.path.dirname(os.path.dirname(os.path.abspath(__file__))), "props")
    for fn in sorted(os.listdir(d)):
        if fn.endswith(".py") and fn[0] == "C":
            spec = importlib.util.spec_from_file_location("verif_prop_" + fn[:-3], os.path.join(d, fn))
            m = importlib.util.module_from_spec(spec)
            spec.loader.exec_module(m)
            PROPS[fn[:-3]] = m.PROP


_load()
