"""Property definitions: which units / harnesses / census guards decide each property."""

COMMON_TRUST = [
    "Verus 0.2026.09.13 + bundled z3; rustc 1.98.1 builds the rlibs the units are type-checked against (repository pins 1.95)",
    "extractor vf/extract.py: items are copied by text with the transformations listed under extraction_drops only",
]

PROPS = {}

PROPS["C13"] = dict(
    level="proof",
    units=["gas"],
    level_text="Every method of the real gas meter (crates/interpreter/src/gas.rs, extracted verbatim on each run) is "
               "verified by Verus against a contract written from the property: wf (remaining<=limit) is preserved, "
               "record_cost succeeds iff cost<=remaining and otherwise leaves the meter bit-identical, spent+remaining==limit, "
               "refund cap spent/5 (London) or spent/2. A sequence lemma (charge_all + model_run) lifts it to every finite "
               "sequence of charges. Unbounded in all u64/i64 arguments.",
    level_note="Trusted: Verus/z3; u64::overflowing_sub's assumed contract; erase_cost/record_refund preconditions "
               "(returned gas was charged before; refund counter does not overflow i64) are call-site facts checked in the "
               "units that call them, not here; set_final_refund assumes the refund counter is non-negative at the end of "
               "a transaction (EIP-3529 protocol invariant).",
    trusted=COMMON_TRUST,
    assumptions=[
        "set_final_refund / spent_sub_refunded: refund counter >= 0 at transaction end (protocol invariant, not proved here)",
        "erase_cost: remaining + returned <= limit (proved at call sites in units that call it; trusted where the call site is outside a unit)",
        "record_refund: no i64 overflow of the refund counter",
        "machine arithmetic is NOT treated as mathematical: every + - on u64/i64 is an overflow obligation",
    ],
)

NOT_APPLICABLE = {
    "C01": "whole-transaction equivalence with the execution specification: needs the entire spec as oracle and an invariant of the unbounded interpreter loop through dyn handler tables; no function-level contract can state it. Decidable fragments are claimed as C02-C05, C09-C14, C32, C34.",
    "C24": "agreement of alternative cryptographic back ends: both sides are foreign code (C FFI / external crates) selected by mutually exclusive cargo features; no repository function carries a contract relating them and neither verifier executes FFI.",
    "C28": "relational property between two whole executions (with / without inspector) implemented by closures wrapping every instruction-table entry and Arc<dyn Fn> handlers; no function boundary carries it.",
    "C29": "trace property over calls on a dyn Inspector made from closures sharing Rc<RefCell<Vec>> stacks across the frame loop; needs ghost call history on an external trait object, outside Verus (Rc<RefCell>, dyn Fn) and Kani (unbounded loop).",
    "C30": "the notification logic is an anonymous closure in inspector_handle_register inspecting journal.last().last(); same obstacle as C29. The journal entry it reads is under contract in C06/C08.",
}
