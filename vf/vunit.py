"""Verus unit generator + runner.

A unit template (units/<name>.rs.in) is ordinary Verus text plus `//@extract` blocks that
are replaced, on every run, by the item extracted from /repo's current working tree with
the contract clauses of the block spliced in (see DESIGN.md 2.2 / 2.3).
"""
import json
import os
import re
import shlex
import subprocess
import time

from . import extract
from .extract import ExtractError

VERIF = os.path.dirname(os.path.dirname(os.path.abspath(__file__)))
REPO = os.environ.get("VERIF_REPO", "/repo")
BUILD = os.path.join(VERIF, "build")
if REPO == "/repo":
    TARGET = os.path.join(BUILD, "target")
else:
    # scratch copies (mutation tests) get their own target dir so that they never race with
    # checks of /repo itself; the caller removes it together with the scratch copy
    import hashlib as _h
    TARGET = os.path.join("/tmp", "verif-target-" + _h.sha256(os.path.abspath(REPO).encode()).hexdigest()[:10])

SEMANTIC = (
    "postcondition not satisfied",
    "precondition not satisfied",
    "assertion failed",
    "invariant not satisfied",
    "possible arithmetic underflow/overflow",
    "possible division by zero",
    "possible bit shift underflow/overflow",
    "recommendation not met",
    "decreases not satisfied",
    "unreachable",
    "possible truncation",
    "cannot show invariant holds",
    "loop invariant",
    "might not be allowed",
    "index out of bounds",
    "possible negative",
    "of closure",          # "unable to prove post-condition / pre-condition of closure"
)


class Block:
    def __init__(self, path, spec):
        self.path, self.spec = path, spec
        self.ret = None
        self.clauses = ""
        self.loops = {}
        self.loopvars = {}   # k -> ghost iterator name of the k-th loop (a `for` loop)
        self.closures = {}   # k -> [ret decl, clause text]  (//@closure)
        self.hints = []
        self.first = ""
        self.subst = []
        self.trait = None
        self.flags = set()
        self.rename = None
        self.attrs = ""
        self.contract = None
        self.assume = False
        self.finding = None
        self.stmts = False      # //@extract-stmts: a statement range of the fn body wrapped in a generated function
        self.frm = self.after = self.to = self.sig = None
        self.alt = None      # (path, spec) used when the primary item is absent (//@extract-or A || B)


def parse_template(text):
    """-> list of ('text', str) | ('block', Block), header dict"""
    header = {}
    out = []
    cur = None
    mode = None
    buf = []
    for line in text.split("\n"):
        st = line.strip()
        if st.startswith("//@unit"):
            for kv in st.split()[1:]:
                k, _, v = kv.partition("=")
                header[k] = v
            continue
        if cur is None:
            if st.startswith("//@extract"):
                if buf:
                    out.append(("text", "\n".join(buf) + "\n"))
                    buf = []
                alt = None
                if st.startswith("//@extract-or "):
                    # //@extract-or <path> <spec> || <path2> <spec2>: the item of the first alternative if it
                    # exists in the working tree, otherwise the second one (e.g. an impl's override of a provided
                    # trait method, else the trait's default body specialised to that impl)
                    st, _, alt = st.partition("||")
                    alt = tuple(alt.split(None, 1))
                parts = st.split(None, 2)
                cur = Block(parts[1], parts[2].strip())
                cur.alt = alt
                cur.stmts = parts[0] == "//@extract-stmts"
                mode = None
            elif st.startswith("//@assume ") or st.startswith("//@assume-opt "):
                # //@assume <contract> <path> <spec>   (one-line block)
                if buf:
                    out.append(("text", "\n".join(buf) + "\n"))
                    buf = []
                parts = st.split(None, 3)
                b = Block(parts[2], parts[3])
                b.contract = parts[1]
                b.assume = True
                # //@assume-opt: nothing is emitted when the item does not exist in the working tree (a provided trait
                # method that an impl may or may not override); callers of it then simply have no contract to use
                b.optional = st.startswith("//@assume-opt ")
                out.append(("block", b))
            elif st.startswith("//@views "):
                if buf:
                    out.append(("text", "\n".join(buf) + "\n"))
                    buf = []
                parts = st.split()
                out.append(("views", (parts[1], parts[2])))
            else:
                buf.append(line)
            continue
        # inside block
        if st.startswith("//@"):
            d = st[3:].split(None, 1)
            cmd = d[0]
            arg = d[1] if len(d) > 1 else ""
            mode = None
            if cmd == "end":
                out.append(("block", cur))
                cur = None
            elif cmd == "ret":
                cur.ret = arg.strip()
            elif cmd == "contract":
                cur.contract = arg.strip()
            elif cmd == "spec":
                mode = ("spec",)
            elif cmd == "loop":
                # //@loop k [iter=<name>]: `iter=` names the ghost iterator of a `for` loop (`for x in <name>: expr`)
                la = arg.split()
                mode = ("loop", int(la[0]))
                cur.loops[int(la[0])] = ""
                if len(la) > 1 and la[1].startswith("iter="):
                    cur.loopvars[int(la[0])] = la[1][5:]
            elif cmd == "closure":
                # //@closure k <ret>: <Type>   contract of the k-th closure of the function (source order)
                k, _, rdecl = arg.partition(" ")
                mode = ("closure", int(k))
                cur.closures[int(k)] = [rdecl.strip(), ""]
            elif cmd == "hint":
                m = re.match(r'(before|after)\s+"((?:[^"\\]|\\.)*)"\s*(?:#(\d+))?', arg)
                if not m:
                    raise ValueError("bad hint directive: " + line)
                anchor = m.group(2).replace('\\"', '"')
                cur.hints.append([anchor, int(m.group(3) or 0), "", m.group(1)])
                mode = ("hint",)
            elif cmd == "first":
                mode = ("first",)
            elif cmd == "attrs":
                mode = ("attrs",)
            elif cmd == "subst":
                a, b = shlex.split(arg)
                cur.subst.append((a, b))
            elif cmd in ("from", "after", "to"):
                a = shlex.split(arg)
                if len(a) != 1:
                    raise ValueError("bad anchor directive: " + line)
                setattr(cur, "frm" if cmd == "from" else cmd, a[0])
            elif cmd == "sig":
                cur.sig = arg.strip()
            elif cmd == "trait":
                cur.trait = arg.strip() or "|"
            elif cmd == "rename":
                cur.rename = arg.strip()
            elif cmd == "finding":
                # property-level contract on a renamed copy; expected to FAIL only when the tag is
                # listed in known_findings.txt (then: KNOWN-FINDING), otherwise a failure is a VIOLATION
                cur.finding = arg.strip()
                cur.flags.add("noprobe")
            elif cmd in ("drop_derive", "keep_pub", "noprobe", "noimpl", "plain", "implspec", "tail_continue", "external_body"):
                cur.flags.add(cmd)
            else:
                raise ValueError("unknown directive: " + line)
            continue
        if mode is None:
            if st:
                raise ValueError("text outside directive in extract block: " + line)
            continue
        if mode[0] == "spec":
            cur.clauses += line + "\n"
        elif mode[0] == "loop":
            cur.loops[mode[1]] += line + "\n"
        elif mode[0] == "closure":
            cur.closures[mode[1]][1] += line + "\n"
        elif mode[0] == "hint":
            cur.hints[-1][2] += line + "\n"
        elif mode[0] == "first":
            cur.first += line + "\n"
        elif mode[0] == "attrs":
            cur.attrs += line + "\n"
    if cur is not None:
        raise ValueError("unterminated //@extract block")
    if buf:
        out.append(("text", "\n".join(buf) + "\n"))
    return out, header


class Contract:
    def __init__(self):
        self.proved_in = None
        self.proved_by = "verus"
        self.views = ""
        self.shared = ""
        self.fns = {}  # (path, spec) -> {"ret":..., "clauses":...}


_contracts = {}


def load_contract(name):
    if name in _contracts:
        return _contracts[name]
    c = Contract()
    cur = None
    mode = None
    with open(os.path.join(VERIF, "contracts", name + ".vc")) as f:
        for line in f.read().split("\n"):
            st = line.strip()
            if st.startswith("@proved_in"):
                c.proved_in = st.split()[1]
                if len(st.split()) > 2:
                    c.proved_by = " ".join(st.split()[2:])
            elif st == "@views":
                mode = "views"
            elif st == "@shared":
                mode = "shared"
            elif st.startswith("@fn "):
                parts = st.split(None, 2)
                cur = {"ret": None, "clauses": "", "sig": None}
                c.fns[(parts[1], parts[2])] = cur
                mode = "fn"
            elif st.startswith("@ret "):
                cur["ret"] = st.split()[1]
            elif st.startswith("@sig "):
                cur["sig"] = st[5:]
            elif mode == "views":
                c.views += line + "\n"
            elif mode == "shared":
                c.shared += line + "\n"
            elif mode == "fn":
                cur["clauses"] += line + "\n"
    _contracts[name] = c
    return c


def views_text(c, uninterp):
    """views are written `spec fn name(args) -> T;` in the store; the proving unit gives the
    bodies itself (checked: same signature), users get them uninterpreted."""
    out = ""
    if uninterp:
        for m in re.finditer(r"spec\s+fn\s+[^;]+;", c.views):
            out += "pub uninterp " + " ".join(m.group(0).split()) + "\n"
        # users see only external (public) types, so the shared definitions can be `pub open`
        return out + re.sub(r"^(\s*)spec fn", r"\1pub open spec fn", c.shared, flags=re.M)
    return out + c.shared


def assume_spec_text(item, centry, drops):
    """assume_specification for a real (external) function, with the stored clauses."""
    s = item.src
    sig = s.sig
    fp = extract.FnParts(item)

    def span(lo, hi):  # significant positions [lo, hi)
        return s.text[s.toks[sig[lo]][1]:s.toks[sig[hi - 1]][2]] if hi > lo else ""
    gen = span(fp.name_pos + 1, fp.params_open)
    params = span(fp.params_open + 1, fp.params_close)
    ret = span(fp.ret_lo, fp.ret_hi) if fp.arrow is not None else None
    where = span(fp.where, fp.body_open) if fp.where is not None else ""
    ty = None
    igen = ""
    iwhere = ""
    if item.parent is not None and item.parent.kind == "impl":
        igen, ty, iwhere = split_generics(item.parent.header_raw)
        if " for " in ty:
            ty = ty.split(" for ", 1)[1].strip()
    if ty:
        params = re.sub(r"^\s*&\s*mut\s+self\b", f"self_: &mut {ty}", params)
        params = re.sub(r"^\s*&\s*self\b", f"self_: &{ty}", params)
        params = re.sub(r"^\s*mut\s+self\b", f"self_: {ty}", params)
        params = re.sub(r"^\s*self\b", f"self_: {ty}", params)
        params = re.sub(r"\bSelf\b", ty, params)
        if ret:
            ret = re.sub(r"\bSelf\b", ty, ret)
    params = re.sub(r"\bmut\s+(\w+\s*:)", r"\1", params)
    # merge generics: impl generics + fn generics
    g = ""
    ig = igen.strip()[1:-1].strip() if igen.strip() else ""
    fg = gen.strip()[1:-1].strip() if gen.strip() else ""
    allg = ", ".join(x for x in (ig, fg) if x)
    if allg:
        g = "<" + allg + ">"
    path = (ty_path(ty) + "::" if ty else "") + item.name
    if fg:
        names = [re.split(r"[:=]", a.strip())[0].replace("const ", "").strip() for a in split_top(fg)]
        path += "::<" + ", ".join(names) + ">"
    clauses = centry["clauses"].replace("$self", "self_")
    rname = centry["ret"] or "ret"
    rtxt = f" -> ({rname}: {ret})" if ret else ""
    wtxt = " ".join(x for x in (where, iwhere) if x)
    if centry.get("sig"):
        return f"pub assume_specification{centry['sig']}\n{clauses};\n"
    return f"pub assume_specification{g} [{path}] ({params}){rtxt}\n{wtxt}\n{clauses.rstrip().rstrip(',')};\n"


def ty_path(ty):
    # EvmContext<DB> -> EvmContext::<DB>
    m = re.match(r"([\w:]+)\s*<(.*)>$", ty)
    if m:
        return f"{m.group(1)}::<{m.group(2)}>"
    return ty


def split_top(s):
    out, d, cur = [], 0, ""
    for ch in s:
        if ch in "<([":
            d += 1
        elif ch in ">)]":
            d -= 1
        if ch == "," and d == 0:
            out.append(cur)
            cur = ""
        else:
            cur += ch
    if cur.strip():
        out.append(cur)
    return out


def split_generics(header_raw):
    """'<DB: Database> EvmContext<DB>' -> ('<DB: Database>', 'EvmContext<DB>', where)"""
    h = header_raw
    gen = ""
    if h.startswith("<"):
        d = 0
        for i, c in enumerate(h):
            if c == "<":
                d += 1
            elif c == ">" and h[i - 1] != "-":
                d -= 1
                if d == 0:
                    gen, h = h[:i + 1], h[i + 1:].strip()
                    break
    parts = re.split(r"\bwhere\b", h, maxsplit=1)
    ty = parts[0].strip()
    where = ("where " + parts[1].strip()) if len(parts) > 1 else ""
    return gen, ty, where


def split_clauses(s):
    """split a clause list at top-level commas (only ( [ { nest: `<` `>` are comparison operators here)"""
    out, d, cur = [], 0, ""
    for ch in s:
        if ch in "([{":
            d += 1
        elif ch in ")]}":
            d -= 1
        if ch == "," and d == 0:
            out.append(cur)
            cur = ""
        else:
            cur += ch
    if cur.strip():
        out.append(cur)
    return out


def split_requires(clauses):
    """'requires a, b, ensures c,' -> ('a, b,', 'ensures c,')  (keywords at line starts, as the stores write them)"""
    m = re.search(r"^\s*requires\b", clauses, flags=re.M)
    if not m:
        return "", clauses
    rest = clauses[m.end():]
    m2 = re.search(r"^\s*(ensures|decreases)\b", rest, flags=re.M)
    req = rest[:m2.start()] if m2 else rest
    ens = clauses[:m.start()] + (rest[m2.start():] if m2 else "")
    # drop line comments inside the requires text (it is re-bracketed into a conjunction)
    req = re.sub(r"//[^\n]*", "", req)
    return req, ens


def pre_fn_signature(item):
    """generics, parameter list and call shape of the generated `__pre_<fn>` trait spec fn for an extracted method."""
    s = item.src
    sig = s.sig
    fp = extract.FnParts(item)

    def span(lo, hi):
        return s.text[s.toks[sig[lo]][1]:s.toks[sig[hi - 1]][2]] if hi > lo else ""
    gen = span(fp.name_pos + 1, fp.params_open)
    params = " ".join(span(fp.params_open + 1, fp.params_close).split())
    if "&mut " in params or "& mut " in params:
        # (journal unit) `&mut` receiver / parameters: the spec fn takes them as `&T`, is called with `&*old(p)`, and
        # `old(p)` in the requires text becomes `p` (receiver: `__s`).  4th element of the call shape = the text rewrites.
        fg = gen.strip()[1:-1].strip() if gen.strip() else ""
        gnames = [re.split(r"[:=]", x.strip())[0].replace("const ", "").strip() for x in split_top(fg)] if fg else []
        turbofish = ("::<" + ", ".join(gnames) + ">") if gnames else ""
        nparams, args, repl, prefix = [], [], [], "Self::"
        for a in split_top(params):
            a = a.strip()
            if not a:
                continue
            if re.fullmatch(r"&\s*mut\s+self", a):
                nparams.append("__s: &Self")
                args.append("&*old(self)")
                repl.append((r"old\(\s*self\s*\)", "__s"))
                continue
            if re.fullmatch(r"&?\s*(mut\s+)?self", a):
                nparams.append("__s: &Self")
                args.append("&*self" if a.startswith("&") else "&self")
                repl.append((r"\bself\b", "__s"))
                continue
            name, ty = a.split(":", 1)
            name = re.sub(r"^mut\s+", "", name.strip())
            m = re.match(r"&\s*(?:'\w+\s+)?mut\s+(.*)", ty.strip())
            if m:
                nparams.append(f"{name}: &{m.group(1)}")
                args.append(f"&*old({name})")
                repl.append((rf"old\(\s*{name}\s*\)", name))
            else:
                nparams.append(f"{name}: {ty.strip()}")
                args.append(name)
        return gen, ", ".join(nparams), (prefix, turbofish, ", ".join(args), repl)
    names = []
    recv = False
    for a in split_top(params):
        a = a.strip()
        if not a:
            continue
        if re.fullmatch(r"&?\s*(mut\s+)?self", a):
            recv = True
            continue
        names.append(re.sub(r"^mut\s+", "", a.split(":", 1)[0].strip()))
    fg = gen.strip()[1:-1].strip() if gen.strip() else ""
    gnames = [re.split(r"[:=]", x.strip())[0].replace("const ", "").strip() for x in split_top(fg)] if fg else []
    turbofish = ("::<" + ", ".join(gnames) + ">") if gnames else ""
    params = re.sub(r"\bmut\s+(\w+\s*:)", r"\1", params)
    return gen, params, (("self." if recv else "Self::"), turbofish, ", ".join(names))


def _loop_kinds(item):
    """sequence of loop keywords of a fn item (loop annotations are keyed by ordinal: if this sequence changes
    against the baseline, the annotations no longer apply - handled like lost proof hints)"""
    if item.kind != "fn" or getattr(item, "body_open", None) is None:
        return []
    try:
        fp = extract.FnParts(item)
        s = item.src
        return [s.tt(s.sig[k]) for (k, _) in fp.loops()]
    except Exception:
        return []


def read_template(unit):
    with open(os.path.join(VERIF, "units", unit + ".rs.in")) as f:
        ttext = f.read()
    # //@include <file relative to /verif/units> [without=ExA,ExB] : textual inclusion (shared preludes), up to 3 levels.
    # `without=`: the named external type / trait declarations (`#[verifier::..]` attribute lines + `pub struct ExA(..);`
    # or `pub trait ExA { .. }`) of
    # the included file are left out, so that the including unit can declare that type itself with another
    # transparency (unit frames: `Bytecode` transparent, prelude/state.rs declares it opaque).
    def _include(m):
        text = open(os.path.join(VERIF, "units", m.group(1))).read()
        for name in (m.group(2) or "").split(","):
            if name:
                text = re.sub(r"(?:^[ \t]*#\[verifier::[^\n]*\]\n)+[ \t]*pub struct " + re.escape(name) + r"\b[^\n]*;\n",
                              "", text, flags=re.M)
                text = re.sub(r"(?:^[ \t]*#\[verifier::[^\n]*\]\n)+[ \t]*pub trait " + re.escape(name) + r"\b[^\n]*\{\n(?:.*\n)*?\}\n",
                              "", text, flags=re.M)
        return text
    for _ in range(3):
        ttext = re.sub(r"^[ \t]*//@include\s+(\S+)(?:[ \t]+without=(\S+))?[ \t]*$", _include, ttext, flags=re.M)
    return ttext


def generate(unit, probe=False, repo=None, drop_hints=()):
    repo = repo or REPO
    tpath = os.path.join(VERIF, "units", unit + ".rs.in")
    ttext = read_template(unit)
    parts, header = parse_template(ttext)
    out = []
    meta = {"unit": unit, "header": header, "functions": [], "drops": [], "lost_hints": [], "probes": [],
            "uses": set(), "assumed": [], "proves": []}
    line = 1
    ntrait = 0
    for kind, val in parts:
        if kind == "text":
            out.append(val)
            line += val.count("\n")
            continue
        if kind == "views":
            c = load_contract(val[0])
            t = views_text(c, val[1] == "uninterp")
            if val[1] == "sharedpub":
                # proving unit over external (public) types only: the shared definitions are `pub open`, so that the
                # unit's own `pub assume_specification`s (public methods of external types) may mention them
                t = re.sub(r"^(\s*)spec fn", r"\1pub open spec fn", t, flags=re.M)
            out.append(t)
            line += t.count("\n")
            if val[1] == "uninterp":
                meta["uses"].add(val[0])
            continue
        b = val
        drops = []
        impl_of = None
        try:
            item = extract.find(os.path.join(repo, b.path), b.spec)
        except ExtractError:
            if b.assume and getattr(b, "optional", False):
                meta["drops"].append(f"assume-opt: {b.path} {b.spec} is absent, no assume_specification emitted")
                continue
            if not b.alt:
                raise
            item = extract.find(os.path.join(repo, b.alt[0]), b.alt[1])
            if item.parent is not None and item.parent.kind == "trait":
                # provided trait method standing in for the impl that does not override it: emitted inside
                # the header of that impl (which must exist: the spec minus its last part)
                impl_of = extract.find(os.path.join(repo, b.path), b.spec.rsplit(None, 1)[0])
            drops.append(f"extract-or: {b.path} {b.spec} is absent; emitted instead: {b.alt[0]} {b.alt[1]}")
            # loop invariants / closure contracts / hints are written for the primary text: not applicable to the stand-in
            b.loops, b.loopvars, b.closures, b.hints = {}, {}, {}, []
        if b.stmts:
            # a contiguous statement range of the function body, verbatim, as the body of a generated wrapper function
            # whose (hand-written) signature names its parameters like the locals the statements use
            if not b.sig or not b.to or not (b.frm or b.after):
                raise ValueError(f"//@extract-stmts {b.spec}: needs //@sig, //@to and //@from or //@after")
            if item.kind != "fn":
                raise ExtractError(f"lost anchor: {b.path} :: {b.spec} is not a fn")
            rng, la, lb = extract.stmt_range(item, b.frm, b.after, b.to)
            for (x, y) in b.subst:
                if x in rng:
                    rng = rng.replace(x, y)
                    drops.append(f"path-subst {x!r}->{y!r}")
            m = re.match(r"\s*(?:unsafe\s+)?fn\s+(\w+)", b.sig)
            if not m:
                raise ValueError("bad //@sig: " + b.sig)
            wname = m.group(1)
            if b.finding:
                wname2 = f"{wname}__finding_{b.finding}"
                b.sig = b.sig.replace(wname, wname2, 1)
                wname = wname2
            has_req = bool(re.search(r"\brequires\b", b.clauses))
            do_probe = probe and has_req and "noprobe" not in b.flags
            body_first = (" proof { assert(false); } " if do_probe else "") + (("\n" + b.first.rstrip("\n") + "\n") if b.first else "")
            drops.append(f"statement range lines {la}-{lb} of fn {item.name} wrapped in the generated function `{wname}` "
                         f"(signature hand-written: parameters named like the locals the statements use)")
            emitted = b.attrs + b.sig + "\n" + b.clauses.rstrip("\n") + "\n{" + body_first + "\n" + rng.rstrip("\n") + "\n}\n\n"
            start = line + b.attrs.count("\n")
            line += emitted.count("\n")
            out.append(emitted)
            meta["functions"].append({
                "path": b.path, "spec": b.spec + f" [stmts {la}-{lb}]", "kind": "fn", "name": wname, "parent": None,
                "src_line": la, "sha256": extract.sha(rng), "out_lines": [start, line - 1], "has_requires": has_req,
                "contract": bool(b.clauses.strip()), "drops": drops, "finding": b.finding,
            })
            if do_probe:
                meta["probes"].append(wname)
            continue
        if b.finding and not b.rename:
            b.rename = f"{item.name}__finding_{b.finding}"
        if b.contract:
            c = load_contract(b.contract)
            ce = c.fns.get((b.path, b.spec))
            if ce is None:
                raise ValueError(f"contract store {b.contract} has no entry for {b.path} {b.spec}")
            if b.assume:
                t = assume_spec_text(item, ce, drops)
                out.append(t)
                line += t.count("\n")
                meta["assumed"].append({"contract": b.contract, "path": b.path, "spec": b.spec,
                                        "proved_in": c.proved_in, "proved_by": c.proved_by,
                                        "clause_hash": extract.sha(ce["clauses"])[:16], "sha256": extract.sha(item.text())})
                meta["uses"].add(b.contract)
                continue
            b.ret = b.ret or ce["ret"]
            b.clauses = ce["clauses"].replace("$self", "self") + b.clauses
            meta["proves"].append({"contract": b.contract, "path": b.path, "spec": b.spec,
                                   "clause_hash": extract.sha(ce["clauses"])[:16]})
        has_req = bool(re.search(r"\brequires\b", b.clauses))
        opts = {
            "ret": b.ret, "clauses": b.clauses.rstrip("\n"), "loops": {k: v.rstrip("\n") for k, v in b.loops.items()}, "loopvars": dict(b.loopvars),
            "closures": {k: tuple(v) for k, v in b.closures.items()},
            "hints": ([] if (b.rename or "") in drop_hints or b.spec.split(":")[-1] in drop_hints
                      else [tuple(h[:2]) + (h[2].rstrip("\n"), h[3]) for h in b.hints]),
            "body_first": b.first.rstrip("\n"), "subst": b.subst,
            "keep_pub": "keep_pub" in b.flags, "drop_derive": "drop_derive" in b.flags,
            "rename": b.rename,
            "probe": probe and has_req and item.kind == "fn" and "noprobe" not in b.flags,
            "tail_continue": "tail_continue" in b.flags,
        }
        pre = b.attrs
        post = ""
        if "plain" in b.flags and item.kind == "fn":
            # attribute form: the function text stays plain Rust OUTSIDE verus!{}; the contract is an attribute
            opts["plain"] = True
            if b.clauses.strip():
                opts["attr_spec"] = "#[verus_spec(" + ((b.ret + " =>\n") if b.ret else "") + b.clauses.rstrip("\n") + "\n)]\n"
            opts["ret"] = None
            opts["clauses"] = ""
            drops.append("contract attached as #[verus_spec] attribute (function text outside verus!{})")
        if item.kind == "fn" and b.trait is not None:
            ntrait += 1
            tname = f"__Verif{ntrait}_{b.rename or item.name}"
            gen, ty, where = split_generics((impl_of or item.parent).header_raw)
            if " for " in ty:
                ty = ty.split(" for ", 1)[1].strip()   # method of `impl Trait for Type`: the extension trait is implemented for Type
            tgen_decl, _, tgen_use = b.trait.partition("|")
            opts["drop_const"] = True   # trait methods cannot be `const fn`
            sig_opts = dict(opts)
            sig_opts["sig_only"] = True
            sig_opts["probe"] = False
            sig_opts["tail_continue"] = False   # (the trait declaration has no body)
            body_opts = dict(opts)
            body_opts["clauses"] = ""
            pre_decl = pre_def = ""
            if "implspec" in b.flags:
                # ensures-only contract that mentions fields of the concrete type: Verus accepts it on the impl
                # method (strengthening), the generated trait declaration stays bare
                sig_opts["clauses"] = ""
                body_opts["clauses"] = opts["clauses"]
                if has_req:
                    # a precondition cannot be added on an impl method: it goes onto the trait declaration through a
                    # generated trait spec fn `__pre_<fn>` whose body (the requires text) is given in the impl
                    req, ens = split_requires(opts["clauses"])
                    pname = f"__pre_{b.rename or item.name}"
                    pgen, pparams, pargs = pre_fn_signature(item)
                    for (rx, by) in (pargs[3] if len(pargs) > 3 else []):
                        req = re.sub(rx, by, req)
                    pre_decl = f"    spec fn {pname}{pgen}({pparams}) -> bool;\n"
                    pre_def = f"    spec fn {pname}{pgen}({pparams}) -> bool {{\n        " + \
                              " && ".join("(" + c.strip() + ")" for c in split_clauses(req) if c.strip()) + "\n    }\n"
                    sig_opts["clauses"] = f"    requires {pargs[0]}{pname}{pargs[1]}({pargs[2]}),"
                    body_opts["clauses"] = ens
            if "external_body" in b.flags:
                # (journal unit) the method text is emitted verbatim but its body is NOT verified: the contract is an
                # ASSUMPTION (picked up by scan_trusted as `external_body fn <name>`); use together with //@noprobe
                body_opts["attr_spec"] = "#[verifier::external_body]\n"
                drops.append("body NOT verified (#[verifier::external_body]): the contract of this function is ASSUMED")
            sigtext, _ = extract.emit_item(item, sig_opts, [])
            body_opts["ret"] = b.ret
            text, lost = extract.emit_item(item, body_opts, drops)
            pre = pre[:len(pre) - len(b.attrs)] if b.attrs and pre.endswith(b.attrs) else pre
            pre += f"trait {tname}{tgen_decl.strip()} {{\n{pre_decl}{sigtext}\n}}\nimpl{gen} {tname}{tgen_use.strip()} for {ty} {where} {{\n{pre_def}"
            pre += b.attrs
            post = "\n}\n"
            drops.append(f"method of external type emitted in extension trait {tname}")
        else:
            text, lost = extract.emit_item(item, opts, drops)
            if item.kind == "fn" and item.parent is not None and item.parent.kind == "impl" and "noimpl" not in b.flags:
                pre += f"impl{'' if item.parent.header_raw.startswith('<') else ' '}{item.parent.header_raw} {{\n"
                post = "\n}\n"
        emitted = pre + text + post + "\n"
        start = line + pre.count("\n")
        line += emitted.count("\n")
        out.append(emitted)
        raw = item.text()
        rec = {
            "path": b.path, "spec": b.spec, "kind": item.kind, "name": b.rename or item.name,
            # (extension-trait methods are reported by Verus under the bare path of the type they are implemented for)
            "parent": (re.sub(r"<.*$", "", ty).strip() if (item.kind == "fn" and b.trait is not None)
                       else item.parent.name if item.parent is not None else None),
            "src_line": item.line(), "sha256": extract.sha(raw),
            "out_lines": [start, line - 1], "has_requires": has_req, "contract": bool(b.clauses.strip()),
            "drops": drops, "finding": b.finding, "loops": _loop_kinds(item),
            "fallback": (f"{b.alt[0]} {b.alt[1]}" if drops and drops[0].startswith("extract-or:") else None),
        }
        if opts["probe"]:
            meta["probes"].append(rec["name"])
        if lost:
            meta["lost_hints"].append({"fn": item.name, "anchors": lost})
        meta["functions"].append(rec)
    text = "".join(out)
    meta["uses"] = sorted(meta["uses"])
    meta["trusted_scan"] = scan_trusted(text)
    return text, meta


def scan_trusted(text):
    res = []
    for m in re.finditer(r"assume_specification\s*(?:<[^\[]*>)?\s*\[\s*([^\]]+?)\s*\]", text):
        res.append("assume_specification " + " ".join(m.group(1).split()))
    for m in re.finditer(r"#\[verifier::external_body\]\s*(?:pub\s+)?(?:proof\s+|broadcast\s+|uninterp\s+|closed\s+|open\s+|exec\s+)*(fn|struct|const)\s+(\w+)", text):
        res.append(f"external_body {m.group(1)} {m.group(2)}")
    for m in re.finditer(r"\b(assume|admit)\s*\(", text):
        res.append(m.group(1) + "()")
    for m in re.finditer(r"exec_allows_no_decreases_clause", text):
        res.append("exec_allows_no_decreases_clause (termination not verified)")
    for m in re.finditer(r"uninterp\s+spec\s+fn\s+(\w+)", text):
        res.append("uninterp spec fn " + m.group(1))
    for m in re.finditer(r"(?:pub\s+)?(?:broadcast\s+)?(?:proof\s+)?axiom\s+fn\s+(\w+)", text):
        res.append("axiom " + m.group(1))
    return sorted(set(res))


# ---------------------------------------------------------------- building the real rlibs
def build_rlibs(log=None, features=""):
    """cargo +1.98.1 build -p revm [--features f] from /repo's working tree into /verif/build/target[-f]."""
    import fcntl
    os.makedirs(BUILD, exist_ok=True)
    target = TARGET + ("-" + features.replace(",", "_") if features else "")
    lock = open(os.path.join(BUILD, ".lock" + ("-" + features.replace(",", "_") if features else "")), "w")
    fcntl.flock(lock, fcntl.LOCK_EX)
    try:
        env = dict(os.environ, CARGO_TARGET_DIR=target, CARGO_NET_OFFLINE="true")
        env.pop("RUSTFLAGS", None)
        t0 = time.time()
        cmd = ["cargo", "+1.98.1", "build", "--offline", "-p", "revm"] + (["--features", features] if features else [])
        p = subprocess.run(cmd, cwd=REPO, env=env, capture_output=True, text=True)
        if p.returncode != 0:
            return None, p.stderr[-4000:]
        deps = os.path.join(target, "debug", "deps")
        ext = {}
        for crate in ("revm", "revm_interpreter", "revm_primitives", "revm_precompile"):
            c = [f for f in os.listdir(deps) if re.fullmatch(rf"lib{crate}-[0-9a-f]+\.rlib", f)]
            if not c:
                return None, f"rlib for {crate} not found"
            c.sort(key=lambda f: os.path.getmtime(os.path.join(deps, f)))
            ext[crate] = os.path.join(deps, c[-1])
        ext["_deps"] = deps
        ext["_build_s"] = round(time.time() - t0, 1)
        return ext, ""
    finally:
        fcntl.flock(lock, fcntl.LOCK_UN)
        lock.close()


def run_verus(path, header, ext, extra=(), timeout=900):
    cmd = ["verus", path, "--output-json", "--time", "--error-format=json", "--crate-name", "vu_" + os.path.basename(path).split(".")[0]]
    if header.get("externs", "none") != "none":
        for crate in header["externs"].split(","):
            # `name` = one of the four repository crates resolved by build_rlibs; otherwise a DEPENDENCY of them,
            # `name` or `name:libcrate` (extern name : library crate name, e.g. bn:substrate_bn), resolved in the
            # same deps directory (newest rlib of that crate name)
            name, _, lib = crate.partition(":")
            path = ext.get(lib or name)
            if path is None:
                c = [f for f in os.listdir(ext["_deps"]) if re.fullmatch(rf"lib{lib or name}-[0-9a-f]+\.rlib", f)]
                if not c:
                    raise ValueError(f"extern {crate}: no rlib in {ext['_deps']}")
                c.sort(key=lambda f: os.path.getmtime(os.path.join(ext["_deps"], f)))
                path = os.path.join(ext["_deps"], c[-1])
            cmd += ["--extern", f"{name}={path}"]
        cmd += ["-L", f"dependency={ext['_deps']}"]
    if header.get("flags"):
        cmd += header["flags"].split(",")
    cmd += list(extra)
    # `--rlimit` may come both from the unit header and from the tier: keep the larger one only
    rl = [float(cmd[i + 1]) for i in range(len(cmd) - 1) if cmd[i] == "--rlimit"]
    if len(rl) > 1:
        out, i = [], 0
        while i < len(cmd):
            if cmd[i] == "--rlimit":
                i += 2
                continue
            out.append(cmd[i])
            i += 1
        cmd = out + ["--rlimit", str(int(max(rl)))]
    t0 = time.time()
    try:
        p = subprocess.run(cmd, capture_output=True, text=True, timeout=timeout, cwd=os.path.dirname(path))
    except subprocess.TimeoutExpired:
        return {"cmd": cmd, "timeout": True, "wall_s": timeout}
    wall = time.time() - t0
    res = {"cmd": cmd, "wall_s": round(wall, 2), "rc": p.returncode, "diags": [], "json": None, "raw_err": ""}
    try:
        res["json"] = json.loads(p.stdout)
    except Exception:
        res["raw_err"] += p.stdout[-2000:]
    for ln in p.stderr.split("\n"):
        ln = ln.strip()
        if ln.startswith("{"):
            try:
                d = json.loads(ln)
            except Exception:
                continue
            if d.get("level") in ("error", "warning") and d.get("spans") is not None:
                res["diags"].append(d)
        elif ln:
            res["raw_err"] += ln + "\n"
    return res


def breakdown(res):
    """{function name: {success, time_us, rlimit}} for functions of the unit crate."""
    out = {}
    j = res.get("json") or {}
    try:
        mods = j["times-ms"]["smt"]["smt-run-module-times"]
    except Exception:
        return out
    for m in mods:
        for f in m.get("function-breakdown", []):
            name = f["function"]
            e = out.setdefault(name, {"success": True, "time_us": 0, "rlimit": 0, "mode": f.get("mode:")})
            e["success"] = e["success"] and f["success"]
            e["time_us"] += f.get("time-micros", 0)
            e["rlimit"] += f.get("rlimit", 0)
    return out


def classify(diag):
    msg = diag.get("message", "")
    if diag.get("level") != "error":
        return "warning"
    if msg.startswith("aborting due to"):
        return "noise"
    for s in SEMANTIC:
        if s in msg:
            return "semantic"
    if "rlimit" in msg.lower() or "resource limit" in msg.lower() or "timed out" in msg.lower():
        return "rlimit"
    return "other"


def diag_lines(diag):
    return [(sp["line_start"], sp["line_end"], sp.get("is_primary"), sp.get("label")) for sp in diag.get("spans", [])]
