"""Property check driver: generates and verifies the units of a property, applies the
vacuity guards, compares with the committed baseline of discharged obligations, applies the
known-findings file, writes evidence, prints VIOLATION / KNOWN-FINDING / UNDECIDED lines."""
import concurrent.futures as cf
import json
import os
import re
import subprocess
import sys
import time

from . import extract, vunit
from .extract import ExtractError

VERIF = vunit.VERIF
REPO = vunit.REPO


def load_baseline(unit):
    p = os.path.join(VERIF, "baseline", unit + ".json")
    if not os.path.exists(p):
        return None
    with open(p) as f:
        return json.load(f)


def load_known_findings():
    res = {"finding": [], "fixed": []}
    p = os.path.join(VERIF, "known_findings.txt")
    if os.path.exists(p):
        for ln in open(p):
            ln = ln.strip()
            if not ln or ln.startswith("#"):
                continue
            kind, _, rest = ln.partition(":")
            kv = dict(re.findall(r"(\w+)=(\S+)", rest))
            kv["_text"] = rest.strip()
            if kind in res:
                res[kind].append(kv)
    return res


def short(name):
    # vu_gas::Gas::record_cost -> Gas::record_cost ; strip impl&%N
    n = name.split("::", 1)[1] if "::" in name else name
    return n


class UnitResult:
    def __init__(self, unit):
        self.unit = unit
        self.obligations = {}   # short fn name -> {success, time_us, rlimit}
        self.failed = {}        # short fn name -> [diag dicts] (semantic)
        self.undecided = []     # reasons
        self.meta = None
        self.cmd = ""
        self.wall = 0.0
        self.probe_ok = None
        self.probe_missing = []
        self.uncompilable = {}  # extracted fn -> compile error messages
        self.unstable = []      # thorough tier: obligations whose verdict differs between z3 seeds
        self.text_path = None


def fn_for_line(meta, text_lines, ln):
    """Map an emitted line to the enclosing function (extracted or handwritten)."""
    for f in meta["functions"]:
        # (a const with a contract is emitted as `exec const .. ensures .. { .. }`: an obligation of its own)
        if (f["kind"] == "fn" or (f["kind"] in ("const", "static") and f.get("contract"))) and f["out_lines"][0] <= ln <= f["out_lines"][1]:
            return (f["parent"] + "::" if f["parent"] else "") + f["name"], True
    # handwritten: search backwards for 'fn name'
    for k in range(min(ln, len(text_lines)) - 1, -1, -1):
        m = re.match(r"\s*(?:pub\s+)?(?:open\s+|closed\s+|broadcast\s+)*(?:proof\s+|spec\s+|exec\s+)?fn\s+(\w+)", text_lines[k])
        if m:
            return m.group(1), False
    return None, False


def run_unit(unit, ext, tier="quick", seed=0, keep=True, _drop_hints=()):
    r = UnitResult(unit)
    outdir = os.path.join(vunit.BUILD, "units")
    os.makedirs(outdir, exist_ok=True)
    try:
        extract.clear_cache()
        text, meta = vunit.generate(unit, probe=False, drop_hints=_drop_hints)
        ptext, pmeta = vunit.generate(unit, probe=True, drop_hints=_drop_hints)
    except ExtractError as e:
        r.undecided.append(str(e))
        return r
    r.meta = meta
    r._drop = set(_drop_hints)
    for fn in sorted(_drop_hints):
        meta["lost_hints"].append({"fn": fn, "anchors": ["(all proof hints of the function dropped: their text no longer compiled against the changed code)"]})
    if isinstance(ext, dict) and "_deps" not in ext:
        ext = ext.get(meta["header"].get("features", ""))  # rlib set built with the unit's cargo features
    main_path = os.path.join(outdir, unit + ".rs")
    probe_path = os.path.join(outdir, unit + "__probe.rs")
    open(main_path, "w").write(text)
    open(probe_path, "w").write(ptext)
    r.text_path = main_path
    extra = []
    if tier == "thorough":
        extra += ["--rlimit", "40"]
    runs = [(main_path, extra)]
    if pmeta["probes"]:
        runs.append((probe_path, ["--multiple-errors", "1"]))
    if tier == "thorough":
        for k in range(1, 4):
            runs.append((main_path, ["--rlimit", "40", "--smt-option", f"smt.random_seed={(seed + k * 7919) % 100000}"]))
    with cf.ThreadPoolExecutor(max_workers=len(runs)) as ex:
        futs = [ex.submit(vunit.run_verus, p, meta["header"], ext, e) for (p, e) in runs]
        results = [f.result() for f in futs]
    res = results[0]
    r.cmd = " ".join(res["cmd"])
    r.wall = res.get("wall_s", 0)
    tl = text.split("\n")
    _collect(r, res, meta, tl)
    if not _drop_hints:
        # compile errors located inside extracted functions (typically a proof hint mentioning a local that the
        # changed code no longer has): retry ONCE with the hints of exactly those functions dropped
        culprits = set()
        all_in_fns = True
        for d in res.get("diags", []):
            if vunit.classify(d) != "other":
                continue
            hit = False
            for (ls, le, prim, label) in vunit.diag_lines(d):
                fn, extracted = fn_for_line(meta, tl, ls)
                if fn and extracted:
                    culprits.add(fn.split("::")[-1])
                    hit = True
            all_in_fns = all_in_fns and hit
        if culprits and all_in_fns:
            return run_unit(unit, ext, tier, seed, keep, _drop_hints=tuple(sorted(culprits)))
    # seeds (thorough): an obligation that flips between seeds is UNDECIDED, not a violation
    if tier == "thorough":
        for extra_res in results[(2 if pmeta["probes"] else 1):]:
            r2 = UnitResult(unit)
            _collect(r2, extra_res, meta, tl)
            for fn in set(r2.failed) ^ set(r.failed):
                # an obligation that flips between solver seeds is a brittle proof, reported but not a verdict:
                # the deciding run is the default-seed run above
                r.unstable.append(fn)
            r.wall += extra_res.get("wall_s", 0)
    # probes: every function with a requires must FAIL its `assert(false)`
    if pmeta["probes"]:
        pres = results[1]
        ptl = ptext.split("\n")
        failed_fns = set()
        for d in pres.get("diags", []):
            if vunit.classify(d) == "semantic" and "assertion failed" in d["message"]:
                for (ls, le, prim, label) in vunit.diag_lines(d):
                    fn, _ = fn_for_line(pmeta, ptl, ls)
                    if fn:
                        failed_fns.add(fn.split("::")[-1])
        r.probe_missing = [p for p in pmeta["probes"] if p not in failed_fns]
        r.probe_ok = not r.probe_missing
        if pres.get("timeout") or (not pres.get("json")):
            r.undecided.append("probe run did not complete")
        elif r.probe_missing:
            r.undecided.append("vacuity guard: precondition unreachable (probe verified) for " + ",".join(r.probe_missing))
    return r


def _collect(r, res, meta, tl):
    if res.get("timeout"):
        r.undecided.append("verus timeout")
        return
    bd = vunit.breakdown(res)
    # methods of EXTERNAL types emitted through extension traits are reported by Verus under the
    # type's own path (e.g. revm_interpreter::host::SStoreResult::is_new_zero), not under vu_<unit>
    ext_methods = {f["parent"] + "::" + f["name"] for f in meta["functions"] if f["kind"] == "fn" and f["parent"]}
    for name, e in bd.items():
        if name.startswith("vu_"):
            r.obligations[short(name)] = e
        elif "::".join(name.split("::")[-2:]) in ext_methods:
            r.obligations["::".join(name.split("::")[-2:])] = e
    diags = res.get("diags", [])
    others = [d for d in diags if vunit.classify(d) == "other"]
    rlim = [d for d in diags if vunit.classify(d) == "rlimit"]
    if others:
        msgs = "; ".join(d["message"][:200] + "@" + ",".join(str(x[0]) for x in vunit.diag_lines(d)[:2]) for d in others[:5])
        r.undecided.append("unit does not compile / construct outside verifier subset: " + msgs)
        # remember which extracted functions the compile errors sit in: the property driver may still find a
        # concrete failing input for them on the real code (then: VIOLATION with that witness)
        for d in others:
            for (ls, le, prim, label) in vunit.diag_lines(d):
                fn, extracted = fn_for_line(meta, tl, ls)
                if fn and extracted:
                    r.uncompilable.setdefault(fn, []).append(d["message"][:300])
    if not res.get("json") and not others:
        r.undecided.append("verus produced no result: " + res.get("raw_err", "")[-500:])
    for d in rlim:
        r.undecided.append("rlimit: " + d["message"][:120])
    for d in diags:
        if vunit.classify(d) != "semantic":
            continue
        # attribute to the function containing the *call site / body* span (non-clause span
        # inside a function body); fall back to the primary span
        cands = []
        for (ls, le, prim, label) in vunit.diag_lines(d):
            fn, extracted = fn_for_line(meta, tl, ls)
            if fn:
                cands.append((0 if extracted else 1, 0 if prim else 1, fn, extracted, ls, label))
        if not cands:
            r.undecided.append("unattributed verifier error: " + d["message"])
            continue
        cands.sort()
        fn = cands[0][2]
        # prefer what the verifier's own per-function breakdown says failed
        r.failed.setdefault(fn, []).append({
            "message": d["message"],
            "spans": [{"line": c[4], "label": c[5], "text": tl[c[4] - 1].strip() if c[4] - 1 < len(tl) else ""} for c in cands],
            "rendered": d.get("rendered", "")[:3000],
        })
    # verifier breakdown failures without diag (should not happen)
    for name, e in r.obligations.items():
        if not e["success"] and not any(name.endswith(f) or f.endswith(name.split("::")[-1]) for f in r.failed):
            if not rlim and not others:
                r.undecided.append(f"obligation {name} failed without a semantic diagnostic")
