import json, os, sys, time
from . import vunit, driver, extract


def cmd_unit(args):
    unit = args[0]
    ext = None
    text, meta = vunit.generate(unit)
    if meta["header"].get("externs", "none") != "none":
        ext, err = vunit.build_rlibs(features=meta["header"].get("features", ""))
        if ext is None:
            print("build failed:\n" + err)
            return 2
    r = driver.run_unit(unit, ext, tier="thorough" if "--thorough" in args else "quick")
    print(f"unit {unit}: {len(r.obligations)} obligations, {sum(1 for e in r.obligations.values() if e['success'])} ok, wall {r.wall}s, probes ok={r.probe_ok}")
    for u in r.undecided:
        print("UNDECIDED:", u)
    for fn, ds in r.failed.items():
        for d in ds:
            print("FAILED", fn, "::", d["message"])
            print(d["rendered"])
    if "-v" in args:
        for k, e in sorted(r.obligations.items()):
            print(f"  {k}: {'ok' if e['success'] else 'FAIL'} {e['time_us']/1000:.0f}ms rlimit={e['rlimit']}")
    if r.meta and r.meta["lost_hints"]:
        print("lost hints:", r.meta["lost_hints"])
    return 0 if not r.failed and not r.undecided else 1


def main(argv):
    if not argv:
        print("usage: check <property-id> [--tier quick|thorough] | setup | unit <u> | replay <path> | rebaseline <u>")
        return 2
    if argv[0] == "unit":
        return cmd_unit(argv[1:])
    from . import props
    return props.main(argv)
