"""Per-property orchestration: which units / harnesses decide a property, evidence, exit codes."""
import concurrent.futures as cf
import json
import os
import re
import subprocess
import sys
import time

from . import vunit, driver, extract
from .propdefs import PROPS, NOT_APPLICABLE

VERIF = vunit.VERIF
REPO = vunit.REPO


def unit_closure(units):
    """units + the units that prove the contracts they assume (ledger closure)."""
    seen, todo = [], list(units)
    while todo:
        u = todo.pop(0)
        if u in seen:
            continue
        seen.append(u)
        txt = vunit.read_template(u)
        for m in re.finditer(r"^//@(?:assume|views)\s+(\S+)(?:\s+uninterp)?", txt, re.M):
            if m.group(0).startswith("//@views") and "uninterp" not in m.group(0):
                continue
            c = vunit.load_contract(m.group(1))
            if c.proved_in and c.proved_in != u and c.proved_by.startswith("verus"):
                todo.append(c.proved_in)
    return seen


def unit_features(u):
    m = re.search(r"^//@unit.*\bfeatures=(\S+)", vunit.read_template(u), re.M)
    return m.group(1) if m else ""


def needs_rlibs(units):
    for u in units:
        m = re.search(r"^//@unit.*externs=(\S+)", vunit.read_template(u), re.M)
        if m and m.group(1) != "none":
            return True
    return False


def match_baseline(fn, names):
    last = fn.split("::")[-1]
    if fn in names:
        return fn
    c = [n for n in names if n.split("::")[-1] == last]
    return c[0] if c else None


def run_property(pid, tier, seed):
    t0 = time.time()
    P = PROPS[pid]
    lines = []
    undecided = []
    violations = []   # (obligation, replay path, witness?)
    known_lines = []
    kf = driver.load_known_findings()
    # aux_units: units whose discharged obligations this property also rests on (e.g. C02 on journal's
    # `clear`), but whose `__finding_` twins belong to other properties (treated like closure units)
    units = unit_closure(list(P.get("units", [])) + list(P.get("aux_units", [])))
    ext = None
    build_s = 0
    if units and needs_rlibs(units):
        ext = {}
        for feat in sorted(set(unit_features(u) for u in units)):
            e, err = vunit.build_rlibs(features=feat)
            if e is None:
                print(f"UNDECIDED property={pid} reason=repository does not build with the verifier toolchain (features='{feat}')")
                print(err[-3000:])
                return 2, None
            ext[feat] = e
            build_s += e["_build_s"]
    results = {}
    with cf.ThreadPoolExecutor(max_workers=6) as ex:
        futs = {u: ex.submit(driver.run_unit, u, ext, tier, seed) for u in units}
        for u, f in futs.items():
            results[u] = f.result()
    obligations = {}
    lost_hint_fns = {}
    unstable_all = []
    fn_text_changed = {}
    finding_obs = {}
    fns_under_contract = []
    drops = []
    trusted = set(P.get("trusted", []))
    assumed_ledger = []
    cmds = []
    for u in units:
        r = results[u]
        cmds.append(r.cmd)
        base = driver.load_baseline(u)
        for x in r.undecided:
            undecided.append(f"{u}: {x}")
        for fn in sorted(set(getattr(r, "unstable", []))):
            lines.append(f"NOTE unit={u} obligation {fn} is unstable across z3 seeds (thorough tier; brittle proof, verdict taken from the default seed)")
            unstable_all.append(f"{u}:{fn}")
        if r.meta:
            for f in r.meta["functions"]:
                if f["kind"] == "fn":
                    fns_under_contract.append({"unit": u, "fn": (f["parent"] + "::" if f["parent"] else "") + f["name"],
                                               "file": f["path"], "line": f["src_line"], "sha256": f["sha256"][:16],
                                               "engine": "verus", "contract": f["contract"]})
                for d in f["drops"]:
                    drops.append(f"{u}:{f['name']}: {d}")
            for t in r.meta["trusted_scan"]:
                trusted.add(f"[{u}] {t}")
            for a in r.meta["assumed"]:
                assumed_ledger.append({"unit": u, **a})
            for lh in r.meta["lost_hints"]:
                lost_hint_fns.setdefault(u, set()).add(lh["fn"])
                lines.append(f"NOTE unit={u} proof hint anchors lost in {lh['fn']}: {lh['anchors']} (hints skipped)")
        for name, e in r.obligations.items():
            if "__finding_" in name:
                finding_obs[f"V:{u}:{name}"] = e
                continue
            obligations[f"V:{u}:{name}"] = e
        if base is None:
            undecided.append(f"{u}: no committed baseline of discharged obligations")
            continue
        # functions whose changed text can no longer be turned into an obligation (does not compile in the unit):
        # undecided for the verifier - but if the witness search finds a concrete failing input on the real code,
        # the obligation that was discharged on the unchanged tree is reported as violated, with that witness
        for fn, msgs in getattr(r, "uncompilable", {}).items():
            bn = match_baseline(fn, base["obligations"])
            if bn is None:
                continue
            violations.append({"unit": u, "fn": fn, "obligation": f"V:{u}:{bn}", "needs_witness": True,
                               "diags": [{"message": "obligation can no longer be generated: the changed text of the function does not compile "
                                                     "inside the verification unit (" + msgs[0] + ")", "spans": [], "rendered": "\n".join(msgs)}]})
        missing = [n for n in base["obligations"] if n not in r.obligations and "__finding_" not in n]
        if missing and not r.undecided:
            undecided.append(f"{u}: vacuity guard: obligations missing from this run: {missing[:5]}")
        # loop structure changed against the baseline (e.g. `while c {}` rewritten as `loop { if !c {break} }`): the
        # loop annotations, keyed by ordinal, no longer fit -> same policy as lost proof hints (needs a witness)
        for f in (r.meta["functions"] if r.meta else []):
            bl = (base.get("loops") or {}).get(f["name"])
            if bl is not None and (not bl or isinstance(bl[0], str)):
                bl = [bl]  # older baseline format: one sequence per name
            if f["kind"] == "fn" and bl is not None and f.get("loops", []) not in bl:
                lost_hint_fns.setdefault(u, set()).add(f["name"])
                lines.append(f"NOTE unit={u} loop structure of {f['name']} changed ({bl} -> {f.get('loops', [])}): loop annotations may no longer fit")
        for f in (r.meta["functions"] if r.meta else []):
            bsha = (base.get("functions") or {}).get(f["name"])
            if bsha is not None and bsha != f["sha256"]:
                fn_text_changed[(u, f["name"])] = True
        finding_fns = {f["name"]: f["finding"] for f in (r.meta["functions"] if r.meta else []) if f.get("finding")}
        for fn, diags in r.failed.items():
            last = fn.split("::")[-1]
            if last in finding_fns:
                # property-level contract on a copy of the function: listed => KNOWN-FINDING, else VIOLATION
                violations.append({"unit": u, "fn": fn, "obligation": f"V:{u}:{last}", "diags": diags, "finding_tag": finding_fns[last]})
                continue
            bn = match_baseline(fn, base["obligations"])
            if bn is None:
                undecided.append(f"{u}: {fn} fails but was never discharged on the unchanged tree")
                continue
            violations.append({"unit": u, "fn": fn, "obligation": f"V:{u}:{bn}", "diags": diags})
    # Kani harnesses
    kres = []
    if P.get("kani"):
        from . import kani
        kres = kani.run_harnesses(pid, P["kani"], tier)
        for k in kres:
            cmds.append(k["cmd"])
            if k["status"] == "undecided":
                undecided.append(f"kani:{k['name']}: {k['reason']}")
            elif k["status"] == "failed":
                violations.append({"unit": "kani", "fn": k["name"], "obligation": f"K:{k['name']}", "diags": [{"message": k["reason"], "rendered": k["output"][-4000:], "spans": []}], "kani": k})
        for t in kani.TRUSTED:
            trusted.add(t)
    # census guards
    for g in P.get("census", []):
        ok, msg = g()
        if not ok:
            undecided.append("census: " + msg)
    # known findings / replay
    from . import replay
    real = []
    for v in violations:
        v["witness"] = None
        if v.get("finding_tag") and v["unit"] not in P.get("units", []):
            # a deliberately failing `__finding_` twin in a unit that is here only through the ledger closure
            # (e.g. C03 assumes gascalc::exp_cost): it is another property's finding, reported by that property
            continue
        listed = None
        for k in kf["finding"]:
            if k.get("obligation") == v["obligation"] and k.get("property") == pid:
                listed = k
        if listed:
            known_lines.append(f"KNOWN-FINDING: {listed['_text']}")
            continue
        try:
            v["witness"] = replay.search_witness(pid, v, seed)
        except Exception as e:  # the search is not the deciding step
            v["witness_error"] = str(e)
        if v.get("needs_witness") and not v.get("witness"):
            continue  # already reported as UNDECIDED by the unit (does not compile); no failing input found
        ws = v.get("witness_search") or {}
        if (not v.get("witness") and not v.get("kani") and ws.get("evaluated", 0) >= 10000
                and fn_text_changed.get((v["unit"], v["fn"].split("::")[-1]))):
            # the function's text differs from the unchanged tree, its proof no longer goes through, BUT the
            # independent property-level oracle of the replay crate covers this function and found no failing input
            # in >= 10000 boundary + random evaluations on the real code: a failed proof without counterexample is
            # "undecided" (typical cause: a semantics-preserving rewrite the proof script does not fit)
            undecided.append(f"{v['unit']}: {v['fn']}: obligation no longer discharged on the changed text, but the witness search "
                             f"({ws.get('evaluated')} evaluations of the real function against the property-level oracle) found no failing input")
            continue
        lost = lost_hint_fns.get(v["unit"], set())
        if v["fn"].split("::")[-1] in lost and not v.get("witness"):
            # the function's text changed where proof hints were anchored, the hints were dropped and the
            # proof no longer goes through, but no failing input was found on the real code: this cannot be
            # told apart from a harmless refactoring -> undecided, never an alarm
            undecided.append(f"{v['unit']}: {v['fn']}: proof hints lost (code changed at their anchors), obligation not "
                             f"re-established and no failing input found by the witness search")
            continue
        real.append(v)
    for v in real:
        path = replay.write_replay(pid, v)
        tail = "" if v.get("witness") else " no-failing-input-found"
        lines.append(f"VIOLATION property={pid} replay={path}{tail}")
        for d in v["diags"][:2]:
            lines.append(f"  obligation {v['obligation']} failed: {d['message']}")
            for sp in d.get("spans", [])[:3]:
                lines.append(f"    {sp.get('label') or ''}: {sp.get('text', '')}")
    # findings that did not show up: print nothing (a finding that disappears is not an error)
    wall = time.time() - t0
    n_ob = len(obligations) + len([k for k in kres if not k.get("bounded")])
    n_ok = sum(1 for e in obligations.values() if e["success"]) + len([k for k in kres if not k.get("bounded") and k["status"] == "ok"])
    bounded = [{"name": "K:" + k["name"], "bound": k.get("bound", ""), "status": k["status"], "time_s": k.get("time_s")} for k in kres if k.get("bounded")]
    ev = {
        "property_id": pid, "tier": tier, "seed": seed, "level": P["level"],
        "coverage": {
            "obligations": n_ob, "discharged": n_ok,
            "checker_cmd": " && ".join(c for c in cmds if c) or "(none)",
            "trusted_base": sorted(trusted),
            "samples": sorted(obligations)[:12] + ["K:" + k["name"] for k in kres][:8],
            "functions_under_contract": fns_under_contract,
            "bounded_obligations": bounded,
            "solver_time_s": {k: round(e["time_us"] / 1e6, 3) for k, e in obligations.items()},
            "kani_time_s": {k["name"]: k.get("time_s") for k in kres},
            "extraction_drops": sorted(set(drops)),
            "assumed_contracts_ledger": assumed_ledger,
            "rlib_build_s": build_s,
            "explanation": P.get("explanation", ""),
            "known_findings_reported": known_lines,
            "finding_obligations": {k: ("holds" if e["success"] else "fails (property-level contract not met)") for k, e in finding_obs.items()},
            "undecided": undecided,
            "unstable_across_seeds": unstable_all,
        },
        "assumptions": P.get("assumptions", []),
        "wall_s": round(wall, 2),
        "violations": len(real),
    }
    if P["level"] != "proof":
        ev["coverage"]["evaluations"] = max(1, n_ob + len(bounded))
        ev["coverage"]["distinct_nontrivial"] = max(2, n_ob + len(bounded))
        ev["coverage"]["rule"] = P.get("rule", "one evaluation per verifier obligation / harness; all are distinct functions or harnesses")
    # runs against a scratch copy (VERIF_REPO) never touch the committed evidence of /repo
    evdir = os.path.join(VERIF, "evidence") if vunit.REPO == "/repo" else os.path.join(vunit.BUILD, "scratch-evidence")
    os.makedirs(evdir, exist_ok=True)
    with open(os.path.join(evdir, pid + ".json"), "w") as f:
        json.dump(ev, f, indent=1)
    for ln in known_lines:
        print(ln)
    for ln in lines:
        print(ln)
    if real:
        return 1, ev
    if undecided:
        for u in undecided:
            print(f"UNDECIDED property={pid} reason={u}")
        return 2, ev
    print(f"OK property={pid} obligations={n_ob} discharged={n_ok} bounded={len(bounded)} wall={wall:.1f}s")
    return 0, ev


def _loops_by_name(functions):
    """{fn name: [loop-keyword sequence of every extracted function with that name]} (names can repeat across impls)"""
    out = {}
    for f in functions:
        if f["kind"] == "fn":
            out.setdefault(f["name"], [])
            if f.get("loops", []) not in out[f["name"]]:
                out[f["name"]].append(f.get("loops", []))
    return {k: v for k, v in out.items() if any(v)}


def rebaseline(units):
    ext = None
    if needs_rlibs(units):
        ext = {}
        for feat in sorted(set(unit_features(u) for u in units)):
            e, err = vunit.build_rlibs(features=feat)
            if e is None:
                print(err)
                return 2
            ext[feat] = e
    for u in units:
        r = driver.run_unit(u, ext)
        real_failed = [f for f in r.failed if "__finding_" not in f]
        if real_failed or r.undecided:
            print(f"unit {u} not clean; baseline NOT written", list(r.failed), r.undecided)
            return 1
        os.makedirs(os.path.join(VERIF, "baseline"), exist_ok=True)
        with open(os.path.join(VERIF, "baseline", u + ".json"), "w") as f:
            json.dump({"unit": u, "loops": _loops_by_name(r.meta["functions"]),
                       "obligations": sorted(n for n in r.obligations if "__finding_" not in n),
                       "functions": {f["name"]: f["sha256"] for f in r.meta["functions"]}}, f, indent=1)
        print(f"baseline/{u}.json: {len(r.obligations)} obligations")
    return 0


def write_manifest():
    checks = []
    for pid in sorted(PROPS):
        P = PROPS[pid]
        checks.append({
            "property_id": pid,
            "quick_cmd": f"./check {pid} --tier quick",
            "thorough_cmd": f"./check {pid} --tier thorough",
            "evidence_file": f"evidence/{pid}.json",
            "replay_cmd_template": "./check replay {path}",
            "engine": P.get("engine", "verus"),
            "level_claimed": {"category": P["level"], "text": P["level_text"], "design_ref": P.get("design_ref", "DESIGN.md §3 " + pid)},
            "level_note": P["level_note"],
            "technique": P.get("technique", "contract-based deductive verification (Verus) of mechanically extracted real functions"),
        })
    na = [{"property_id": k, "reason": v} for k, v in sorted(NOT_APPLICABLE.items()) if k not in PROPS]
    man = {
        "version": 1,
        "setup_cmd": "./check setup",
        "hooks": {
            "guard": "cfg(kani)",
            "enable": "set automatically by `cargo kani`; Verus units need no hooks (they read source text)",
            "baseline_off_cmd": "cd /repo && cargo test --workspace --no-fail-fast --offline",
            "source_commits": HOOK_COMMITS,
            "add_only": True,
        },
        "engines": [
            {"name": "verus", "path": "vf/vunit.py", "serves_properties": [p for p in sorted(PROPS) if PROPS[p].get("units")],
             "kind_free_text": "Verus 0.2026.09.13 on functions extracted verbatim from /repo on every run, linked against the real rlibs"},
            {"name": "kani", "path": "vf/kani.py", "serves_properties": [p for p in sorted(PROPS) if PROPS[p].get("kani")],
             "kind_free_text": "Kani 0.68/CBMC harnesses on the real crates (path dependency); complete when loop-free over the full domain, otherwise labelled bounded"},
        ],
        "checks": checks,
        "not_applicable": na,
        "notes": "see DESIGN.md; exit 2 = undecided (lost anchor, unsupported construct, rlimit), never a violation",
    }
    with open(os.path.join(VERIF, "MANIFEST.json"), "w") as f:
        json.dump(man, f, indent=1)
    print("MANIFEST.json written:", len(checks), "checks,", len(na), "not applicable")


HOOK_COMMITS = []


def main(argv):
    cmd = argv[0]
    if cmd == "setup":
        ext, err = vunit.build_rlibs()
        if ext is None:
            print(err)
            return 1
        print("rlibs built in", ext["_build_s"], "s")
        try:
            from . import kani
            kani.setup()
        except ImportError:
            pass
        try:
            from . import replay
            replay.build()
        except Exception as e:
            print("replay crate:", e)
        return 0
    if cmd == "manifest":
        write_manifest()
        return 0
    if cmd == "rebaseline":
        return rebaseline(argv[1:])
    if cmd == "replay":
        from . import replay
        return replay.replay_file(argv[1])
    pid = cmd
    if pid not in PROPS:
        print("unknown property", pid)
        return 2
    tier = os.environ.get("VERIF_TIER", "quick")
    if "--tier" in argv:
        tier = argv[argv.index("--tier") + 1]
    seed = int(os.environ.get("VERIF_SEED", "0") or 0)
    rc, _ = run_property(pid, tier, seed)
    return rc
