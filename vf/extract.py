"""Mechanical extraction of Rust items from /repo source text.

Lexes a Rust file (comments, strings, raw strings, chars, lifetimes), finds items by
path, and emits them with the small, enumerated set of transformations listed in
DESIGN.md section 2.2.  No function body is ever rewritten here: the only body edits are
*insertions* of ghost text (loop invariants, proof hints) at anchored places.
"""
import hashlib
import re


class ExtractError(Exception):
    """Lost anchor / item not found: the run is UNDECIDED (exit 2), never a violation."""


# ---------------------------------------------------------------- lexer
def lex(src):
    toks = []  # (kind, start, end)
    i, n = 0, len(src)
    while i < n:
        c = src[i]
        if c.isspace():
            j = i + 1
            while j < n and src[j].isspace():
                j += 1
            toks.append(("ws", i, j))
        elif src.startswith("//", i):
            j = src.find("\n", i)
            j = n if j < 0 else j
            toks.append(("lc", i, j))
        elif src.startswith("/*", i):
            depth, j = 1, i + 2
            while j < n and depth:
                if src.startswith("/*", j):
                    depth += 1
                    j += 2
                elif src.startswith("*/", j):
                    depth -= 1
                    j += 2
                else:
                    j += 1
            toks.append(("bc", i, j))
        elif c == '"' or (c in "br" and _str_start(src, i)):
            j = _str_end(src, i)
            toks.append(("str", i, j))
        elif c == "'":
            # char literal or lifetime
            if i + 1 < n and src[i + 1] == "\\":
                j = i + 2
                while j < n and src[j] != "'":
                    j += 1
                toks.append(("chr", i, j + 1))
                j += 1
            elif i + 2 < n and src[i + 2] == "'":
                j = i + 3
                toks.append(("chr", i, j))
            else:
                j = i + 1
                while j < n and (src[j].isalnum() or src[j] == "_"):
                    j += 1
                toks.append(("life", i, j))
        elif c.isalpha() or c == "_":
            j = i + 1
            while j < n and (src[j].isalnum() or src[j] == "_"):
                j += 1
            toks.append(("id", i, j))
        elif c.isdigit():
            j = i + 1
            while j < n and (src[j].isalnum() or src[j] == "_"):
                j += 1
            toks.append(("num", i, j))
        else:
            j = i + 1
            toks.append(("p", i, j))
        i = j
    return toks


def _str_start(src, i):
    m = re.match(r'(b?r#*"|b")', src[i:i + 40])
    return bool(m)


def _str_end(src, i):
    m = re.match(r'b?r(#*)"', src[i:i + 40])
    if m:
        close = '"' + m.group(1)
        j = src.find(close, i + len(m.group(0)))
        return len(src) if j < 0 else j + len(close)
    j = i + (2 if src[i] == "b" else 1)
    while j < len(src):
        if src[j] == "\\":
            j += 2
        elif src[j] == '"':
            return j + 1
        else:
            j += 1
    return len(src)


OPEN = {"(": ")", "[": "]", "{": "}"}
CLOSE = {")", "]", "}"}


class Src:
    def __init__(self, path, text):
        self.path = path
        self.text = text
        self.toks = lex(text)
        # significant tokens (no ws/comments), as indices into toks
        self.sig = [k for k, t in enumerate(self.toks) if t[0] not in ("ws", "lc", "bc")]
        self.match = self._match_brackets()

    def tt(self, k):
        t = self.toks[k]
        return self.text[t[1]:t[2]]

    def _match_brackets(self):
        m, stack = {}, []
        for k in self.sig:
            t = self.toks[k]
            if t[0] != "p":
                continue
            c = self.text[t[1]]
            if c in OPEN:
                stack.append(k)
            elif c in CLOSE:
                if stack:
                    o = stack.pop()
                    m[o] = k
                    m[k] = o
        return m


class Item:
    def __init__(self, src, kind, name, first, last, kw, parent=None):
        self.src, self.kind, self.name = src, kind, name
        self.first, self.last, self.kw = first, last, kw  # token indices (first incl attrs)
        self.parent = parent
        self.children = []

    def text(self):
        s = self.src
        return s.text[s.toks[self.first][1]:s.toks[self.last][2]]

    def line(self):
        s = self.src
        return s.text.count("\n", 0, s.toks[self.kw][1]) + 1


ITEM_KW = {"fn", "struct", "enum", "impl", "const", "static", "mod", "trait", "use", "type",
           "macro_rules", "union", "extern"}
QUALS = {"pub", "unsafe", "async", "default", "const", "extern"}


def scan_items(src, lo_sig, hi_sig, parent=None):
    """Scan items among significant-token positions [lo_sig, hi_sig) of src.sig."""
    items = []
    p = lo_sig
    sig = src.sig
    while p < hi_sig:
        first = p
        # attributes
        while p < hi_sig and src.tt(sig[p]) == "#":
            q = p + 1
            if q < hi_sig and src.tt(sig[q]) == "!":
                q += 1
            if q < hi_sig and src.tt(sig[q]) == "[":
                close = src.match[sig[q]]
                p = sig.index(close, q) + 1
            else:
                break
        # qualifiers
        q = p
        while q < hi_sig:
            w = src.tt(sig[q])
            if w == "pub":
                q += 1
                if q < hi_sig and src.tt(sig[q]) == "(":
                    q = sig.index(src.match[sig[q]], q) + 1
                continue
            if w in ("unsafe", "async", "default"):
                q += 1
                continue
            if w == "extern" and q + 1 < hi_sig and src.toks[sig[q + 1]][0] == "str":
                q += 2
                continue
            if w == "const" and q + 1 < hi_sig and src.tt(sig[q + 1]) in ("fn", "unsafe", "async", "extern"):
                q += 1
                continue
            break
        if q >= hi_sig:
            break
        kw = src.tt(sig[q])
        if kw not in ITEM_KW:
            # not an item start (e.g. stray ';' or macro invocation): skip to next ';' or block
            p = _skip_stmt(src, q, hi_sig)
            continue
        kwpos = q
        if kw == "macro_rules":
            name = src.tt(sig[q + 2])
            r = q + 3
            close = src.match[sig[r]]
            end = sig.index(close, r)
            if end + 1 < hi_sig and src.tt(sig[end + 1]) == ";":
                end += 1
            it = Item(src, "macro", name, sig[first], sig[end], sig[kwpos], parent)
            items.append(it)
            p = end + 1
            continue
        if kw in ("fn", "struct", "enum", "union", "trait", "mod", "type", "const", "static"):
            name = src.tt(sig[q + 1])
            if kw in ("const", "static") and name == "mut":
                name = src.tt(sig[q + 2])
        elif kw == "impl":
            name = None
        else:
            name = None
        # find the end: first ';' or '{' at depth 0 (skipping (...) and [...] groups)
        r = q + 1
        end = None
        body_open = None
        while r < hi_sig:
            w = src.tt(sig[r])
            if w in ("(", "["):
                r = sig.index(src.match[sig[r]], r) + 1
                continue
            if w == ";":
                end = r
                break
            if w == "{":
                body_open = r
                end = sig.index(src.match[sig[r]], r)
                # `struct X {..}` ends here; `const X: T = Foo {..};` continues to ';'
                if kw in ("const", "static", "type", "use"):
                    r = end + 1
                    body_open = None
                    continue
                break
            if w == "=" and kw in ("const", "static", "type"):
                # skip initializer to ';'
                r += 1
                while r < hi_sig and src.tt(sig[r]) != ";":
                    if src.tt(sig[r]) in OPEN:
                        r = sig.index(src.match[sig[r]], r) + 1
                    else:
                        r += 1
                end = r
                break
            r += 1
        if end is None:
            break
        if kw == "impl":
            hdr = src.text[src.toks[sig[q + 1]][1]:src.toks[sig[body_open]][1]]
            name = norm_impl_header(hdr)
        it = Item(src, kw, name, sig[first], sig[end], sig[kwpos], parent)
        it.body_open = sig[body_open] if body_open is not None else None
        if kw == "impl":
            it.header_raw = " ".join(src.text[src.toks[sig[q + 1]][1]:src.toks[sig[body_open]][1]].split())
        if kw in ("impl", "mod", "trait") and body_open is not None:
            it.children = scan_items(src, body_open + 1, end, it)
        items.append(it)
        p = end + 1
    return items


def _skip_stmt(src, q, hi):
    sig = src.sig
    while q < hi:
        w = src.tt(sig[q])
        if w in OPEN:
            q = sig.index(src.match[sig[q]], q) + 1
            if w == "{":
                return q
            continue
        if w == ";":
            return q + 1
        q += 1
    return q


def norm_impl_header(h):
    h = " ".join(h.split())
    # drop leading generics
    if h.startswith("<"):
        d = 0
        for i, c in enumerate(h):
            if c == "<":
                d += 1
            elif c == ">" and not (i > 0 and h[i - 1] == "-"):
                d -= 1
                if d == 0:
                    h = h[i + 1:].strip()
                    break
    # drop where clause
    h = re.split(r"\bwhere\b", h)[0].strip()
    return h


_cache = {}


def load(path):
    if path not in _cache:
        with open(path) as f:
            text = f.read()
        s = Src(path, text)
        s.items = scan_items(s, 0, len(s.sig))
        _cache[path] = s
    return _cache[path]


def clear_cache():
    _cache.clear()


def find(path, spec):
    """spec: e.g. 'struct:Gas', 'impl:Gas fn:record_cost', 'fn:add', 'macro:gas',
    'mod:tests fn:x', 'const:VERYLOW'.  Optional '#k' suffix picks the k-th match."""
    s = load(path)
    parts = spec.split()
    which = 0
    if parts and parts[-1].startswith("#"):
        which = int(parts[-1][1:])
        parts = parts[:-1]
    cands = s.items
    found = []
    for depth, part in enumerate(parts):
        kind, _, name = part.partition(":")
        nxt = []
        for it in cands:
            if it.kind == kind and (it.name == name or (kind == "impl" and _impl_match(it.name, name))):
                nxt.append(it)
        if depth == len(parts) - 1:
            found = nxt
        else:
            cands = [c for it in nxt for c in it.children]
    if len(found) <= which:
        raise ExtractError(f"lost anchor: {path} :: {spec} not found")
    return found[which]


def _impl_match(header, want):
    return header.replace(" ", "") == want.replace(" ", "")


# ---------------------------------------------------------------- emission
DROP_ATTR = re.compile(
    r"^#\s*\[\s*(inline|cold|must_use|deprecated|doc|allow|track_caller|cfg_attr\s*\(\s*feature\s*=\s*\"(serde|std)\"|"
    r"cfg_attr\s*\(\s*not\s*\(\s*feature\s*=\s*\"std\"|rustfmt|clippy)")


class FnParts:
    """Token-level anatomy of a fn item."""

    def __init__(self, item):
        s = item.src
        sig = s.sig
        k = sig.index(item.kw)
        self.item = item
        self.fn_kw = k
        self.name_pos = k + 1
        r = k + 2
        # generics
        if s.tt(sig[r]) == "<":
            d = 0
            while True:
                w = s.tt(sig[r])
                if w == "<":
                    d += 1
                elif w == ">" and s.tt(sig[r - 1]) != "-":
                    d -= 1
                    if d == 0:
                        r += 1
                        break
                elif w in OPEN:
                    r = sig.index(s.match[sig[r]], r)
                r += 1
        assert s.tt(sig[r]) == "(", (item.name, s.tt(sig[r]))
        self.params_open = r
        self.params_close = sig.index(s.match[sig[r]], r)
        r = self.params_close + 1
        self.arrow = None
        self.ret_lo = self.ret_hi = None
        self.where = None
        body = sig.index(item.body_open) if item.body_open is not None else None
        end = body if body is not None else sig.index(item.last)
        if s.tt(sig[r]) == "-" and s.tt(sig[r + 1]) == ">":
            self.arrow = r
            self.ret_lo = r + 2
            q = r + 2
            while q < end and s.tt(sig[q]) != "where":
                if s.tt(sig[q]) in ("(", "["):
                    q = sig.index(s.match[sig[q]], q)
                q += 1
            self.ret_hi = q  # exclusive
            if q < end:
                self.where = q
        else:
            q = r
            while q < end and s.tt(sig[q]) != "where":
                q += 1
            if q < end:
                self.where = q
        self.body_open = body
        self.body_close = sig.index(item.last) if body is not None else None

    def loops(self):
        """(keyword sig-pos, body-open sig-pos) of each loop in the body, in source order."""
        s, sig = self.item.src, self.item.src.sig
        out = []
        r = self.body_open + 1
        while r < self.body_close:
            t = s.toks[sig[r]]
            w = s.tt(sig[r])
            if t[0] == "id" and w in ("while", "for", "loop"):
                if w == "for" and s.tt(sig[r + 1]) == "<":
                    r += 1
                    continue
                q = r + 1
                while q < self.body_close:
                    x = s.tt(sig[q])
                    if x in ("(", "["):
                        q = sig.index(s.match[sig[q]], q) + 1
                        continue
                    if x == "{":
                        break
                    q += 1
                out.append((r, q))
            r += 1
        return out


def fn_closures(fp):
    """Closures `|params| body` in the body of a fn, in source order, as (last sig-pos of the parameter list,
    first sig-pos of the body, last sig-pos of the body, body_is_block).  A `|` opens a closure when it stands
    where an expression starts (after `(` `,` `=` `{` `;` `move` `return`); or-patterns and binary `|` follow
    an operand and are not matched.  Used by the `//@closure k` directive only."""
    s, sig = fp.item.src, fp.item.src.sig
    out = []
    r = fp.body_open + 1
    while r < fp.body_close:
        if s.tt(sig[r]) == "|" and s.toks[sig[r]][0] == "p" and (
                s.tt(sig[r - 1]) in ("(", ",", "=", "{", ";", "move", "return") and s.tt(sig[r - 2]) + s.tt(sig[r - 1]) not in ("==", "!=", "<=", ">=")):
            if s.tt(sig[r + 1]) == "|" and s.toks[sig[r]][2] == s.toks[sig[r + 1]][1]:
                q = r + 1                      # `||`: no parameters
            else:
                q = r + 1
                while q < fp.body_close and s.tt(sig[q]) != "|":
                    if s.tt(sig[q]) in OPEN:
                        q = sig.index(s.match[sig[q]], q)
                    q += 1
            lo = q + 1
            if s.tt(sig[lo]) == "-" and s.tt(sig[lo + 1]) == ">":
                r = lo                          # already typed `-> T { .. }`: not annotatable, skip
                continue
            if s.tt(sig[lo]) == "{":
                hi = sig.index(s.match[sig[lo]], lo)
                out.append((q, lo, hi, True))
            else:
                hi = lo
                while hi < fp.body_close:
                    w = s.tt(sig[hi])
                    if w in OPEN:
                        hi = sig.index(s.match[sig[hi]], hi)
                    elif w in (",", ";") or w in CLOSE:
                        break
                    hi += 1
                out.append((q, lo, hi - 1, False))
            r = lo                              # nested closures inside the body are found too
            continue
        r += 1
    return out


def sha(text):
    return hashlib.sha256(text.encode()).hexdigest()


def emit_item(item, opts, drops):
    """Return emitted text for `item` with transformations per opts (dict).

    opts keys: ret, clauses (text placed before body), loops {k: text}, hints [(anchor, occurrence, text)],
    body_first (text), attrs (list of text), keep_pub, subst [(a,b)], rename, drop_derive, probe,
    sig_only (emit signature + clauses + ';').
    Recorded in `drops` (list of strings).
    """
    s = item.src
    sig = s.sig
    a = sig.index(item.first)
    b = sig.index(item.last)
    ins_before = {}  # tok index -> text
    ins_after = {}
    skip = set()  # token indices to drop
    replace = {}

    def add_before(k, text):
        ins_before[k] = ins_before.get(k, "") + text

    def add_after(k, text):
        ins_after[k] = text + ins_after.get(k, "")

    # 1. attributes and doc comments
    p = a
    while p <= b and s.tt(sig[p]) == "#":
        q = p + 1
        close = sig.index(s.match[sig[q]], q)
        atext = s.text[s.toks[sig[p]][1]:s.toks[sig[close]][2]]
        if DROP_ATTR.match(atext) or (opts.get("drop_derive") and re.match(r"#\s*\[\s*derive", atext)):
            for k in range(sig[p], sig[close] + 1):
                skip.add(k)
            drops.append(f"attr {' '.join(atext.split())[:60]}")
        p = close + 1
    for k in range(item.first, item.last + 1):
        t = s.toks[k]
        if t[0] == "lc" and (s.text.startswith("///", t[1]) or s.text.startswith("//!", t[1])):
            skip.add(k)
    # nested attrs (on fields / inner fns): only the serde ones
    for p in range(a, b + 1):
        if s.tt(sig[p]) == "#" and s.tt(sig[p + 1]) == "[":
            close = sig.index(s.match[sig[p + 1]], p + 1)
            atext = s.text[s.toks[sig[p]][1]:s.toks[sig[close]][2]]
            if DROP_ATTR.match(atext):
                for k in range(sig[p], sig[close] + 1):
                    skip.add(k)
    # 2. visibility
    if not opts.get("keep_pub"):
        p = a
        n_pub = 0
        while p <= b:
            if s.tt(sig[p]) == "pub" and s.toks[sig[p]][0] == "id":
                skip.add(sig[p])
                n_pub += 1
                if s.tt(sig[p + 1]) == "(" and s.tt(sig[p + 2]) in ("crate", "super", "in", "self"):
                    close = sig.index(s.match[sig[p + 1]], p + 1)
                    for k in range(sig[p + 1], sig[close] + 1):
                        skip.add(k)
                    p = close
            p += 1
        if n_pub:
            drops.append(f"visibility x{n_pub}")
    lost_hints = []
    if item.kind == "fn":
        fp = FnParts(item)
        if opts.get("attr_spec"):
            add_before(item.first, opts["attr_spec"])
        if opts.get("drop_const"):
            # `const fn` is not allowed for trait methods (extension-trait emission): drop the qualifier
            for p in range(a, fp.fn_kw):
                if s.tt(sig[p]) == "const" and s.toks[sig[p]][0] == "id":
                    skip.add(sig[p])
                    if "const qualifier (trait methods cannot be const fn)" not in drops:
                        drops.append("const qualifier (trait methods cannot be const fn)")
        if opts.get("rename"):
            replace[sig[fp.name_pos]] = opts["rename"]
        if opts.get("ret") and fp.arrow is not None:
            add_before(sig[fp.ret_lo], "(" + opts["ret"] + ": ")
            add_after(sig[fp.ret_hi - 1], ")")
        if opts.get("sig_only"):
            # keep up to (not including) body, add clauses and ';'
            for k in range(sig[fp.body_open], sig[fp.body_close] + 1):
                skip.add(k)
            # `mut x: T` binding patterns are not allowed in a bodiless (trait) declaration: drop the `mut`
            # of by-value parameters there (the impl method below keeps the verbatim signature)
            for p in range(fp.params_open + 1, fp.params_close):
                if s.tt(sig[p]) == "mut" and s.tt(sig[p - 1]) in ("(", ",") and s.tt(sig[p + 1]) != "self":
                    skip.add(sig[p])
            # appended AFTER what is already attached to that token (the ')' closing a named return)
            ins_after[sig[fp.body_open - 1]] = ins_after.get(sig[fp.body_open - 1], "") + "\n" + (opts.get("clauses") or "") + ";"
        else:
            if opts.get("clauses") and fp.body_open is not None:
                add_before(sig[fp.body_open], "\n" + opts["clauses"] + "\n")
            if opts.get("no_clauses_body") and fp.body_open is not None:
                pass
            loops = fp.loops()
            for k, text in (opts.get("loops") or {}).items():
                if k >= len(loops):
                    raise ExtractError(f"lost anchor: loop #{k} of {item.name} in {s.path}")
                add_before(sig[loops[k][1]], "\n" + text + "\n")
            for k, name in (opts.get("loopvars") or {}).items():
                # ghost iterator name of a `for` loop: `for x in EXPR` -> `for x in <name>: EXPR` (Verus syntax, ghost)
                q = next((q for q in range(loops[k][0] + 1, loops[k][1]) if s.tt(sig[q]) == "in"), None)
                if k >= len(loops) or s.tt(sig[loops[k][0]]) != "for" or q is None:
                    raise ExtractError(f"lost anchor: for-loop #{k} of {item.name} in {s.path}")
                add_after(sig[q], f" {name}:")
                drops.append(f"for-loop #{k}: ghost iterator named `{name}`")
            if opts.get("closures"):
                # //@closure k <ret>: <Type>  + clause text: the k-th closure `|p| body` becomes
                # `|p| -> (<ret>: <Type>) <clauses> { body }` (Verus' only form for a closure with a contract; the
                # parameter list and the body expression stay verbatim, the clauses are ghost)
                cls = fn_closures(fp)
                for k, (rdecl, text) in opts["closures"].items():
                    if k >= len(cls):
                        raise ExtractError(f"lost anchor: closure #{k} of {item.name} in {s.path}")
                    pend, lo, hi, is_block = cls[k]
                    add_after(sig[pend], f" -> ({rdecl})\n" + text.rstrip("\n") + "\n" + ("" if is_block else "{ "))
                    if not is_block:
                        add_after(sig[hi], " }")
                    drops.append(f"closure #{k} given a named return type and a ghost contract (body verbatim)")
            bf = ""
            if opts.get("probe"):
                bf += " proof!{ assert(false); } " if opts.get("plain") else " proof { assert(false); } "
            if opts.get("body_first"):
                bf += "\n" + opts["body_first"] + "\n"
            if bf:
                add_after(sig[fp.body_open], bf)
            # hints: insert before the line containing the anchor (within body)
            body_lo = s.toks[sig[fp.body_open]][2]
            body_hi = s.toks[sig[fp.body_close]][1]
            # Hints of one function may depend on each other (ghost variables): if ANY anchor is lost, ALL
            # hints of the function are dropped (the proof is then attempted without them) instead of
            # emitting text that no longer compiles.
            hint_list = list(opts.get("hints") or [])
            for (anchor, occ, text, where) in hint_list:
                pos = body_lo - 1
                for _ in range(occ + 1):
                    pos = s.text.find(anchor, pos + 1, body_hi)
                    if pos < 0:
                        lost_hints.append(anchor)
                        break
            if lost_hints:
                hint_list = []
                if opts.get("body_first_is_hint"):
                    pass
            for (anchor, occ, text, where) in hint_list:
                pos = body_lo - 1
                for _ in range(occ + 1):
                    pos = s.text.find(anchor, pos + 1, body_hi)
                if where == "before":
                    ls = s.text.rfind("\n", 0, pos) + 1
                    tk = next(k for k in range(item.first, item.last + 1) if s.toks[k][2] > ls and s.toks[k][0] != "ws")
                    add_before(tk, text + "\n")
                else:  # after: end of the line containing the end of the statement (next ';' at same depth)
                    le = s.text.find("\n", pos)
                    tk = max(k for k in range(item.first, item.last + 1) if s.toks[k][1] < le and s.toks[k][0] != "ws")
                    add_after(tk, "\n" + text + "\n")
    elif item.kind in ("const", "static") and (opts.get("clauses") or opts.get("body_first")):
        # `const N: T = <expr>;` with a contract  ->  `exec const N: T <clauses> { <ghost first> <expr> }`
        # (Verus' only form for a const with an `ensures`; the initializer expression stays verbatim)
        eqp = next((p for p in range(a, b + 1) if s.tt(sig[p]) == "="), None)
        kwp = next((p for p in range(a, b + 1) if s.tt(sig[p]) == item.kind and s.toks[sig[p]][0] == "id"), None)
        if eqp is not None and kwp is not None and s.tt(sig[b]) == ";":
            add_before(sig[kwp], "exec ")
            replace[sig[eqp]] = "\n" + (opts.get("clauses") or "") + "\n{\n" + ((opts["body_first"] + "\n") if opts.get("body_first") else "")
            replace[sig[b]] = "\n}"
            drops.append("const re-bracketed as `exec const N: T <contract> { <initializer> }` (initializer verbatim)")
    if item.kind == "fn" and opts.get("tail_continue"):
        _tail_continue(item, skip, add_after, add_before, drops)
    out = []
    for k in range(item.first, item.last + 1):
        if k in ins_before:
            out.append(ins_before[k])
        if k not in skip:
            out.append(replace.get(k, s.text[s.toks[k][1]:s.toks[k][2]]))
        if k in ins_after:
            out.append(ins_after[k])
    text = "".join(out)
    for (x, y) in opts.get("subst") or []:
        if x in text:
            text = text.replace(x, y)
            drops.append(f"path-subst {x!r}->{y!r}")
    # tidy blank lines left by dropped doc comments
    text = re.sub(r"\n[ \t]*\n([ \t]*\n)+", "\n\n", text)
    return text, lost_hints


def _tail_continue(item, skip, add_after, add_before, drops):
    """`if C { continue; } REST` at the start/middle of a match-arm block, where the `match` is the ONLY
    statement of the enclosing loop body, is rewritten to `if C { } else { REST }` (Verus does not support
    `continue` in for-loops).  Purely syntactic conditions are checked; anything else is a lost anchor."""
    s = item.src
    sig = s.sig
    a, b = sig.index(item.first), sig.index(item.last)
    n = 0
    p = a
    while p + 3 <= b:
        if not (s.tt(sig[p]) == "{" and s.tt(sig[p + 1]) == "continue" and s.tt(sig[p + 2]) == ";" and s.tt(sig[p + 3]) == "}"):
            p += 1
            continue
        if_close = p + 3
        # (a) the `if` has no else
        if s.tt(sig[if_close + 1]) == "else":
            raise ExtractError("tail_continue: `if {continue;}` already has an else branch")
        # find the `if` keyword: scan back to the nearest `if` at the same depth whose block is this one
        q = p - 1
        depth = 0
        while q > a:
            w = s.tt(sig[q])
            if w in (")", "]", "}"):
                q = sig.index(s.match[sig[q]], 0, q)
            elif w == "if":
                break
            elif w in ("{", ";"):
                raise ExtractError("tail_continue: cannot find the `if` of a `{ continue; }` block")
            q -= 1
        if_kw = q
        # enclosing block B of the `if`
        blk_open = None
        r = if_kw - 1
        while r > a:
            w = s.tt(sig[r])
            if w in (")", "]", "}"):
                r = sig.index(s.match[sig[r]], 0, r)
            elif w == "{":
                blk_open = r
                break
            r -= 1
        if blk_open is None:
            raise ExtractError("tail_continue: no enclosing block")
        blk_close = sig.index(s.match[sig[blk_open]], blk_open)
        # (b) B is a match-arm block:  `=> {`
        if not (s.tt(sig[blk_open - 1]) == ">" and s.tt(sig[blk_open - 2]) == "="):
            raise ExtractError("tail_continue: `if {continue;}` is not directly inside a match-arm block")
        # the match body block M encloses B; the loop body L encloses M and holds nothing else
        r = blk_open - 1
        m_open = None
        while r > a:
            w = s.tt(sig[r])
            if w in (")", "]", "}"):
                r = sig.index(s.match[sig[r]], 0, r)
            elif w == "{":
                m_open = r
                break
            r -= 1
        m_close = sig.index(s.match[sig[m_open]], m_open)
        r = m_open - 1
        l_open = None
        while r > a:
            w = s.tt(sig[r])
            if w in (")", "]", "}"):
                r = sig.index(s.match[sig[r]], 0, r)
            elif w == "{":
                l_open = r
                break
            r -= 1
        if l_open is None or s.tt(sig[l_open + 1]) != "match" or s.tt(sig[m_close + 1]) != "}":
            raise ExtractError("tail_continue: the match is not the only statement of the loop body")
        skip.add(sig[p + 1])
        skip.add(sig[p + 2])
        add_after(sig[if_close], " else {")
        add_before(sig[blk_close], "} ")
        n += 1
        p = if_close + 1
    if n == 0:
        raise ExtractError("tail_continue: no `if .. { continue; }` found")
    drops.append(f"tail-continue desugaring x{n}: `if C {{ continue; }} REST` -> `if C {{ }} else {{ REST }}` (match is the only statement of the loop body)")


def stmt_range(item, frm, after, to):
    """A contiguous range of WHOLE LINES of the body of fn `item`, chosen by anchor texts:
       start = the first body line containing `frm` (inclusive)  |  the line after the first body line containing `after`;
       end   = the last line before the first later line containing `to` (exclusive).
    The range must be brace-balanced on the token level (whole statements).  Doc comments are kept (they are comments).
    Returns (text, first_line_no, last_line_no).  A missing anchor or an unbalanced range is a lost anchor."""
    s = item.src
    fp = FnParts(item)
    if fp.body_open is None:
        raise ExtractError(f"lost anchor: {item.name} in {s.path} has no body")
    lo = s.toks[s.sig[fp.body_open]][2]
    hi = s.toks[s.sig[fp.body_close]][1]

    def line_start(pos):
        return s.text.rfind("\n", 0, pos) + 1

    def line_end(pos):
        e = s.text.find("\n", pos)
        return len(s.text) if e < 0 else e + 1
    if frm:
        a = s.text.find(frm, lo, hi)
        if a < 0:
            raise ExtractError(f"lost anchor: statement range start {frm!r} of {item.name} in {s.path}")
        start = line_start(a)
    else:
        a = s.text.find(after, lo, hi)
        if a < 0:
            raise ExtractError(f"lost anchor: statement range start (after) {after!r} of {item.name} in {s.path}")
        start = line_end(a)
    b = s.text.find(to, start, hi)
    if b < 0:
        raise ExtractError(f"lost anchor: statement range end {to!r} of {item.name} in {s.path}")
    end = line_start(b)
    if end <= start:
        raise ExtractError(f"lost anchor: empty statement range in {item.name} in {s.path}")
    # whole statements only: every bracket opened in the range is closed in it and vice versa
    depth = 0
    for k in range(item.first, item.last + 1):
        ty, ts, te = s.toks[k][0], s.toks[k][1], s.toks[k][2]
        if ts < start or te > end or ty in ("ws", "lc", "bc", "str", "chr"):
            continue
        w = s.text[ts:te]
        if w in ("{", "(", "["):
            depth += 1
        elif w in ("}", ")", "]"):
            depth -= 1
            if depth < 0:
                raise ExtractError(f"lost anchor: statement range of {item.name} in {s.path} is not brace-balanced")
    if depth != 0:
        raise ExtractError(f"lost anchor: statement range of {item.name} in {s.path} is not brace-balanced")
    la = s.text.count("\n", 0, start) + 1
    lb = s.text.count("\n", 0, end)
    return s.text[start:end], la, lb


def fn_signature_text(item, opts):
    """signature (fn kw .. before body/where kept) for trait declarations"""
    d = []
    o = dict(opts)
    o["sig_only"] = True
    return emit_item(item, o, d)[0]
