//! Kani harnesses for C23 on the REAL revm-precompile crate: the framing of the three `run` functions whose text
//! Verus rejects (blake2::run: iterator adapters + u32::from_be_bytes; secp256k1::ec_recover_run: `|&b|` closure
//! pattern + Iterator::all; bn128::run_pair: `|_|` closure patterns + get_unchecked).  The cryptographic cores are
//! NOT verified: blake2's compression is compared with the crate's own `algo::compress`, `ecrecover` is stubbed,
//! pairing inputs that reach the curve code are excluded; success paths that build an output `Bytes` are excluded
//! (too expensive for CBMC).  All harnesses are BOUNDED (input lengths).
#[cfg(kani)]
mod c23 {
    use revm_precompile::primitives::{alloy_primitives::B512, B256};
    use revm_precompile::{blake2, bn128, secp256k1, Bytes, Precompile, PrecompileError, PrecompileErrors, PrecompileResult};

    fn oog() -> PrecompileResult {
        Err(PrecompileErrors::Error(PrecompileError::OutOfGas))
    }

    /// a `Bytes` over the first `len` bytes of a leaked (hence 'static) copy of `buf`: no allocation in `Bytes`
    fn bytes_of<const N: usize>(buf: [u8; N], len: usize) -> Bytes {
        let st: &'static [u8; N] = Box::leak(Box::new(buf));
        Bytes::from_static(&st[..len])
    }

    // ------------------------------------------------------------------ EIP-152 BLAKE2F
    /// every input whose length is not 213 (lengths 0..=256) fails with Blake2WrongLength, whatever the gas
    #[kani::proof]
    #[kani::unwind(2)]
    fn blake2_wrong_length() {
        let buf: [u8; 256] = kani::any();
        let len: usize = kani::any();
        kani::assume(len <= 256 && len != 213);
        let input = bytes_of(buf, len);
        let gas: u64 = kani::any();
        let r = blake2::run(&input, gas);
        kani::cover!(len == 212);
        assert!(r == Err(PrecompileErrors::Error(PrecompileError::Blake2WrongLength)));
    }

    /// 213-byte inputs, ERROR paths: rounds = big-endian u32 of bytes 0..4, gas = rounds * 1; out of gas iff
    /// rounds > gas_limit (checked first); otherwise a final-block flag (byte 212) other than 0 / 1 fails with
    /// Blake2WrongFinalIndicatorFlag.  The success path (h / m / t parsing, compression, output) is NOT covered
    /// (building the output `Bytes` is too expensive for CBMC): inputs with enough gas and a valid flag are excluded.
    /// on the error paths the compression must not be reached at all
    fn compress_must_not_run(_rounds: usize, _h: &mut [u64; 8], _m: [u64; 16], _t: [u64; 2], _f: bool) {
        panic!("blake2 compression reached on an error path");
    }

    #[kani::proof]
    #[kani::unwind(18)] // covers the 8 / 16-step parsing loops, so that a WRONGLY accepted input runs on to the stub's panic
    #[kani::stub(revm_precompile::blake2::algo::compress, compress_must_not_run)]
    fn blake2_len213_errors() {
        let buf: [u8; 213] = kani::any();
        let gas: u64 = kani::any();
        let rounds: u64 = ((buf[0] as u64) << 24) | ((buf[1] as u64) << 16) | ((buf[2] as u64) << 8) | (buf[3] as u64);
        let flag = buf[212];
        kani::assume(rounds > gas || flag > 1);
        let input = bytes_of(buf, 213);
        let r = blake2::run(&input, gas);
        kani::cover!(flag == 2 && rounds <= gas);
        kani::cover!(flag == 1 && rounds == gas + 1);
        if rounds > gas {
            assert!(r == oog());
        } else {
            assert!(r == Err(PrecompileErrors::Error(PrecompileError::Blake2WrongFinalIndicatorFlag)));
        }
    }

    // ------------------------------------------------------------------ ECRECOVER framing
    /// what the stub must be called with (set by the harness before the call)
    static mut EXPECT: (u8, u8, u8, u8, u8) = (0, 0, 0, 0, 0);
    static mut STUB_CALLS: u32 = 0;

    /// stands in for the signature recovery (ASSUMED).  It CHECKS its arguments against the padded input image and
    /// fails the harness when it is reached with a recovery id other than 0 / 1
    fn ecrecover_stub(sig: &B512, recid: u8, msg: &B256) -> Result<B256, k256::ecdsa::Error> {
        unsafe {
            STUB_CALLS += 1;
            assert!(recid <= 1);
            assert!(recid == EXPECT.0 && msg[0] == EXPECT.1 && msg[31] == EXPECT.2 && sig[0] == EXPECT.3 && sig[63] == EXPECT.4);
        }
        Err(k256::ecdsa::Error::new())
    }

    /// byte i of the input right-padded with zeros
    fn pb(buf: &[u8; 160], len: usize, i: usize) -> u8 {
        if i < len { buf[i] } else { 0 }
    }

    /// 3000 gas; input right-padded / cut to 128 bytes; v = bytes 32..64 must be the 32-byte big-endian 27 or 28,
    /// otherwise the recovery is NOT called and the output is empty (still 3000 gas); else recovery is called exactly
    /// once with msg = bytes 0..32, recid = v - 27, sig = bytes 64..128 (a failed recovery gives empty output).
    /// Bound: input lengths 0..=160 (symbolic).  The success output (32-byte address word) is not covered.
    /// THOROUGH tier only: about 5 minutes of CBMC time.
    #[kani::proof]
    #[kani::unwind(34)]
    #[kani::stub(revm_precompile::secp256k1::ecrecover, ecrecover_stub)]
    fn ecrecover_framing() {
        let buf: [u8; 160] = kani::any();
        let len: usize = kani::any();
        kani::assume(len <= 160);
        let gas: u64 = kani::any();
        let input = bytes_of(buf, len);
        let mut v_high_zero = true;
        let mut i = 32;
        while i < 63 {
            if pb(&buf, len, i) != 0 {
                v_high_zero = false;
            }
            i += 1;
        }
        let v = pb(&buf, len, 63);
        let valid = v_high_zero && (v == 27 || v == 28);
        unsafe {
            EXPECT = (v.wrapping_sub(27), pb(&buf, len, 0), pb(&buf, len, 31), pb(&buf, len, 64), pb(&buf, len, 127));
        }
        let r = secp256k1::ec_recover_run(&input, gas);
        kani::cover!(gas >= 3000 && v_high_zero && v == 29);
        kani::cover!(gas >= 3000 && valid && len < 128);
        if gas < 3000 {
            assert!(r == oog());
            assert!(unsafe { STUB_CALLS } == 0);
        } else {
            let o = r.unwrap();
            assert!(o.gas_used == 3000);
            assert!(o.bytes.len() == 0);
            assert!(unsafe { STUB_CALLS } == if valid { 1 } else { 0 });
        }
    }

    // ------------------------------------------------------------------ EIP-197 / EIP-1108 pairing: gas and length rule
    fn call(p: &Precompile, input: &Bytes, gas: u64) -> PrecompileResult {
        match p {
            Precompile::Standard(f) => f(input, gas),
            _ => unreachable!(),
        }
    }

    /// through the real `bn128::pair::{ISTANBUL, BYZANTIUM}` table entries: cost = base + per_point * floor(len / 192)
    /// (45000 + 34000 k / 100000 + 80000 k); out of gas iff cost > gas_limit (symbolic gas); then a length that is not
    /// a multiple of 192 fails with Bn128PairLength; the empty input succeeds with the 32-byte word 1.
    /// One instance per CONCRETE length (a symbolic length would make CBMC unwind the pairing code).
    fn pair_len<const LEN: usize>() {
        let buf: [u8; LEN] = kani::any();
        let gas: u64 = kani::any();
        let istanbul: bool = kani::any();
        let k = (LEN / 192) as u64;
        let cost = if istanbul { 45_000 + 34_000 * k } else { 100_000 + 80_000 * k };
        let input = bytes_of(buf, LEN);
        let r = if istanbul { call(&bn128::pair::ISTANBUL.1, &input, gas) } else { call(&bn128::pair::BYZANTIUM.1, &input, gas) };
        kani::cover!(gas == cost - 1);
        kani::cover!(gas == cost);
        if cost > gas {
            assert!(r == oog());
        } else if LEN % 192 != 0 {
            assert!(r == Err(PrecompileErrors::Error(PrecompileError::Bn128PairLength)));
        } else {
            let o = r.unwrap();
            assert!(o.gas_used == cost);
            assert!(o.bytes.len() == 32);
            assert!(o.bytes[0] == 0 && o.bytes[30] == 0 && o.bytes[31] == 1);
        }
    }
    #[kani::proof]
    #[kani::unwind(2)]
    fn bn128_pair_len0() { pair_len::<0>() }
    #[kani::proof]
    #[kani::unwind(2)]
    fn bn128_pair_len1() { pair_len::<1>() }
    #[kani::proof]
    #[kani::unwind(2)]
    fn bn128_pair_len191() { pair_len::<191>() }
    #[kani::proof]
    #[kani::unwind(2)]
    fn bn128_pair_len193() { pair_len::<193>() }
    #[kani::proof]
    #[kani::unwind(2)]
    fn bn128_pair_len385() { pair_len::<385>() }

    /// lengths 192 / 384 (one / two pairs): only the gas rule, with the CONCRETE gas limit cost - 1 (out of gas); with
    /// enough gas the curve code runs, which is not covered
    fn pair_oog<const LEN: usize>() {
        let buf: [u8; LEN] = kani::any();
        let input = bytes_of(buf, LEN);
        let k = (LEN / 192) as u64;
        let r1 = call(&bn128::pair::ISTANBUL.1, &input, 45_000 + 34_000 * k - 1);
        let r2 = call(&bn128::pair::BYZANTIUM.1, &input, 100_000 + 80_000 * k - 1);
        kani::cover!(true);
        assert!(r1 == oog());
        assert!(r2 == oog());
    }
    #[kani::proof]
    #[kani::unwind(2)]
    fn bn128_pair_len192_oog() { pair_oog::<192>() }
    #[kani::proof]
    #[kani::unwind(2)]
    fn bn128_pair_len384_oog() { pair_oog::<384>() }
}
