//! C14 (bounded stand-in): the two functions of gas/calc.rs that Verus cannot take verbatim
//! (`Filter::count` / `Map::sum` iterator adapters): `get_tokens_in_calldata` and
//! `calculate_initial_tx_gas`, on the real crate.
//!
//! BOUNDED, never counted as proved: calldata of CONCRETE length 0..=4 with symbolic contents,
//! access lists of concrete shape (<= 2 items x <= 2 storage keys; contents irrelevant, zero),
//! SpecId in {FRONTIER, HOMESTEAD, ISTANBUL, BERLIN, SHANGHAI, PRAGUE} (one per pricing bracket of the
//! formula), both `is_create`, `authorization_list_num` symbolic u64 with the overflow of the sum excluded.
//!
//! Oracle: the intrinsic-gas formula written from the EIPs with LITERAL numbers (never the constants
//! of gas/constants.rs): 21000 base; EIP-2: +32000 for contract creation from Homestead; calldata
//! 4 gas per zero byte, 68 per non-zero byte, EIP-2028 (Istanbul): 16 per non-zero byte; EIP-2930
//! (Berlin): 2400 per access-list address + 1900 per storage key; EIP-3860 (Shanghai): 2 gas per 32-byte
//! word of initcode; EIP-7702 (Prague): 25000 per authorization; EIP-7623 (Prague): floor
//! 21000 + 10 * tokens, tokens = zero bytes + 4 * non-zero bytes.
use revm_interpreter::gas::{calculate_initial_tx_gas, get_tokens_in_calldata};
use revm_interpreter::primitives::{AccessListItem, Address, SpecId, B256};

/// fork brackets named by the harness itself (independent of the repository's SpecId ordering)
#[derive(Clone, Copy)]
struct Fork {
    id: SpecId,
    homestead: bool,
    istanbul: bool,
    berlin: bool,
    shanghai: bool,
    prague: bool,
}

fn any_fork() -> Fork {
    let k: u8 = kani::any();
    kani::assume(k < 6);
    let f = |id, n: u8| Fork { id, homestead: n >= 1, istanbul: n >= 2, berlin: n >= 3, shanghai: n >= 4, prague: n >= 5 };
    match k {
        0 => f(SpecId::FRONTIER, 0),
        1 => f(SpecId::HOMESTEAD, 1),
        2 => f(SpecId::ISTANBUL, 2),
        3 => f(SpecId::BERLIN, 3),
        4 => f(SpecId::SHANGHAI, 4),
        _ => f(SpecId::PRAGUE, 5),
    }
}

/// (zero bytes, non-zero bytes) counted with a plain constant loop
fn count<const N: usize>(input: &[u8; N]) -> (u128, u128) {
    let mut z = 0u128;
    let mut i = 0;
    while i < N {
        if input[i] == 0 { z += 1; }
        i += 1;
    }
    (z, N as u128 - z)
}

/// EIP-2 / 2028 / 2930 / 3860 / 7702 intrinsic gas and EIP-7623 floor, in u128 (no overflow possible here)
fn oracle<const N: usize>(fk: Fork, input: &[u8; N], is_create: bool, addrs: u128, keys: u128, auths: u128) -> (u128, u128) {
    let (z, nz) = count(input);
    let mut g: u128 = 21000;
    g += 4 * z + (if fk.istanbul { 16 } else { 68 }) * nz;
    if fk.berlin { g += 2400 * addrs + 1900 * keys; }
    if is_create && fk.homestead { g += 32000; }
    if is_create && fk.shanghai { g += 2 * ((N as u128 + 31) / 32); }
    let mut floor = 0;
    if fk.prague {
        g += 25000 * auths;
        floor = 21000 + 10 * (z + 4 * nz);
    }
    (g, floor)
}

fn access_list(shape: &[usize]) -> Vec<AccessListItem> {
    let mut v = Vec::new();
    let mut i = 0;
    while i < shape.len() {
        let mut keys = Vec::new();
        let mut j = 0;
        while j < shape[i] { keys.push(B256::ZERO); j += 1; }
        v.push(AccessListItem { address: Address::ZERO, storage_keys: keys });
        i += 1;
    }
    v
}

/// largest authorization count for which the u64 sum cannot overflow (everything else is < 2^32)
const MAX_AUTH: u64 = (u64::MAX - (1 << 32)) / 25000;

fn check_tokens<const N: usize>() {
    let input: [u8; N] = kani::any();
    let ist: bool = kani::any();
    let (z, nz) = count(&input);
    let r = get_tokens_in_calldata(&input, ist);
    kani::cover!(N == 0 || input[0] != 0);
    // EIP-2028: a non-zero byte is 16/4 = 4 tokens from Istanbul, 68/4 = 17 before
    assert!(r as u128 == z + nz * (if ist { 4 } else { 17 }));
}

fn check_initial<const N: usize>(shape: &[usize]) {
    let input: [u8; N] = kani::any();
    let fk = any_fork();
    let is_create: bool = kani::any();
    let auths: u64 = kani::any();
    kani::assume(auths <= MAX_AUTH);
    let al = access_list(shape);
    let mut keys = 0u128;
    let mut i = 0;
    while i < shape.len() { keys += shape[i] as u128; i += 1; }
    let r = calculate_initial_tx_gas(fk.id, &input, is_create, &al, auths);
    let (g, floor) = oracle(fk, &input, is_create, shape.len() as u128, keys, auths as u128);
    kani::cover!(fk.prague && is_create && auths == 2);
    assert!(r.initial_gas as u128 == g);
    assert!(r.floor_gas as u128 == floor);
}

macro_rules! tokens_h { ($($name:ident $n:literal),*) => { $(
    #[kani::proof]
    #[kani::unwind(6)]
    fn $name() { check_tokens::<$n>(); }
)* } }
tokens_h!(c14_tokens_len0 0, c14_tokens_len1 1, c14_tokens_len2 2, c14_tokens_len3 3, c14_tokens_len4 4);

macro_rules! initial_h { ($($name:ident $n:literal $shape:expr),*) => { $(
    #[kani::proof]
    #[kani::unwind(6)]
    fn $name() { check_initial::<$n>(&$shape); }
)* } }
// calldata length x access-list shape (storage keys per item): the full 5 x 5 grid
initial_h!(
    c14_initial_len0_al_none 0 [0usize; 0],
    c14_initial_len0_al_0 0 [0usize],
    c14_initial_len0_al_2 0 [2usize],
    c14_initial_len0_al_1_2 0 [1usize, 2],
    c14_initial_len0_al_2_2 0 [2usize, 2],
    c14_initial_len1_al_none 1 [0usize; 0],
    c14_initial_len1_al_0 1 [0usize],
    c14_initial_len1_al_2 1 [2usize],
    c14_initial_len1_al_1_2 1 [1usize, 2],
    c14_initial_len1_al_2_2 1 [2usize, 2],
    c14_initial_len2_al_none 2 [0usize; 0],
    c14_initial_len2_al_0 2 [0usize],
    c14_initial_len2_al_2 2 [2usize],
    c14_initial_len2_al_1_2 2 [1usize, 2],
    c14_initial_len2_al_2_2 2 [2usize, 2],
    c14_initial_len3_al_none 3 [0usize; 0],
    c14_initial_len3_al_0 3 [0usize],
    c14_initial_len3_al_2 3 [2usize],
    c14_initial_len3_al_1_2 3 [1usize, 2],
    c14_initial_len3_al_2_2 3 [2usize, 2],
    c14_initial_len4_al_none 4 [0usize; 0],
    c14_initial_len4_al_0 4 [0usize],
    c14_initial_len4_al_2 4 [2usize],
    c14_initial_len4_al_1_2 4 [1usize, 2],
    c14_initial_len4_al_2_2 4 [2usize, 2]
);
