//! Kani harnesses on the real `revm-interpreter` crate (path dependency on /repo).
#![allow(unused)]
#[cfg(kani)]
mod c12;
#[cfg(kani)]
mod c05;
#[cfg(kani)]
mod c14;
#[cfg(kani)]
mod c04;
