//! C04 (Part K, BOUNDED): construction of the jump table -- `analysis::to_analysed` (public) and, through
//! it, the private raw-pointer loop `analysis::analyze`, on the real crate; the table is observed through
//! the public `JumpTable::is_valid` (the observer the property names, and the function whose result the
//! Verus unit `jump` calls `jt_valid`).
//!
//! BOUNDED, never counted as proved.  Family 1: ALL byte strings of a concrete length -- affordable for L = 0
//! only (see below).  Family 2: code SHAPES with concrete opcode positions and ALL immediate-data bytes
//! symbolic (JUMPDEST / PUSHn bytes hidden in push data; PUSH1, PUSH2, PUSH31, PUSH32 truncated by the end of
//! the code -- PUSH32 as the last byte runs 32 bytes into the 33-byte padding).
//!
//! Checked for the value `to_analysed(Bytecode::new_legacy(code))`:
//!   * it is `LegacyAnalyzed`; `original_len == L`; `bytecode.len() == L + 33`; `bytecode[..L] == code`;
//!     the 33 padding bytes are zero;
//!   * the jump table has `L + 33` bits;
//!   * `table_ok`: for EVERY t in 0..=L+33 (L+33 = first position past the table), for usize::MAX and for
//!     one symbolic t >= L+33:   jump_table.is_valid(t)  <=>  valid_dest(code, t)
//!     -- in particular no position in the padding and no position inside push data is ever marked;
//!   * no panic / out-of-bounds access / pointer arithmetic overflow in analyze (CBMC's pointer checks).
//!
//! Oracle `valid_dest`: Yellow Paper 9.4.3 D(c), written independently as a walk over instruction starts
//! with literal opcode numbers (JUMPDEST = 0x5b, PUSH1..PUSH32 = 0x60..0x7f, PUSHn carries n = op - 0x5f
//! bytes of immediate data).
use revm_interpreter::analysis::to_analysed;
use revm_interpreter::primitives::{Bytecode, Bytes};

/// t is an instruction start of `code` holding 0x5b  (walk from position 0; at most L steps)
fn valid_dest<const L: usize>(code: &[u8; L], t: usize) -> bool {
    let mut p: usize = 0;
    while p < L {
        if p == t {
            return code[p] == 0x5b;
        }
        let op = code[p];
        let imm: usize = if 0x60 <= op && op <= 0x7f { (op - 0x5f) as usize } else { 0 };
        p = p + 1 + imm;
    }
    false
}

/// `witness`: a position that is a valid destination for some contents of this harness (vacuity guard), or usize::MAX
fn check<const L: usize>(code: [u8; L], witness: usize) {
    let analysed = to_analysed(Bytecode::new_legacy(Bytes::copy_from_slice(&code)));
    let a = match &analysed {
        Bytecode::LegacyAnalyzed(a) => a,
        _ => {
            assert!(false, "to_analysed(LegacyRaw) must be LegacyAnalyzed");
            return;
        }
    };
    // vacuity guard: the run gets here, and the witness position is accepted for some contents
    kani::cover!(witness == usize::MAX || a.jump_table().is_valid(witness));
    assert!(a.original_len() == L);
    let bytes: &[u8] = a.bytecode().as_ref();
    assert!(bytes.len() == L + 33);
    let mut i = 0;
    while i < L {
        assert!(bytes[i] == code[i]);
        i += 1;
    }
    while i < L + 33 {
        assert!(bytes[i] == 0);
        i += 1;
    }
    assert!(a.jump_table().0.len() == L + 33);
    // table_ok, every position of the table and the first one past it
    let mut t = 0;
    while t < L + 34 {
        assert!(a.jump_table().is_valid(t) == valid_dest(&code, t));
        t += 1;
    }
    assert!(!a.jump_table().is_valid(usize::MAX));
    let far: usize = kani::any();
    kani::assume(far >= L + 33);
    assert!(!a.jump_table().is_valid(far));
}

// ---- family 1: ALL byte strings of a concrete length (symbolic opcodes => symbolic walk) ------------------------
// Only L = 0 is affordable.  Measured 2026-09-21 (shared machine, load average 25-60): L = 0: 142 s / 1.7 GB;
// L = 1 with NO table observation at all (to_analysed + original_len only): 830 s / 4.5 GB; L = 2: CBMC exhausted
// the 12 GB cap after 5.6 min.  Cause: with a symbolic opcode every later loop iteration of `analyze` executes
// bitvec's `set_unchecked` under a symbolic guard with a symbolic index, and bitvec decodes its span pointer
// through pointer<->integer casts, which CBMC resolves over every object of the program.  Hence family 2.
#[kani::proof]
#[kani::unwind(36)]
fn table_len0() {
    check::<0>(kani::any(), usize::MAX);
}

// ---- family 2: concrete OPCODE positions, ALL immediate-data bytes symbolic ------------------------------------
// The walk of analyze is concrete, every push-data byte is symbolic (in particular 0x5b, 0x60..0x7f hidden in
// push data), the oracle is the same independent walk.  Shapes: PUSH1/PUSH2/PUSH32 with complete data followed
// by a JUMPDEST, and PUSH1/PUSH2/PUSH31/PUSH32 truncated by the end of the code (data runs into the padding).
const JD: u8 = 0x5b;

/// PUSH0 DUP1 PUSH1 d JUMPDEST  (0x5f and 0x80 are the opcodes adjacent to the PUSH1..PUSH32 range: no immediate data)
#[kani::proof]
#[kani::unwind(41)]
fn shape_push1_data() {
    let d: u8 = kani::any();
    check::<5>([0x5f, 0x80, 0x60, d, JD], 4);
}
/// JUMPDEST PUSH2 d d JUMPDEST
#[kani::proof]
#[kani::unwind(41)]
fn shape_push2_data() {
    let d: [u8; 2] = kani::any();
    check::<5>([JD, 0x61, d[0], d[1], JD], 4);
}
/// PUSH32 d*32 JUMPDEST JUMPDEST
#[kani::proof]
#[kani::unwind(71)]
fn shape_push32_data() {
    let d: [u8; 32] = kani::any();
    let mut code = [JD; 35];
    code[0] = 0x7f;
    let mut i = 0;
    while i < 32 {
        code[1 + i] = d[i];
        i += 1;
    }
    check::<35>(code, 34);
}
/// JUMPDEST PUSH32 -- truncated: all 32 data bytes are padding, the walk ends exactly at the end of the buffer
#[kani::proof]
#[kani::unwind(38)]
fn shape_trunc_push32() {
    check::<2>([JD, 0x7f], 0);
}
/// JUMPDEST PUSH31 -- truncated, one padding byte left
#[kani::proof]
#[kani::unwind(38)]
fn shape_trunc_push31() {
    check::<2>([JD, 0x7e], 0);
}
/// JUMPDEST PUSH1 -- truncated
#[kani::proof]
#[kani::unwind(38)]
fn shape_trunc_push1() {
    check::<2>([JD, 0x60], 0);
}
/// PUSH2 d -- truncated in the middle of its data
#[kani::proof]
#[kani::unwind(38)]
fn shape_trunc_push2_mid() {
    let d: u8 = kani::any();
    check::<2>([0x61, d], usize::MAX);
}

// ---- family 3: opcodes WITHOUT immediate data in legacy code, each directly before JUMPDESTs --------------------
// In legacy code ONLY PUSH1..PUSH32 carry immediate bytes.  The EOF-only opcodes that have immediates in an EOF
// container (0xD1 DATALOADN, 0xE0 RJUMP, 0xE1 RJUMPI, 0xE3 CALLF, 0xE5 JUMPF: 2 bytes; 0xE2 RJUMPV, 0xE6 DUPN,
// 0xE7 SWAPN, 0xE8 EXCHANGE, 0xEC EOFCREATE, 0xEE RETURNCONTRACT: 1 byte), undefined bytes and every other
// opcode are ONE byte long: a JUMPDEST directly behind them is a valid destination.  (Added after an
// independent seeded mutation -- skip length taken from OPCODE_INFO_JUMPTABLE[..].immediate_size() -- survived
// the PUSH/DUP-only shapes.)  All bytes concrete; code = op JD JD  op' JD JD ...: an opcode that wrongly swallows
// 1 or 2 (or more) bytes loses the destinations behind it, the walk resynchronises on the next JUMPDEST.
/// RJUMP JD JD RJUMPV JD JD   (0xE0: 2 immediate bytes in EOF, 0xE2: 1)
#[kani::proof]
#[kani::unwind(42)]
fn shape_eof_imm_quick() {
    check::<6>([0xe0, JD, JD, 0xe2, JD, JD], 1);
}
/// all eleven EOF-only opcodes with immediates, each followed by two JUMPDESTs
#[kani::proof]
#[kani::unwind(69)]
fn shape_eof_imm_all() {
    check::<33>(
        [0xd1, JD, JD, 0xe0, JD, JD, 0xe1, JD, JD, 0xe2, JD, JD, 0xe3, JD, JD, 0xe5, JD, JD, 0xe6, JD, JD, 0xe7, JD, JD,
         0xe8, JD, JD, 0xec, JD, JD, 0xee, JD, JD],
        1,
    );
}
// NOT affordable (measured 2026-09-22, load average 20-30): a family over ALL 223 byte values that are neither
// JUMPDEST nor PUSH1..PUSH32.  Cost grows with the number of marked JUMPDESTs and observed positions, not only per
// harness: 11 opcodes x (op JD JD) took 2478 s; 27 opcodes x (op JD JD), L = 81, did not finish in 48 min; 28 x (op JD)
// observed through the raw table bytes was at 7.9 GB after 18 min.  Roughly 2-4 min per opcode => 8-14 h for all.
