//! C04 (Part K, BOUNDED): construction of the jump table -- `analysis::to_analysed` (public) and, through
//! it, the private raw-pointer loop `analysis::analyze`, on the real crate; the table is observed through
//! the public `JumpTable::is_valid` (the observer the property names, and the function whose result the
//! Verus unit `jump` calls `jt_valid`).
//!
//! BOUNDED, never counted as proved: legacy code of CONCRETE length L in 0..=5 (one harness per L), all
//! 256^L byte contents symbolic.  Every PUSH width 1..=32 occurs as a symbolic opcode in every position, so
//! every width occurs truncated by the end of the code (PUSH32 as the last byte runs 32 bytes into the
//! 33-byte padding).  A second family fixes the opcode under test and keeps the rest symbolic.
//!
//! Checked for the value `to_analysed(Bytecode::new_legacy(code))`:
//!   * it is `LegacyAnalyzed`; `original_len == L`; `bytecode.len() == L + 33`; `bytecode[..L] == code`;
//!     the 33 padding bytes are zero;
//!   * the jump table has `L + 33` bits;
//!   * `table_ok`: for EVERY t in 0..L+34 and for t = L+33 (first position past the table), usize::MAX and
//!     one symbolic t >= L+33:   jump_table.is_valid(t)  <=>  valid_dest(code, t)
//!     -- in particular no position in the padding and no position inside push data is ever marked;
//!   * no panic / out-of-bounds access / pointer arithmetic overflow in analyze (CBMC's pointer checks).
//!
//! Oracle `valid_dest`: Yellow Paper 9.4.3 D(c), written independently as a walk over instruction starts
//! with literal opcode numbers (JUMPDEST = 0x5b, PUSH1..PUSH32 = 0x60..0x7f, PUSHn carries n = op - 0x5f
//! bytes of immediate data).
use revm_interpreter::analysis::to_analysed;
use revm_interpreter::primitives::{Bytecode, Bytes};

/// t is an instruction start of `code` holding 0x5b  (walk from position 0; at most L steps)
fn valid_dest<const L: usize>(code: &[u8; L], t: usize) -> bool {
    let mut p: usize = 0;
    while p < L {
        if p == t {
            return code[p] == 0x5b;
        }
        let op = code[p];
        let imm: usize = if 0x60 <= op && op <= 0x7f { (op - 0x5f) as usize } else { 0 };
        p = p + 1 + imm;
    }
    false
}

fn check<const L: usize>(code: [u8; L]) {
    let analysed = to_analysed(Bytecode::new_legacy(Bytes::copy_from_slice(&code)));
    let a = match &analysed {
        Bytecode::LegacyAnalyzed(a) => a,
        _ => {
            assert!(false, "to_analysed(LegacyRaw) must be LegacyAnalyzed");
            return;
        }
    };
    // vacuity guard: some code of this length has a JUMPDEST accepted (L >= 1) / the run got here (L = 0)
    kani::cover!(L == 0 || a.jump_table().is_valid(L - 1));
    assert!(a.original_len() == L);
    let bytes: &[u8] = a.bytecode().as_ref();
    assert!(bytes.len() == L + 33);
    let mut i = 0;
    while i < L {
        assert!(bytes[i] == code[i]);
        i += 1;
    }
    while i < L + 33 {
        assert!(bytes[i] == 0);
        i += 1;
    }
    assert!(a.jump_table().0.len() == L + 33);
    // table_ok, every position of the table and the first one past it
    let mut t = 0;
    while t < L + 34 {
        assert!(a.jump_table().is_valid(t) == valid_dest(&code, t));
        t += 1;
    }
    assert!(!a.jump_table().is_valid(usize::MAX));
    let far: usize = kani::any();
    kani::assume(far >= L + 33);
    assert!(!a.jump_table().is_valid(far));
}

#[kani::proof]
#[kani::unwind(42)]
fn table_len0() {
    check::<0>(kani::any());
}
#[kani::proof]
#[kani::unwind(42)]
fn table_len1() {
    check::<1>(kani::any());
}
#[kani::proof]
#[kani::unwind(42)]
fn table_len2() {
    check::<2>(kani::any());
}
#[kani::proof]
#[kani::unwind(42)]
fn table_len3() {
    check::<3>(kani::any());
}
#[kani::proof]
#[kani::unwind(42)]
fn table_len4() {
    check::<4>(kani::any());
}
#[kani::proof]
#[kani::unwind(42)]
fn table_len5() {
    check::<5>(kani::any());
}
