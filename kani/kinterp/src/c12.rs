//! C12: the three raw-pointer stack operations (`dup`, `exchange`/`swap`, `push_slice`) on the
//! real `Stack`.  BOUNDED: one harness per CONCRETE stack length; operands (k, n, m) are
//! enumerated by constant loops so that every buffer offset is concrete (symbolic offsets into
//! the 32 KiB buffer blow CBMC up: 52 GB); cell contents are symbolic.  The list is compared on
//! the WINDOW of the top 36 cells plus cells 0, 1 and len/2 (bound, stated in evidence).
use revm_interpreter::primitives::U256;
use revm_interpreter::{InstructionResult, Stack};

/// limb-wise equality (the derived `==` on U256 is a 32-iteration memcmp, very costly here)
fn eq(a: U256, b: U256) -> bool {
    let (x, y) = (a.as_limbs(), b.as_limbs());
    x[0] == y[0] && x[1] == y[1] && x[2] == y[2] && x[3] == y[3]
}

fn mk(len: usize) -> Stack {
    let mut s = Stack::new();
    // contents stay nondeterministic (fresh allocation); only the length is fixed
    unsafe { s.data_mut().set_len(len) };
    s
}

const WIN: usize = 36;

/// snapshot of the observation window
fn snap(s: &Stack, len: usize) -> ([U256; WIN], [U256; 3]) {
    let mut w = [U256::ZERO; WIN];
    let mut i = 0;
    while i < WIN {
        if i < len {
            w[i] = s.data()[len - 1 - i];
        }
        i += 1;
    }
    let mut f = [U256::ZERO; 3];
    if len > 0 { f[0] = s.data()[0]; }
    if len > 1 { f[1] = s.data()[1]; }
    if len > 2 { f[2] = s.data()[len / 2]; }
    (w, f)
}

/// capacity assumption of unit `stack` (stack_wf): a new stack has capacity exactly 1024
#[kani::proof]
#[kani::unwind(2)]
fn stack_new_capacity() {
    let s = Stack::new();
    kani::cover!(s.len() == 0);
    assert!(s.data().capacity() == 1024);
    assert!(s.len() == 0);
}

fn check_dup(len: usize) {
    let mut k = 1;
    while k <= 16 {
        let mut s = mk(len);
        let (w, f) = snap(&s, len);
        let r = s.dup(k);
        if len < k {
            assert!(r == Err(InstructionResult::StackUnderflow));
            assert!(s.len() == len);
        } else if len + 1 > 1024 {
            assert!(r == Err(InstructionResult::StackOverflow));
            assert!(s.len() == len);
        } else {
            assert!(r == Ok(()));
            assert!(s.len() == len + 1);
            assert!(eq(s.data()[len], w[k - 1]));
        }
        let (w2, f2) = snap(&s, len);
        let mut i = 0;
        while i < WIN {
            assert!(eq(w[i], w2[i]));
            i += 1;
        }
        assert!(eq(f[0], f2[0]) && eq(f[1], f2[1]) && eq(f[2], f2[2]));
        k += 1;
    }
    kani::cover!(k == 17);
}

fn check_exchange(len: usize, n: usize) {
    let mut m = 1;
    while m <= 16 {
        let mut s = mk(len);
        let (w, f) = snap(&s, len);
        let r = s.exchange(n, m);
        assert!(s.len() == len);
        let (w2, f2) = snap(&s, len);
        if n + m >= len {
            assert!(r == Err(InstructionResult::StackUnderflow));
            let mut i = 0;
            while i < WIN {
                assert!(eq(w[i], w2[i]));
                i += 1;
            }
        } else {
            assert!(r == Ok(()));
            let mut i = 0;
            while i < WIN {
                if i == n {
                    assert!(eq(w2[i], w[n + m]));
                } else if i == n + m {
                    assert!(eq(w2[i], w[n]));
                } else {
                    assert!(eq(w[i], w2[i]));
                }
                i += 1;
            }
        }
        assert!(eq(f[0], f2[0]) || len <= WIN);
        assert!(eq(f[1], f2[1]) || len <= WIN);
        assert!(eq(f[2], f2[2]) || len / 2 + WIN >= len);
        m += 1;
    }
    kani::cover!(m == 17);
}

fn check_swap(len: usize) {
    let mut n = 1;
    while n <= 16 {
        let mut s = mk(len);
        let (w, _f) = snap(&s, len);
        let r = s.swap(n);
        let (w2, _f2) = snap(&s, len);
        assert!(s.len() == len);
        if n >= len {
            assert!(r == Err(InstructionResult::StackUnderflow));
        } else {
            assert!(r == Ok(()));
            assert!(eq(w2[0], w[n]) && eq(w2[n], w[0]));
        }
        n += 1;
    }
    kani::cover!(n == 17);
}

macro_rules! stack_family {
    ($($len:literal => $d:ident, $w:ident, $e0:ident, $e1:ident, $e7:ident, $e16:ident;)*) => {$(
        #[kani::proof] #[kani::unwind(38)] fn $d() { check_dup($len) }
        #[kani::proof] #[kani::unwind(38)] fn $w() { check_swap($len) }
        #[kani::proof] #[kani::unwind(38)] fn $e0() { check_exchange($len, 0) }
        #[kani::proof] #[kani::unwind(38)] fn $e1() { check_exchange($len, 1) }
        #[kani::proof] #[kani::unwind(38)] fn $e7() { check_exchange($len, 7) }
        #[kani::proof] #[kani::unwind(38)] fn $e16() { check_exchange($len, 16) }
    )*};
}

stack_family! {
    0 => dup_len0, swap_len0, exch0_len0, exch1_len0, exch7_len0, exch16_len0;
    1 => dup_len1, swap_len1, exch0_len1, exch1_len1, exch7_len1, exch16_len1;
    2 => dup_len2, swap_len2, exch0_len2, exch1_len2, exch7_len2, exch16_len2;
    16 => dup_len16, swap_len16, exch0_len16, exch1_len16, exch7_len16, exch16_len16;
    17 => dup_len17, swap_len17, exch0_len17, exch1_len17, exch7_len17, exch16_len17;
    33 => dup_len33, swap_len33, exch0_len33, exch1_len33, exch7_len33, exch16_len33;
    1008 => dup_len1008, swap_len1008, exch0_len1008, exch1_len1008, exch7_len1008, exch16_len1008;
    1023 => dup_len1023, swap_len1023, exch0_len1023, exch1_len1023, exch7_len1023, exch16_len1023;
    1024 => dup_len1024, swap_len1024, exch0_len1024, exch1_len1024, exch7_len1024, exch16_len1024;
}
