//! C05: every opcode exists exactly from its activating hardfork.  The quantifier is finite:
//! one harness per generic `Spec` type (all 15 mainnet ones; every SpecId funnels through them via
//! `spec_to_generic!`, checked by `spec_to_generic_classes`), the opcode byte is SYMBOLIC over all 256
//! values, dispatched through the REAL `make_instruction_table::<H, SPEC>()`.  The interpreter has an
//! empty stack and zero gas, so every ACTIVE instruction stops at its first gas / stack check with a
//! result outside the "does not exist" class, and a stub host proves the host is never reached.
//! Oracle: the activation table below, written from the EIP list (independent of opcode.rs).
//! No data-dependent loops => complete over op x Spec (x legacy/EOF mode for the EOF opcodes).
use revm_interpreter::opcode::make_instruction_table;
use revm_interpreter::primitives::*;
use revm_interpreter::{
    AccountLoad, Contract, Host, InstructionResult, Interpreter, SStoreResult, SelfDestructResult, StateLoad,
};

struct StubHost;
impl Host for StubHost {
    fn env(&self) -> &Env { unreachable!() }
    fn env_mut(&mut self) -> &mut Env { unreachable!() }
    fn load_account_delegated(&mut self, _a: Address) -> Option<AccountLoad> { unreachable!() }
    fn block_hash(&mut self, _n: u64) -> Option<B256> { unreachable!() }
    fn balance(&mut self, _a: Address) -> Option<StateLoad<U256>> { unreachable!() }
    fn code(&mut self, _a: Address) -> Option<StateLoad<Bytes>> { unreachable!() }
    fn code_hash(&mut self, _a: Address) -> Option<StateLoad<B256>> { unreachable!() }
    fn sload(&mut self, _a: Address, _i: U256) -> Option<StateLoad<U256>> { unreachable!() }
    fn sstore(&mut self, _a: Address, _i: U256, _v: U256) -> Option<StateLoad<SStoreResult>> { unreachable!() }
    fn tload(&mut self, _a: Address, _i: U256) -> U256 { unreachable!() }
    fn tstore(&mut self, _a: Address, _i: U256, _v: U256) { unreachable!() }
    fn log(&mut self, _l: Log) { unreachable!() }
    fn selfdestruct(&mut self, _a: Address, _t: Address) -> Option<StateLoad<SelfDestructResult>> { unreachable!() }
}

/// hardfork index (SpecId as u8) from which a LEGACY opcode exists; None = never (undefined byte,
/// or an EOF-only opcode, which legacy code can never execute).  From the EIPs:
/// EIP-7 (0xf4, Homestead=2); EIP-140/211/214 (0xfd, 0x3d, 0x3e, 0xfa, Byzantium=6);
/// EIP-145/1014/1052 (0x1b-0x1d, 0xf5, 0x3f, Constantinople=7); EIP-1344/1884 (0x46, 0x47, Istanbul=9);
/// EIP-3198 (0x48, London=12); EIP-3855 (0x5f, Shanghai=16);
/// EIP-4844/7516/1153/5656 (0x49, 0x4a, 0x5c, 0x5d, 0x5e, Cancun=17).
fn legacy_since(op: u8) -> Option<u8> {
    match op {
        0x00..=0x0b => Some(0),
        0x10..=0x1a => Some(0),
        0x1b..=0x1d => Some(7),
        0x20 => Some(0),
        0x30..=0x3c => Some(0),
        0x3d | 0x3e => Some(6),
        0x3f => Some(7),
        0x40..=0x45 => Some(0),
        0x46 | 0x47 => Some(9),
        0x48 => Some(12),
        0x49 | 0x4a => Some(17),
        0x50..=0x5b => Some(0),
        0x5c..=0x5e => Some(17),
        0x5f => Some(16),
        0x60..=0x7f => Some(0),
        0x80..=0x8f => Some(0),
        0x90..=0x9f => Some(0),
        0xa0..=0xa4 => Some(0),
        0xf0..=0xf3 => Some(0),
        0xf4 => Some(2),
        0xf5 => Some(7),
        0xfa => Some(6),
        0xfd => Some(6),
        0xfe | 0xff => Some(0),
        _ => None,
    }
}

/// EOF-only opcodes (EIP-7692 family): exist only inside EOF containers
fn eof_only(op: u8) -> bool {
    matches!(op, 0xd0..=0xd3 | 0xe0..=0xe8 | 0xec | 0xee | 0xf7 | 0xf8 | 0xf9 | 0xfb)
}

/// the results by which the interpreter says "this opcode does not exist here"
fn says_not_existing(r: InstructionResult) -> bool {
    matches!(
        r,
        InstructionResult::NotActivated
            | InstructionResult::OpcodeNotFound
            | InstructionResult::EOFOpcodeDisabledInLegacy
            | InstructionResult::ReturnContractInNotInitEOF
    )
}

fn check_spec<SPEC: Spec>() {
    let op: u8 = kani::any();
    let eof_mode: bool = kani::any();
    let table = make_instruction_table::<StubHost, SPEC>();
    let mut interp = Interpreter::new(Contract::default(), 0, false);
    interp.is_eof = eof_mode;
    interp.is_eof_init = eof_mode;
    let mut host = StubHost;
    table[op as usize](&mut interp, &mut host);
    let r = interp.instruction_result;
    let spec = SPEC::SPEC_ID as u8;
    kani::cover!(op == 0x01 && r == InstructionResult::OutOfGas);
    if !eof_mode {
        let active = match legacy_since(op) {
            Some(f) => spec >= f,
            None => false,
        };
        assert!(says_not_existing(r) == !active);
        // the precise code: fork-gated opcodes say NotActivated, undefined bytes OpcodeNotFound
        if legacy_since(op).is_some() && !active {
            assert!(r == InstructionResult::NotActivated);
        }
        if legacy_since(op).is_none() && !eof_only(op) {
            assert!(r == InstructionResult::OpcodeNotFound);
        }
    } else if eof_only(op) {
        // inside an EOF container the EOF opcodes exist
        assert!(!says_not_existing(r));
    }
    // a non-existing opcode is an exceptional HALT (error class: the frame's gas is consumed), never a
    // success or a revert (which would hand the remaining gas back)
    if says_not_existing(r) {
        assert!(r.is_error() && !r.is_ok() && !r.is_revert());
        assert!(interp.gas.remaining() == 0 && interp.gas.refunded() == 0);
        assert!(interp.stack.len() == 0);
    }
}

macro_rules! spec_harness {
    ($($name:ident => $spec:ty;)*) => {$(
        #[kani::proof]
        #[kani::unwind(8)]
        fn $name() { check_spec::<$spec>() }
    )*};
}

spec_harness! {
    ops_frontier => FrontierSpec;
    ops_homestead => HomesteadSpec;
    ops_tangerine => TangerineSpec;
    ops_spurious_dragon => SpuriousDragonSpec;
    ops_byzantium => ByzantiumSpec;
    ops_petersburg => PetersburgSpec;
    ops_istanbul => IstanbulSpec;
    ops_berlin => BerlinSpec;
    ops_london => LondonSpec;
    ops_merge => MergeSpec;
    ops_shanghai => ShanghaiSpec;
    ops_cancun => CancunSpec;
    ops_prague => PragueSpec;
    ops_osaka => OsakaSpec;
    ops_latest => LatestSpec;
}

/// every SpecId value is dispatched to a generic Spec of the same opcode-activation class:
/// for every fork F that gates an opcode, `id >= F` iff `SPEC::SPEC_ID >= F`.
#[kani::proof]
#[kani::unwind(10)]
fn spec_to_generic_classes() {
    let raw: u8 = kani::any();
    kani::assume(raw <= 19 || raw == u8::MAX);
    let id = SpecId::try_from_u8(raw).unwrap();
    let mapped: SpecId = spec_to_generic!(id, SPEC::SPEC_ID);
    kani::cover!(raw == 7);
    let gates: [u8; 8] = [2, 6, 7, 9, 12, 16, 17, 18];
    let mut i = 0;
    while i < 8 {
        assert!((raw >= gates[i]) == ((mapped as u8) >= gates[i]));
        i += 1;
    }
}
