#!/usr/bin/env python3
"""Regenerates the instance list at the end of src/c12.rs and c12_instances.json
(the checking functions at the top of c12.rs are hand-written and kept)."""
import json, os, re
d = os.path.dirname(os.path.abspath(__file__))
p = os.path.join(d, "src", "c12.rs")
s = open(p).read()
head = s[:s.index("#[kani::proof] #[kani::unwind(23)] fn dup_l0_k1")]
quick, thorough, out = [], [], [head]
def h(name, body, unwind, q):
    out.append(f"#[kani::proof] #[kani::unwind({unwind})] fn {name}() {{ {body} }}\n")
    (quick if q else thorough).append(name)
for ln in (0, 1, 15, 16, 17, 1008, 1023, 1024):
    for k in range(1, 17):
        h(f"dup_l{ln}_k{k}", f"check_dup({ln}, {k})", 23, (ln, k) in ((17, 7), (1023, 16), (1024, 1)))
for ln in (0, 1, 2, 17, 33, 1024):
    for (n, m) in ((0, 1), (0, 16), (1, 1), (7, 9), (16, 16), (3, 16), (16, 1)):
        h(f"exch_l{ln}_n{n}_m{m}", f"check_exchange({ln}, {n}, {m})", 23, (ln, n, m) in ((33, 7, 9), (2, 7, 9)))
for ln in (0, 1, 2, 17, 1024):
    for n in (1, 2, 16):
        h(f"swap_l{ln}_n{n}", f"check_swap({ln}, {n})", 23, (ln, n) in ((17, 16),))
for ln in (0, 1, 1022, 1023, 1024):
    for N in (0, 1, 7, 8, 9, 31, 32, 33, 40, 63, 64, 65, 70):
        h(f"pushslice_l{ln}_b{N}", f"check_push_slice::<{N}>({ln})", 72, (ln, N) in ((0, 9), (1023, 33)))
open(p, "w").write("".join(out))
json.dump({"quick": quick, "thorough": thorough}, open(os.path.join(d, "c12_instances.json"), "w"), indent=0)
print(len(quick), len(thorough))
