//! BOUNDED harnesses on the real `CacheDB` (crates/revm/src/db/in_memory_db.rs, included by path).
//!
//! Bound (all harnesses): ONE concrete queried address `A`, the cache holds at most one account (for `A`, or for the
//! other concrete address `B`) with at most TWO slots under the CONCRETE keys `K1`, `K2` (symbolic keys make the SipHash
//! of the std HashMap explode); `contracts` / `block_hashes` / `logs` empty; `AccountInfo.code == None`.
//! Symbolic: the `AccountState` of the cached account (all four variants), every bit of the cached slot VALUES, of the
//! cached balance / nonce / code hash, and the inner database's answers (Ok / Err, payload, error code).
//!
//! Required options (props/C20.py `_KCB_ARGS`; without them no harness with a cached account finishes):
//!   `--no-assertion-reach-checks` (the reach checks cost 109 traces / 457 MB of JSON per harness; the explicit covers are the
//!   vacuity guard) and `--cbmc-args --max-field-sensitivity-array-size 2048` (the table allocation must stay field-sensitive).
//!
//! Oracle (C21, database-layer part; C20 'has-storage answer'), written here without calling the code under test:
//!   has_storage(a) = true                       if the cache holds a NON-ZERO slot of a;
//!                    false                      else if the cached account state is StorageCleared / NotExisting;
//!                    the inner database's answer (same address, Ok or Err) otherwise, and when a is not cached at all.
//! C20 reads: storage_ref(a, k) = the cached value of a cached slot; 0 for an uncached slot of a StorageCleared / NotExisting
//! account; else the inner answer for (a, k).  basic_ref(a) = None for a cached NotExisting account, the cached info for
//! any other cached account, else the inner answer for a.
use crate::db::{AccountState, CacheDB, DbAccount};
use crate::primitives::{AccountInfo, Address, Bytecode, HashMap, B256, U256};
use crate::{Database, DatabaseRef};

/// `HashMap::default()` seeds the SipHash keys from `getrandom`, which Kani cannot model (and a symbolic seed makes
/// every bucket index symbolic).  All harnesses run with ONE fixed seed; the observable behaviour of
/// `std::collections::HashMap` does not depend on the seed (std's contract, trusted).
pub fn fixed_random_state() -> std::hash::RandomState {
    unsafe { core::mem::transmute::<[u64; 2], std::hash::RandomState>([0x0706050403020100, 0x0f0e0d0c0b0a0908]) }
}

/// the queried address, and another one
const A: Address = Address::new([0xaa; 20]);
const B: Address = Address::new([0xcc; 20]);
/// the two CONCRETE storage keys.
/// Why these values: under the fixed seed 0xaa..aa, 0xcc..cc, 3 and 11 all hash to bucket 0 of a 4-bucket table, so the first
/// key of every table sits in bucket 0.  Measured: only then does CBMC constant-fold hashbrown's SSE2 group match
/// (`simd_bitmask`) of a later probe; with the first key in bucket 1..3 (e.g. keys 1 then 3, or address 0xbb..bb) the match
/// mask stays symbolic, the probe loops are unrolled to the unwind bound with a memcmp each, and the run does not finish
/// (20 min / > 12 GB).  The choice is part of the stated bound, not of the oracle.
const K1: U256 = U256::from_limbs([3, 0, 0, 0]);
const K2: U256 = U256::from_limbs([11, 0, 0, 0]);

fn any_u256() -> U256 { U256::from_limbs(kani::any()) }
/// limb-wise (derived `==` on U256 is a 32-iteration memcmp)
fn u_eq(a: U256, b: U256) -> bool {
    let (a, b) = (a.as_limbs(), b.as_limbs());
    a[0] == b[0] && a[1] == b[1] && a[2] == b[2] && a[3] == b[3]
}
fn nonzero(a: U256) -> bool {
    let a = a.as_limbs();
    (a[0] | a[1] | a[2] | a[3]) != 0
}
fn a_eq(a: &Address, b: &Address) -> bool { a.0 .0 == b.0 .0 }
fn any_res<T>(ok: T) -> Result<T, u8> { if kani::any() { Ok(ok) } else { Err(kani::any()) } }
fn any_state() -> AccountState {
    match kani::any::<u8>() & 3 {
        0 => AccountState::NotExisting,
        1 => AccountState::Touched,
        2 => AccountState::StorageCleared,
        _ => AccountState::None,
    }
}
/// "the cache knows that the underlying database has nothing (left) for this account"
fn knows_empty(s: &AccountState) -> bool { matches!(s, AccountState::StorageCleared | AccountState::NotExisting) }

/// inner database: answers fixed at construction (symbolic) for address `A` (and slot `key`); any other argument gets
/// a distinguishable answer, so that forwarding a different address / key is visible
pub struct Inner {
    has: Result<bool, u8>,
    slot: Result<U256, u8>,
    key: U256,
    basic: Result<Option<(U256, u64, [u8; 32])>, u8>,
}
impl Inner {
    fn any(key: U256) -> Self {
        let has = any_res(kani::any());
        let slot = any_res(any_u256());
        let info = if kani::any() { Some((any_u256(), kani::any(), kani::any())) } else { None };
        Inner { has, slot, key, basic: any_res(info) }
    }
}
impl DatabaseRef for Inner {
    type Error = u8;
    fn basic_ref(&self, a: Address) -> Result<Option<AccountInfo>, u8> {
        if !a_eq(&a, &A) { return Err(0xEE); }
        match self.basic {
            Ok(Some((balance, nonce, h))) => Ok(Some(AccountInfo { balance, nonce, code_hash: B256::new(h), code: None })),
            Ok(None) => Ok(None),
            Err(e) => Err(e),
        }
    }
    fn code_by_hash_ref(&self, h: B256) -> Result<Bytecode, u8> { Err(0xE1) }
    fn has_storage_ref(&self, a: Address) -> Result<bool, u8> {
        if !a_eq(&a, &A) { return Err(0xEE); }
        self.has
    }
    fn storage_ref(&self, a: Address, i: U256) -> Result<U256, u8> {
        if !a_eq(&a, &A) || !u_eq(i, self.key) { return Err(0xEE); }
        self.slot
    }
    fn block_hash_ref(&self, n: u64) -> Result<B256, u8> { Err(0xE3) }
}

/// cache content of an instance.  `CACHED` (is there an account at all), `AT_A` (is it the queried address) and `N` (how many
/// slots it holds, under K1, K2) are COMPILE-TIME constants of the instance: a run-time shape (even a concrete one behind an
/// `Option` whose niche lives in the symbolic `AccountState`) makes CBMC walk the insert / rehash code of slots that are not there.
struct Cached<const CACHED: bool, const AT_A: bool, const N: usize> { balance: U256, nonce: u64, code_hash: [u8; 32], state: AccountState, v: [U256; 2] }
impl<const CACHED: bool, const AT_A: bool, const N: usize> Cached<CACHED, AT_A, N> {
    /// (generation order = order of the values in a concrete-playback witness: state and slot values first, then -- `Inner::any` --
    /// the inner database's answers, the account info last)
    fn any() -> Self {
        let state = any_state();
        let v = [any_u256(), any_u256()];
        Cached { balance: U256::ZERO, nonce: 0, code_hash: [0; 32], state, v }
    }
    fn with_any_info(mut self) -> Self {
        self.balance = any_u256();
        self.nonce = kani::any();
        self.code_hash = kani::any();
        self
    }
    /// the queried address is in the cache
    const HIT: bool = CACHED && AT_A;
    /// the cache, built through its public fields (no call into the code under test)
    fn build(&self, inner: Inner) -> CacheDB<Inner> {
        let mut accounts: HashMap<Address, DbAccount> = HashMap::default();
        if CACHED {
            let mut storage: HashMap<U256, U256> = HashMap::default();
            if N >= 1 { storage.insert(K1, self.v[0]); }
            if N >= 2 { storage.insert(K2, self.v[1]); }
            let info = AccountInfo { balance: self.balance, nonce: self.nonce, code_hash: B256::new(self.code_hash), code: None };
            accounts.insert(if AT_A { A } else { B }, DbAccount { info, account_state: self.state.clone(), storage });
        }
        CacheDB { accounts, contracts: HashMap::default(), logs: Vec::new(), block_hashes: HashMap::default(), db: inner }
    }
}
fn same_bool(a: &Result<bool, u8>, b: &Result<bool, u8>) -> bool {
    match (a, b) { (Ok(x), Ok(y)) => x == y, (Err(x), Err(y)) => x == y, _ => false }
}
fn same_word(a: &Result<U256, u8>, b: &Result<U256, u8>) -> bool {
    match (a, b) { (Ok(x), Ok(y)) => u_eq(*x, *y), (Err(x), Err(y)) => x == y, _ => false }
}

// ------------------------------------------------------------------------------------------------ has_storage
/// both entry points (`DatabaseRef::has_storage_ref`, `Database::has_storage`) against the oracle of the module documentation
fn check_has<const CACHED: bool, const AT_A: bool, const N: usize>() {
    let c = Cached::<CACHED, AT_A, N>::any();
    let hit = Cached::<CACHED, AT_A, N>::HIT;
    let inner = Inner::any(K1);
    let c = c.with_any_info();
    let inner_ans = inner.has;
    let mut db = c.build(inner);
    let holds_nonzero = hit && ((N >= 1 && nonzero(c.v[0])) || (N >= 2 && nonzero(c.v[1])));
    let want = if holds_nonzero {
        Ok(true)
    } else if hit && knows_empty(&c.state) {
        Ok(false)
    } else {
        inner_ans
    };
    let got_ref = db.has_storage_ref(A);
    assert!(same_bool(&got_ref, &want));
    let got = db.has_storage(A);
    assert!(same_bool(&got, &want));
    // vacuity guards: the three kinds of answer, and the two situations the independent seeds C20-1 / C21-1 get wrong
    // (written as `<instance has no such case> || <case>`: a cover under a branch that is dead for the instance would count as unsatisfied)
    kani::cover!(matches!(want, Ok(true)));
    kani::cover!(matches!(want, Ok(false)));
    kani::cover!(matches!(want, Err(_)));
    kani::cover!(!hit || matches!(c.state, AccountState::NotExisting));
    kani::cover!(!hit || matches!(c.state, AccountState::Touched));
    // a created account with constructor storage
    kani::cover!(!hit || N < 1 || (matches!(c.state, AccountState::StorageCleared) && nonzero(c.v[0])));
    // a cached ZERO slot must not hide the inner database's storage
    kani::cover!(!hit || N < 1 || (matches!(c.state, AccountState::None) && !holds_nonzero && matches!(inner_ans, Ok(true))));
    core::mem::forget(db);
}
macro_rules! has {
    ($name:ident, $cached:expr, $at_a:expr, $n:expr) => {
        #[kani::proof]
        #[kani::unwind(34)]
        #[kani::stub(std::hash::RandomState::new, fixed_random_state)]
        fn $name() { check_has::<$cached, $at_a, $n>() }
    };
}
// (i) nothing cached
has!(has_storage_not_cached, false, false, 0);
// (ii) cached, no slots, symbolic AccountState
has!(has_storage_cached_0, true, true, 0);
// (iii) cached, one slot (symbolic value: zero and non-zero), symbolic AccountState
has!(has_storage_cached_1, true, true, 1);
// (iv) cached, two slots
has!(has_storage_cached_2, true, true, 2);
// another account is cached (with a slot): the answer for A is the inner database's
has!(has_storage_other_cached_1, true, false, 1);

// ------------------------------------------------------------------------------------------------ storage_ref
/// `storage_ref(A, key K)` (K = 0: K1, K = 1: K2)
fn check_storage_ref<const CACHED: bool, const AT_A: bool, const N: usize, const K: usize>() {
    let c = Cached::<CACHED, AT_A, N>::any();
    let hit = Cached::<CACHED, AT_A, N>::HIT;
    let key = if K == 0 { K1 } else { K2 };
    let inner = Inner::any(key);
    let c = c.with_any_info();
    let inner_ans = inner.slot;
    let db = c.build(inner);
    let want = if hit && K < N {
        Ok(c.v[K])
    } else if hit && knows_empty(&c.state) {
        Ok(U256::ZERO)
    } else {
        inner_ans
    };
    let got = db.storage_ref(A, key);
    assert!(same_word(&got, &want));
    kani::cover!(matches!(want, Ok(x) if nonzero(x)));
    kani::cover!(matches!(want, Ok(x) if !nonzero(x)));
    kani::cover!(!hit || matches!(c.state, AccountState::StorageCleared));
    kani::cover!(!hit || matches!(c.state, AccountState::Touched));
    core::mem::forget(db);
}
macro_rules! storage_ref {
    ($name:ident, $cached:expr, $at_a:expr, $n:expr, $k:expr) => {
        #[kani::proof]
        #[kani::unwind(34)]
        #[kani::stub(std::hash::RandomState::new, fixed_random_state)]
        fn $name() { check_storage_ref::<$cached, $at_a, $n, $k>() }
    };
}
storage_ref!(storage_ref_not_cached, false, false, 0, 0);
// cached with slot K1 only: K1 is a hit, K2 a miss
storage_ref!(storage_ref_cached_1_hit, true, true, 1, 0);
storage_ref!(storage_ref_cached_1_miss, true, true, 1, 1);
storage_ref!(storage_ref_cached_0_miss, true, true, 0, 0);

// ------------------------------------------------------------------------------------------------ basic_ref
fn check_basic_ref<const CACHED: bool, const AT_A: bool, const N: usize>() {
    let c = Cached::<CACHED, AT_A, N>::any();
    let hit = Cached::<CACHED, AT_A, N>::HIT;
    let inner = Inner::any(K1);
    let c = c.with_any_info();
    let inner_ans = inner.basic;
    let db = c.build(inner);
    // (balance, nonce, code hash) of the expected answer
    let want: Result<Option<(U256, u64, [u8; 32])>, u8> = if hit {
        if matches!(c.state, AccountState::NotExisting) { Ok(None) } else { Ok(Some((c.balance, c.nonce, c.code_hash))) }
    } else {
        inner_ans
    };
    let got = db.basic_ref(A);
    let ok = match (&got, &want) {
        (Ok(None), Ok(None)) => true,
        (Ok(Some(g)), Ok(Some((b, n, h)))) => u_eq(g.balance, *b) && g.nonce == *n && g.code_hash.0 == *h && g.code.is_none(),
        (Err(x), Err(y)) => x == y,
        _ => false,
    };
    assert!(ok);
    kani::cover!(matches!(want, Ok(None)));
    kani::cover!(matches!(want, Ok(Some(_))));
    core::mem::forget(got);
    core::mem::forget(db);
}
macro_rules! basic_ref {
    ($name:ident, $cached:expr, $at_a:expr, $n:expr) => {
        #[kani::proof]
        #[kani::unwind(34)]
        #[kani::stub(std::hash::RandomState::new, fixed_random_state)]
        fn $name() { check_basic_ref::<$cached, $at_a, $n>() }
    };
}
basic_ref!(basic_ref_not_cached, false, false, 0);
basic_ref!(basic_ref_cached_0, true, true, 0);
