//! Kani harnesses on the REAL source file `crates/revm/src/db/in_memory_db.rs` (`CacheDB`; C20 / C21's database-layer part).
//!
//! kani-compiler 0.68 crashes (internal compiler error) on crate `revm` as a whole, so this crate does not depend on
//! it: the two files are included BY PATH (`#[path]`, zero text transformation -- the compiled text is the working
//! tree's text) under the module paths they refer to (`crate::primitives`, `crate::Database`, `super::{DatabaseCommit,
//! DatabaseRef, EmptyDB}`).  The re-exports mirror crates/revm/src/lib.rs and crates/revm/src/db.rs for these two files only.
//!
//! Purpose: a stand-in for the Verus unit `dbwrap` when `CacheDB::has_storage_ref` is rewritten with iterator adapters /
//! closures (`values().any(|v| ..)`), which Verus cannot read (the unit then reports UNDECIDED: lost loop anchor).
//! Kani takes the compiled MIR, whatever the surface syntax.  All harnesses are BOUNDED (at most two cached slots,
//! concrete address and slot keys): they are never counted as proved.
#![allow(unused, unreachable_pub, deprecated)]

pub use revm_interpreter::primitives;
pub use revm_interpreter::primitives::db::{Database, DatabaseCommit, DatabaseRef};

pub mod db {
    pub use crate::{Database, DatabaseCommit, DatabaseRef};
    #[path = "@REPO@/crates/revm/src/db/emptydb.rs"]
    pub mod emptydb;
    #[path = "@REPO@/crates/revm/src/db/in_memory_db.rs"]
    pub mod in_memory_db;
    pub use emptydb::{EmptyDB, EmptyDBTyped};
    pub use in_memory_db::*;
}

#[cfg(kani)]
mod cachedb;
