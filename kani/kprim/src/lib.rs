//! Kani harnesses on the real `revm-primitives` crate (path dependency on /repo).
#![allow(unused)]
#[cfg(kani)]
mod c27 {
    use revm_primitives::{Address, Bytecode, Bytes, Eip7702Bytecode};

    /// C27 / EIP-7702: for ALL 2^160 addresses, `new(a)` stores exactly `ef 01 00 || a`,
    /// re-decoding the stored bytes gives the same object, and the address reads back.
    /// Loops are constant-bounded (23 bytes) => complete over the full domain.
    #[kani::proof]
    #[kani::unwind(25)]
    fn eip7702_new_roundtrip() {
        let raw_addr: [u8; 20] = kani::any();
        let a = Address::new(raw_addr);
        let bc = Eip7702Bytecode::new(a);
        kani::cover!(raw_addr[0] == 0xab && raw_addr[19] == 0x01);
        assert!(bc.raw().len() == 23);
        assert!(bc.raw()[0] == 0xef && bc.raw()[1] == 0x01 && bc.raw()[2] == 0x00);
        let mut i = 0;
        while i < 20 {
            assert!(bc.raw()[3 + i] == raw_addr[i]);
            i += 1;
        }
        assert!(bc.address() == a);
        assert!(bc.version == 0);
        let again = Eip7702Bytecode::new_raw(bc.raw().clone());
        match again {
            Ok(b2) => {
                assert!(b2.address() == a);
                assert!(b2.raw().len() == 23);
                assert!(b2.version == 0);
            }
            Err(_) => assert!(false),
        }
    }
}
