//! C22: "disabling the beneficiary reward ... persists across every later reconfiguration of the
//! handler".  Contract on each reconfiguration function of the REAL `Handler`:
//!     ensures final.post_execution.reward_beneficiary.is_some() == old.….is_some()
//! and on the constructors: is_some() == flag.  The flag is symbolic; spec ids are enumerated by
//! the harness instances (the functions contain no data-dependent loop besides the register list,
//! which is fixed per instance) => complete for the stated configurations.
use revm::db::EmptyDB;
use revm::handler::register::{EvmHandler, HandleRegister};
use revm::primitives::{CancunSpec, HandlerCfg, SpecId};
use revm::Handler;

type H<'a> = EvmHandler<'a, (), EmptyDB>;

fn noop_register(_h: &mut EvmHandler<'_, (), EmptyDB>) {}

#[kani::proof]
#[kani::unwind(4)]
fn constructors_honour_flag() {
    let flag: bool = kani::any();
    let h: H<'_> = Handler::mainnet::<CancunSpec>(flag);
    kani::cover!(!flag);
    assert!(h.post_execution.reward_beneficiary.is_some() == flag);
    let h2: H<'_> = Handler::mainnet_with_spec(SpecId::SHANGHAI, flag);
    assert!(h2.post_execution.reward_beneficiary.is_some() == flag);
}

#[kani::proof]
#[kani::unwind(4)]
fn modify_spec_id_keeps_flag() {
    let flag: bool = kani::any();
    let mut h: H<'_> = Handler::mainnet_with_spec(SpecId::CANCUN, flag);
    h.modify_spec_id(SpecId::SHANGHAI);
    kani::cover!(!flag);
    assert!(h.cfg.spec_id == SpecId::SHANGHAI);
    assert!(h.post_execution.reward_beneficiary.is_some() == flag);
}

#[kani::proof]
#[kani::unwind(4)]
fn modify_spec_id_same_spec_keeps_flag() {
    let flag: bool = kani::any();
    let mut h: H<'_> = Handler::mainnet_with_spec(SpecId::CANCUN, flag);
    h.modify_spec_id(SpecId::CANCUN);
    kani::cover!(!flag);
    assert!(h.post_execution.reward_beneficiary.is_some() == flag);
}

#[kani::proof]
#[kani::unwind(4)]
fn append_register_keeps_flag() {
    let flag: bool = kani::any();
    let mut h: H<'_> = Handler::mainnet_with_spec(SpecId::CANCUN, flag);
    h.append_handler_register_plain(noop_register);
    kani::cover!(!flag);
    assert!(h.post_execution.reward_beneficiary.is_some() == flag);
}

#[kani::proof]
#[kani::unwind(4)]
fn pop_register_keeps_flag() {
    let flag: bool = kani::any();
    let mut h: H<'_> = Handler::mainnet_with_spec(SpecId::CANCUN, flag);
    h.append_handler_register_plain(noop_register);
    h.append_handler_register_plain(noop_register);
    let popped = h.pop_handle_register();
    kani::cover!(!flag);
    assert!(popped.is_some());
    assert!(h.registers.len() == 1);
    assert!(h.post_execution.reward_beneficiary.is_some() == flag);
}

#[kani::proof]
#[kani::unwind(4)]
fn create_handle_generic_keeps_flag() {
    let flag: bool = kani::any();
    let mut h: H<'_> = Handler::mainnet_with_spec(SpecId::SHANGHAI, flag);
    h.append_handler_register_plain(noop_register);
    let h2 = h.create_handle_generic::<CancunSpec>();
    kani::cover!(!flag);
    assert!(h2.post_execution.reward_beneficiary.is_some() == flag);
}
