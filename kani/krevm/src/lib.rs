//! Kani harnesses on the real `revm` crate (path dependency on /repo).
#![allow(unused)]
#[cfg(kani)]
mod c22;
