//! Kani harnesses on the REAL text of crates/revm/src/journaled_state.rs (C06 / C34).
//! kani-compiler 0.68 cannot build crate `revm` (internal compiler error), so this crate does not depend on it:
//! the file is compiled in place through `#[path]` -- no copy, no text transformation -- and the two module paths
//! it imports from are the real revm-interpreter / revm-primitives crates.
#![allow(unused)]
pub use revm_interpreter as interpreter; // the file says `crate::interpreter::{...}`
pub use revm_interpreter::primitives; // `crate::primitives::{...}`

#[path = "@REPO@/crates/revm/src/journaled_state.rs"]
pub mod journaled_state;

#[cfg(kani)]
mod c06;
