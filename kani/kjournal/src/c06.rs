use crate::journaled_state::{JournalCheckpoint, JournalEntry, JournaledState};
use crate::primitives::{Account, AccountInfo, Address, HashSet, SpecId, U256, KECCAK_EMPTY};

const A: Address = Address::new([0xA1; 20]);

fn any_u256() -> U256 { U256::from_limbs(kani::any()) }
fn limbs_eq(a: &U256, b: &U256) -> bool { a.as_limbs() == b.as_limbs() }

fn any_account() -> Account {
    let info = AccountInfo { balance: any_u256(), nonce: kani::any(), code_hash: KECCAK_EMPTY, code: None };
    Account::from(info)
}

/// std's RandomState::new() draws its SipHash keys from the OS (a foreign call Kani cannot model; the keys would be
/// symbolic and every bucket index with them).  Stub: fixed keys (0, 0).  RandomState is two u64 (k0, k1).
fn fixed_random_state() -> std::collections::hash_map::RandomState {
    unsafe { core::mem::transmute::<[u64; 2], std::collections::hash_map::RandomState>([0u64, 0u64]) }
}

#[kani::proof]
#[kani::unwind(5)]
#[kani::stub(std::collections::hash_map::RandomState::new, fixed_random_state)]
fn probe_min() {
    let mut js = JournaledState::new(SpecId::CANCUN, HashSet::default());
    let acc = any_account();
    let b0 = acc.info.balance;
    let n0 = acc.info.nonce;
    core::mem::forget(js.state.insert(A, acc));
    let d0 = js.depth;
    let j0 = js.journal.len();
    let cp = js.checkpoint();
    let r = js.inc_nonce(A);
    kani::cover!(r.is_some());
    js.checkpoint_revert(cp);
    assert!(js.depth == d0);
    assert!(js.journal.len() == j0);
    let a = js.state.get(&A).unwrap();
    assert!(a.info.nonce == n0);
    assert!(limbs_eq(&a.info.balance, &b0));
    assert!(!a.is_touched());
    core::mem::forget(js);
}
