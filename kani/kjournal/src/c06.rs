//! C06 / C34 / C07: BOUNDED Kani stand-ins for what unit `journal` (Verus) ASSUMES about journaled_state.rs:
//!   * the driver of `JournaledState::checkpoint_revert` (contract `revert_post` in contracts/journal.vc):
//!     `iter_mut().rev().take(n).for_each(closure capturing &mut ..)`, `logs.truncate`, `journal.truncate`, `depth -= 1`;
//!   * `JournaledState::initial_account_load` (generic `impl IntoIterator` loop);
//!   * the early returns of `create_account_checkpoint` through `checkpoint_revert` (depth / journal pairing, C07).
//!
//! Cost notes (measured, see mutations/C06/README.md):
//!   * std's `RandomState::new()` takes its SipHash keys from the OS (a foreign call Kani cannot model): every harness
//!     stubs it with FIXED keys (0, 0).  With symbolic keys even `checkpoint(); inc_nonce(a); checkpoint_revert(cp)` on a
//!     one-account state does not finish in 15 minutes.
//!   * symbolic execution cannot resolve hashbrown's probe loops nor the discriminant of a journal entry read back from
//!     the heap, so the REAL `journal_revert` costs ~12 table lookups per entry plus the drop glue of `Option<Bytecode>`
//!     (`CodeChange` arm).  The driver harnesses therefore replace the PRIVATE `journal_revert` -- which unit `journal`
//!     PROVES against `undo_all`, every arm -- by a recorder (`kani::stub`) and check the driver's CALL PROTOCOL:
//!     exactly what `revert_post` assumes beyond the proved `journal_revert` contract (lemma_undo_levels: undoing the
//!     levels journal[journal_i..] last level first IS undo_all of their concatenation).
#![allow(static_mut_refs)]
use crate::journaled_state::{JournalCheckpoint, JournalEntry, JournaledState};
use crate::interpreter::InstructionResult;
use crate::primitives::{
    db::Database, hash_map::Entry, Account, AccountInfo, AccountStatus, Address, Bytecode, Bytes, EvmState, EvmStorageSlot, HashMap,
    HashSet, Log, LogData, SpecId, TransientStorage, B256, KECCAK_EMPTY, U256,
};
use std::collections::hash_map::RandomState;

// ------------------------------------------------------------------------------------------------ stubs
/// RandomState is two u64 (k0, k1): fixed keys instead of the OS random source.
fn fixed_random_state() -> RandomState {
    unsafe { core::mem::transmute::<[u64; 2], RandomState>([0u64, 0u64]) }
}

/// Recorder standing in for the private `JournaledState::journal_revert(state, transient, entries, is_spurious_dragon)`:
/// it keeps the arguments of every call, in call order, and touches neither the state nor the transient storage.
const MAX_CALLS: usize = 5;
const NO_CALL: Option<(Vec<JournalEntry>, bool)> = None;
static mut REC: [Option<(Vec<JournalEntry>, bool)>; MAX_CALLS] = [NO_CALL; MAX_CALLS];
static mut REC_N: usize = 0;
fn recording_journal_revert(_state: &mut EvmState, _transient: &mut TransientStorage, entries: Vec<JournalEntry>, sd: bool) {
    unsafe {
        assert!(REC_N < MAX_CALLS, "journal_revert called more often than there are levels");
        REC[REC_N] = Some((entries, sd));
        REC_N += 1;
    }
}

// ------------------------------------------------------------------------------------------------ helpers
fn any_u256() -> U256 {
    U256::from_limbs(kani::any())
}
fn limbs_eq(a: &U256, b: &U256) -> bool {
    let (a, b) = (a.as_limbs(), b.as_limbs());
    a[0] == b[0] && a[1] == b[1] && a[2] == b[2] && a[3] == b[3]
}
fn addr(id: u8) -> Address {
    Address::new([id; 20])
}
fn addr_id(a: &Address) -> u8 {
    a.0[0]
}

/// EIP-161 (state clearing) is active from Spurious Dragon on: every fork except the five before it.  Written from the
/// fork list, not from the numeric order `SpecId::enabled` uses.
fn eip161_active(spec: SpecId) -> bool {
    !matches!(spec, SpecId::FRONTIER | SpecId::FRONTIER_THAWING | SpecId::HOMESTEAD | SpecId::DAO_FORK | SpecId::TANGERINE)
}

/// a journal entry that carries the identity `id` (in its address) and a payload word; three different variants
fn entry(id: u8, w: u64) -> JournalEntry {
    match id % 3 {
        0 => JournalEntry::NonceChange { address: addr(id) },
        1 => JournalEntry::StorageChanged { address: addr(id), key: U256::from_limbs([7, 0, 0, 0]), had_value: U256::from_limbs([w, 0, 0, 1]) },
        _ => JournalEntry::BalanceTransfer { from: addr(id), to: addr(id ^ 0x80), balance: U256::from_limbs([w, 0, 0, 0]) },
    }
}
/// (identity, payload) of an entry built by `entry`
fn entry_tag(e: &JournalEntry) -> (u8, u64) {
    match e {
        JournalEntry::NonceChange { address } => (addr_id(address), 0),
        JournalEntry::StorageChanged { address, had_value, .. } => (addr_id(address), had_value.as_limbs()[0]),
        JournalEntry::BalanceTransfer { from, balance, .. } => (addr_id(from), balance.as_limbs()[0]),
        _ => (0xFF, 0),
    }
}
fn same_entries(a: &[JournalEntry], b: &[JournalEntry]) -> bool {
    if a.len() != b.len() {
        return false;
    }
    let mut i = 0;
    while i < a.len() {
        let (x, y) = (entry_tag(&a[i]), entry_tag(&b[i]));
        if x.0 != y.0 || x.1 != y.1 || (x.0 % 3 == 0) != matches!(a[i], JournalEntry::NonceChange { .. }) {
            return false;
        }
        i += 1;
    }
    true
}
fn log_of(id: u8) -> Log {
    Log { address: addr(id), data: LogData::new_unchecked(Vec::new(), Bytes::new()) }
}

/// push `n` fresh entries (n <= 2) on the last journal level, the way every operation journals (`journal.last_mut().push`)
fn push_entries(js: &mut JournaledState, n: usize, next_id: &mut u8, w: u64) {
    let mut i = 0;
    while i < n {
        js.journal.last_mut().unwrap().push(entry(*next_id, w));
        *next_id += 1;
        i += 1;
    }
}
fn push_logs(js: &mut JournaledState, n: usize, next_id: &mut u8) {
    let mut i = 0;
    while i < n {
        js.log(log_of(*next_id));
        *next_id += 1;
        i += 1;
    }
}
fn count() -> usize {
    let n: usize = kani::any();
    kani::assume(n <= 2);
    n
}

// ------------------------------------------------------------------------------------------------ (1) the driver
/// `checkpoint_revert(cp)` -- CALL PROTOCOL and bookkeeping, for every fork and every shape within the bound:
/// the journal holds 1 or 2 levels when `cp = checkpoint()` is taken (0..=2 entries each, 0..=2 logs), afterwards
/// 0..=2 entries on cp's own level, then 0..=2 inner frames (each `checkpoint()`, 0..=2 entries, 0..=1 log, then
/// `checkpoint_commit()` -- or left OPEN when `inner_open`), 0..=2 more entries after each inner frame on the level that
/// is then last... (entries always go to `journal.last_mut()`, as in every operation).
/// Checked against `revert_post` (contracts/journal.vc), with `journal_revert` replaced by the recorder:
///  * journal_revert is called once per level of journal[journal_i..], LAST LEVEL FIRST, each time with exactly that
///    level's entries (in order) and with the EIP-161 flag of `spec`;  nothing else touches state / transient storage;
///  * journal == old journal[..journal_i] (levels below the checkpoint keep their entries);
///  * logs == old logs[..log_i];   depth == old depth - 1;   spec and the pre-warmed set unchanged.
#[kani::proof]
#[kani::unwind(8)]
#[kani::stub(std::collections::hash_map::RandomState::new, fixed_random_state)]
#[kani::stub(crate::journaled_state::JournaledState::journal_revert, recording_journal_revert)]
fn driver_protocol() {
    let spec_byte: u8 = kani::any();
    let spec = match SpecId::try_from_u8(spec_byte) {
        Some(s) => s,
        None => {
            kani::assume(false);
            unreachable!()
        }
    };
    let mut js = JournaledState::new(spec, HashSet::default());
    let mut id: u8 = 1;
    let w: u64 = kani::any();

    // ---- before the checkpoint: level 0 (from `new`) and possibly an open outer frame
    push_entries(&mut js, count(), &mut id, w);
    push_logs(&mut js, count(), &mut id);
    let outer: bool = kani::any();
    if outer {
        let _ = js.checkpoint();
        push_entries(&mut js, count(), &mut id, w);
    }

    // ---- the checkpoint under test
    let depth0 = js.depth;
    let journal_i = js.journal.len();
    let log_i = js.logs.len();
    let cp = js.checkpoint();
    push_entries(&mut js, count(), &mut id, w);
    push_logs(&mut js, count(), &mut id);

    // ---- inner frames (committed, or left open)
    let inner = count();
    let inner_open: bool = kani::any();
    let mut k = 0;
    while k < inner {
        let _ = js.checkpoint();
        push_entries(&mut js, count(), &mut id, w);
        let lg: bool = kani::any();
        if lg {
            push_logs(&mut js, 1, &mut id);
        }
        if !inner_open {
            js.checkpoint_commit();
        }
        k += 1;
    }
    if !inner_open {
        assert!(js.depth == depth0 + 1);
    }

    // ---- snapshot (own copy of the tags of every level / log)
    let levels_before = js.journal.len();
    assert!(levels_before == journal_i + 1 + inner);
    let mut tags: [[(u8, u64); 2]; 5] = [[(0, 0); 2]; 5];
    let mut lens: [usize; 5] = [0; 5];
    let mut l = 0;
    while l < levels_before {
        lens[l] = js.journal[l].len();
        let mut e = 0;
        while e < lens[l] {
            tags[l][e] = entry_tag(&js.journal[l][e]);
            e += 1;
        }
        l += 1;
    }
    let mut log_ids: [u8; 2] = [0; 2];
    let mut i = 0;
    while i < log_i {
        log_ids[i] = addr_id(&js.logs[i].address);
        i += 1;
    }
    let depth_pre = js.depth;
    let warm_len = js.warm_preloaded_addresses.len();

    js.checkpoint_revert(cp);

    // ---- revert_post
    assert!(js.depth == depth_pre - 1);
    if !inner_open {
        assert!(js.depth == depth0);
    }
    assert!(js.spec == spec);
    assert!(js.warm_preloaded_addresses.len() == warm_len);
    assert!(js.state.is_empty() && js.transient_storage.is_empty());
    // journal cut back to the checkpoint, lower levels intact
    assert!(js.journal.len() == journal_i);
    let mut l = 0;
    while l < journal_i {
        assert!(js.journal[l].len() == lens[l]);
        let mut e = 0;
        while e < lens[l] {
            let t = entry_tag(&js.journal[l][e]);
            assert!(t.0 == tags[l][e].0 && t.1 == tags[l][e].1);
            e += 1;
        }
        l += 1;
    }
    // logs cut back
    assert!(js.logs.len() == log_i);
    let mut i = 0;
    while i < log_i {
        assert!(addr_id(&js.logs[i].address) == log_ids[i]);
        i += 1;
    }
    // journal_revert: once per level above the checkpoint, last level first, that level's entries, the fork's EIP-161 flag
    let calls = unsafe { REC_N };
    assert!(calls == levels_before - journal_i);
    let mut c = 0;
    while c < calls {
        let l = levels_before - 1 - c;
        let (entries, sd) = unsafe { REC[c].as_ref().unwrap() };
        assert!(*sd == eip161_active(spec));
        assert!(entries.len() == lens[l]);
        let mut e = 0;
        while e < lens[l] {
            let t = entry_tag(&entries[e]);
            assert!(t.0 == tags[l][e].0 && t.1 == tags[l][e].1);
            e += 1;
        }
        c += 1;
    }
    kani::cover!(inner == 2 && !inner_open && outer && lens[journal_i] == 2 && lens[journal_i + 2] == 1 && log_i == 2);
    kani::cover!(inner == 0 && lens[journal_i] == 0 && !eip161_active(spec));
    core::mem::forget(js);
}
