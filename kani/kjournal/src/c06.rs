//! C06 / C34 / C07: BOUNDED Kani stand-ins for what unit `journal` (Verus) ASSUMES about journaled_state.rs:
//!   * the driver of `JournaledState::checkpoint_revert` (contract `revert_post` in contracts/journal.vc):
//!     `iter_mut().rev().take(n).for_each(closure capturing &mut ..)`, `logs.truncate`, `journal.truncate`, `depth -= 1`;
//!   * `JournaledState::initial_account_load` (generic `impl IntoIterator` loop);
//!   * the early returns of `create_account_checkpoint` through `checkpoint_revert` (depth / journal pairing, C07).
//!
//! Cost notes (measured, see mutations/C06/README.md):
//!   * std's `RandomState::new()` takes its SipHash keys from the OS (a foreign call Kani cannot model): every harness
//!     stubs it with FIXED keys (0, 0).  With symbolic keys even `checkpoint(); inc_nonce(a); checkpoint_revert(cp)` on a
//!     one-account state does not finish in 15 minutes.
//!   * symbolic execution cannot resolve hashbrown's probe loops nor the discriminant of a journal entry read back from
//!     the heap, so the REAL `journal_revert` costs ~12 table lookups per entry plus the drop glue of `Option<Bytecode>`
//!     (`CodeChange` arm).  The driver harnesses therefore replace the PRIVATE `journal_revert` -- which unit `journal`
//!     PROVES against `undo_all`, every arm -- by a recorder (`kani::stub`) and check the driver's CALL PROTOCOL:
//!     exactly what `revert_post` assumes beyond the proved `journal_revert` contract (lemma_undo_levels: undoing the
//!     levels journal[journal_i..] last level first IS undo_all of their concatenation).
#![allow(static_mut_refs)]
use crate::journaled_state::{JournalCheckpoint, JournalEntry, JournaledState};
use crate::interpreter::InstructionResult;
use crate::primitives::{
    db::Database, hash_map::Entry, Account, AccountInfo, AccountStatus, Address, Bytecode, Bytes, EvmState, EvmStorageSlot, HashMap,
    HashSet, Log, LogData, SpecId, TransientStorage, B256, KECCAK_EMPTY, U256,
};
use std::collections::hash_map::RandomState;

// ------------------------------------------------------------------------------------------------ stubs
/// RandomState is two u64 (k0, k1): fixed keys instead of the OS random source.
fn fixed_random_state() -> RandomState {
    unsafe { core::mem::transmute::<[u64; 2], RandomState>([0u64, 0u64]) }
}

/// `bytes::Bytes::drop` calls through the function pointer `vtable.drop`; CBMC has to consider every candidate (shared /
/// promotable / owned buffers, atomics, `free` of an unknown pointer): dropping ONE empty `Log` costs gigabytes.  The logs
/// used here carry `Bytes::new()` (static, nothing to free): dropping them is a no-op in the real code as well.
fn bytes_drop_noop(_b: &mut bytes::Bytes) {}

/// Recorder standing in for the private `JournaledState::journal_revert(state, transient, entries, is_spurious_dragon)`.
/// It touches neither the state nor the transient storage and keeps, per call and in call order: the number of entries,
/// the flag, WHICH level's buffer it was handed (the driver moves each level out with `mem::take`, so the buffer address
/// identifies the level; the harness registers the addresses in LEVEL_PTR before the revert) and the tags of the entries
/// found there at the moment of the call.  The entries are read through the harness's own registered pointer: reading
/// through the Vec the driver passes costs > 10 GB (its data pointer was loaded from `journal` at an offset that
/// symbolic execution cannot resolve, so CBMC dereferences it against every object).
const MAX_CALLS: usize = 5;
const NO_LEVEL: usize = usize::MAX;
static mut LEVEL_PTR: [*const JournalEntry; ML] = [core::ptr::null(); ML];
static mut LEVEL_LEN: [usize; ML] = [0; ML];
static mut REC_LEN: [usize; MAX_CALLS] = [0; MAX_CALLS];
static mut REC_LEVEL: [usize; MAX_CALLS] = [NO_LEVEL; MAX_CALLS];
static mut REC_TAGS: [[(u8, u64); ME]; MAX_CALLS] = [[(0, 0); ME]; MAX_CALLS];
static mut REC_SD: [bool; MAX_CALLS] = [false; MAX_CALLS];
static mut REC_N: usize = 0;
fn recording_journal_revert(_state: &mut EvmState, _transient: &mut TransientStorage, entries: Vec<JournalEntry>, sd: bool) {
    unsafe {
        assert!(REC_N < MAX_CALLS, "journal_revert called more often than there are levels");
        REC_LEN[REC_N] = entries.len();
        REC_SD[REC_N] = sd;
        if entries.len() != 0 {
            for l in 0..ML {
                if LEVEL_LEN[l] != 0 && LEVEL_PTR[l] == entries.as_ptr() {
                    REC_LEVEL[REC_N] = l;
                    for e in 0..ME {
                        if e < LEVEL_LEN[l] {
                            REC_TAGS[REC_N][e] = entry_tag(&*LEVEL_PTR[l].add(e));
                        }
                    }
                }
            }
        }
        REC_N += 1;
    }
    core::mem::forget(entries);
}

// ------------------------------------------------------------------------------------------------ helpers
fn any_u256() -> U256 {
    U256::from_limbs(kani::any())
}
fn limbs_eq(a: &U256, b: &U256) -> bool {
    let (a, b) = (a.as_limbs(), b.as_limbs());
    a[0] == b[0] && a[1] == b[1] && a[2] == b[2] && a[3] == b[3]
}
fn addr(id: u8) -> Address {
    Address::new([id; 20])
}
fn addr_id(a: &Address) -> u8 {
    a.0[0]
}

/// EIP-161 (state clearing) is active from Spurious Dragon on: every fork except the five before it.  Written from the
/// fork list, not from the numeric order `SpecId::enabled` uses.
fn eip161_active(spec: SpecId) -> bool {
    !matches!(spec, SpecId::FRONTIER | SpecId::FRONTIER_THAWING | SpecId::HOMESTEAD | SpecId::DAO_FORK | SpecId::TANGERINE)
}

/// a journal entry that carries the identity `id` (in its address) and a payload word; three different variants
fn entry(id: u8, w: u64) -> JournalEntry {
    match id % 3 {
        0 => JournalEntry::NonceChange { address: addr(id) },
        1 => JournalEntry::StorageChanged { address: addr(id), key: U256::from_limbs([7, 0, 0, 0]), had_value: U256::from_limbs([w, 0, 0, 1]) },
        _ => JournalEntry::BalanceTransfer { from: addr(id), to: addr(id ^ 0x80), balance: U256::from_limbs([w, 0, 0, 0]) },
    }
}
/// (identity, payload) of an entry built by `entry`
fn entry_tag(e: &JournalEntry) -> (u8, u64) {
    match e {
        JournalEntry::NonceChange { address } => (addr_id(address), 0),
        JournalEntry::StorageChanged { address, had_value, .. } => (addr_id(address), had_value.as_limbs()[0]),
        JournalEntry::BalanceTransfer { from, balance, .. } => (addr_id(from), balance.as_limbs()[0]),
        _ => (0xFF, 0),
    }
}
fn log_of(id: u8) -> Log {
    Log { address: addr(id), data: LogData::new_unchecked(Vec::new(), Bytes::new()) }
}

/// What the harness itself pushed, kept in plain arrays at CONCRETE positions (lengths read back from a Vec on the heap
/// are not constants for symbolic execution: loops over them would be unrolled up to the unwinding bound).
const ML: usize = 6; // levels
const ME: usize = 4; // entries per level
const MLOG: usize = 6;
struct Shadow {
    tags: [[(u8, u64); ME]; ML],
    lens: [usize; ML],
    levels: usize,
    logs: [u8; MLOG],
    nlogs: usize,
    next_id: u8,
}
impl Shadow {
    fn new() -> Self {
        Shadow { tags: [[(0, 0); ME]; ML], lens: [0; ML], levels: 1, logs: [0; MLOG], nlogs: 0, next_id: 1 }
    }
    /// push `n` fresh entries on the last journal level, the way every operation journals (`journal.last_mut().push`)
    fn push_entries(&mut self, js: &mut JournaledState, n: usize, w: u64) {
        let l = self.levels - 1;
        for _ in 0..n {
            js.journal.last_mut().unwrap().push(entry(self.next_id, w));
            self.tags[l][self.lens[l]] = (self.next_id, if self.next_id % 3 == 0 { 0 } else { w });
            self.lens[l] += 1;
            self.next_id += 1;
        }
    }
    fn push_logs(&mut self, js: &mut JournaledState, n: usize) {
        for _ in 0..n {
            js.log(log_of(self.next_id));
            self.logs[self.nlogs] = self.next_id;
            self.nlogs += 1;
            self.next_id += 1;
        }
    }
    fn checkpoint(&mut self, js: &mut JournaledState) -> JournalCheckpoint {
        self.levels += 1;
        js.checkpoint()
    }
}

/// `JournaledState::new(spec, {})` with `journal` and `logs` moved into buffers of capacity 6 that come from a `vec![..]`
/// literal.  Same VALUE as `new` gives (one empty level, no logs); only the capacities differ.  Why: a `vec![..]` literal
/// is a typed allocation whose contents symbolic execution tracks field by field, while a buffer grown by `Vec::push` is
/// an untyped byte array: a level header (`Vec { cap, ptr, len }`) read back from it is not a constant, the first `push`
/// on that level then allocates a buffer of SYMBOLIC size, and any read of an entry costs > 10 GB (measured: 4 lines,
/// `checkpoint(); push; push; read` -- no verdict in 200 s; with this constructor 14 s).
fn new_journaled_state(spec: SpecId) -> JournaledState {
    let mut js = JournaledState::new(spec, HashSet::default());
    assert!(js.journal.len() == 1 && js.journal[0].is_empty() && js.logs.is_empty() && js.depth == 0);
    let mut j: Vec<Vec<JournalEntry>> = vec![vec![], vec![], vec![], vec![], vec![], vec![]];
    j.truncate(1);
    core::mem::forget(core::mem::replace(&mut js.journal, j));
    let mut lg: Vec<Log> = vec![log_of(0), log_of(0), log_of(0), log_of(0), log_of(0), log_of(0)];
    unsafe { lg.set_len(0) }; // the six placeholder logs own nothing (empty topics, static empty data)
    core::mem::forget(core::mem::replace(&mut js.logs, lg));
    // the two maps: still EMPTY, but allocated up front (room for 7 entries).  A map that grows from the empty singleton
    // goes through `resize` + a byte-wise `mem::swap` of the table header; afterwards `growth_left` is no constant any more
    // and every later insert explores the whole rehash machinery (measured: two inserts, no verdict in 15 min).
    core::mem::forget(core::mem::replace(&mut js.state, HashMap::with_capacity_and_hasher(4, fixed_random_state())));
    core::mem::forget(core::mem::replace(&mut js.transient_storage, HashMap::with_capacity_and_hasher(4, fixed_random_state())));
    js
}

// ------------------------------------------------------------------------------------------------ (1) the driver
/// `checkpoint_revert(cp)` -- CALL PROTOCOL and bookkeeping, for every fork, on ONE CONCRETE SHAPE per harness (a symbolic
/// shape -- symbolic Vec lengths -- went past 12 GB): `pre` = entries on each level open when `cp = checkpoint()` is
/// taken (level 0 comes from `new`, further ones from `checkpoint()`), `logs0` logs before, `own` entries and `logs1` logs
/// on cp's own level, then the inner frames `inner[k] = (entries, logs)`: `checkpoint()`, entries, logs, and
/// `checkpoint_commit()` unless `inner_open`; `tail` more entries after the inner frames (they land on the last level:
/// entries always go to `journal.last_mut()`, as in every operation).  Entry payloads and the fork are symbolic.
/// Checked against `revert_post` (contracts/journal.vc), with `journal_revert` replaced by the recorder:
///  * journal_revert is called once per level of journal[journal_i..], LAST LEVEL FIRST, each time with exactly that
///    level's entries (that level's buffer, its length, its contents in order at the moment of the call) and with the
///    EIP-161 flag of `spec`;  nothing else touches state / transient storage;
///  * journal == old journal[..journal_i] (levels below the checkpoint keep their entries);
///  * logs == old logs[..log_i];   depth == old depth - 1;   spec and the pre-warmed set unchanged.
fn driver_case(pre: &[usize], logs0: usize, own: usize, logs1: usize, inner: &[(usize, usize)], inner_open: bool, tail: usize) {
    let spec_byte: u8 = kani::any();
    let spec = match SpecId::try_from_u8(spec_byte) {
        Some(s) => s,
        None => {
            kani::assume(false);
            unreachable!()
        }
    };
    let mut js = new_journaled_state(spec);
    let mut sh = Shadow::new();
    let w: u64 = kani::any();

    // ---- before the checkpoint
    sh.push_entries(&mut js, pre[0], w);
    sh.push_logs(&mut js, logs0);
    for l in 1..pre.len() {
        let _ = sh.checkpoint(&mut js);
        sh.push_entries(&mut js, pre[l], w);
    }

    // ---- the checkpoint under test
    let depth0 = pre.len() - 1;
    let journal_i = pre.len();
    let log_i = logs0;
    assert!(js.journal.len() == journal_i && js.logs.len() == log_i && js.depth == depth0);
    let cp = sh.checkpoint(&mut js);
    sh.push_entries(&mut js, own, w);
    sh.push_logs(&mut js, logs1);

    // ---- inner frames (committed, or left open)
    for k in 0..inner.len() {
        let _ = sh.checkpoint(&mut js);
        sh.push_entries(&mut js, inner[k].0, w);
        sh.push_logs(&mut js, inner[k].1);
        if !inner_open {
            js.checkpoint_commit();
        }
    }
    sh.push_entries(&mut js, tail, w);
    let depth_pre = if inner_open { depth0 + 1 + inner.len() } else { depth0 + 1 };
    assert!(js.depth == depth_pre);
    let levels_before = sh.levels;
    assert!(js.journal.len() == levels_before && levels_before == journal_i + 1 + inner.len());
    let warm_len = js.warm_preloaded_addresses.len();
    // register the buffers of the levels (concrete indices: these loads are resolved)
    for l in 0..levels_before {
        assert!(js.journal[l].len() == sh.lens[l]);
        unsafe {
            LEVEL_PTR[l] = js.journal[l].as_ptr();
            LEVEL_LEN[l] = sh.lens[l];
        }
    }

    js.checkpoint_revert(cp);

    // ---- revert_post
    assert!(js.depth == depth_pre - 1);
    assert!(js.spec == spec);
    assert!(js.warm_preloaded_addresses.len() == warm_len);
    assert!(js.state.is_empty() && js.transient_storage.is_empty());
    // journal cut back to the checkpoint, lower levels intact
    assert!(js.journal.len() == journal_i);
    for l in 0..journal_i {
        assert!(js.journal[l].len() == sh.lens[l]);
        for e in 0..sh.lens[l] {
            let t = entry_tag(&js.journal[l][e]);
            assert!(t.0 == sh.tags[l][e].0 && t.1 == sh.tags[l][e].1);
        }
    }
    // logs cut back
    assert!(js.logs.len() == log_i);
    for i in 0..log_i {
        assert!(addr_id(&js.logs[i].address) == sh.logs[i]);
    }
    // journal_revert: once per level above the checkpoint, last level first, that level's entries, the fork's EIP-161 flag
    let calls = unsafe { REC_N };
    assert!(calls == levels_before - journal_i);
    for c in 0..(levels_before - journal_i) {
        let l = levels_before - 1 - c;
        assert!(unsafe { REC_SD[c] } == eip161_active(spec));
        assert!(unsafe { REC_LEN[c] } == sh.lens[l]);
        assert!(unsafe { REC_LEVEL[c] } == if sh.lens[l] == 0 { NO_LEVEL } else { l });
        for e in 0..sh.lens[l] {
            let t = unsafe { REC_TAGS[c][e] };
            assert!(t.0 == sh.tags[l][e].0 && t.1 == sh.tags[l][e].1);
        }
    }
    kani::cover!(!eip161_active(spec));
    kani::cover!(spec_byte == 17 && w == 5);
    core::mem::forget(js);
}

macro_rules! driver_harness {
    ($name:ident, $unwind:literal, $pre:expr, $logs0:expr, $own:expr, $logs1:expr, $inner:expr, $open:expr, $tail:expr) => {
        #[kani::proof]
        #[kani::unwind($unwind)]
        #[kani::stub(std::collections::hash_map::RandomState::new, fixed_random_state)]
        #[kani::stub(crate::journaled_state::JournaledState::journal_revert, recording_journal_revert)]
        #[kani::stub(<bytes::Bytes as core::ops::Drop>::drop, bytes_drop_noop)]
        fn $name() {
            driver_case(&$pre, $logs0, $own, $logs1, &$inner, $open, $tail);
        }
    };
}
const NONE: [(usize, usize); 0] = [];
// one level above the checkpoint
driver_harness!(driver_1level, 8, [1], 1, 2, 1, NONE, false, 0);
// an outer frame is open; one committed inner frame; entries on cp's level before AND after the inner frame
driver_harness!(driver_inner_commit, 8, [1, 1], 1, 1, 1, [(2, 1)], false, 1);
// two committed inner frames, cp's own level EMPTY, second inner frame empty but logging
driver_harness!(driver_two_inner, 8, [0], 0, 0, 0, [(1, 0), (0, 1)], false, 0);
// reverting a level on which nothing happened
driver_harness!(driver_empty_level, 8, [2], 2, 0, 0, NONE, false, 0);
// inner frames left open (depth is only decremented once)
driver_harness!(driver_inner_open, 8, [1], 0, 1, 0, [(1, 1), (1, 0)], true, 0);
// three levels below the checkpoint stay intact
driver_harness!(driver_deep_outer, 8, [1, 2, 0], 2, 1, 2, [(1, 0)], false, 2);

// ------------------------------------------------------------------------------------------------ real state
const A: Address = Address::new([0xA1; 20]);
const B: Address = Address::new([0xB2; 20]);
const K1: U256 = U256::from_limbs([1, 0, 0, 0]);
const K2: U256 = U256::from_limbs([2, 0, 0, 0]);

/// insert through the entry API (the API the real load_account uses); no drop glue of `acc` on the impossible Occupied path
fn put(js: &mut JournaledState, a: Address, acc: Account) {
    match js.state.entry(a) {
        Entry::Vacant(v) => {
            v.insert(acc);
        }
        Entry::Occupied(_) => {
            core::mem::forget(acc);
            unreachable!()
        }
    }
}
fn status_of(touched: bool, cold: bool) -> AccountStatus {
    let mut s = AccountStatus::Loaded;
    if touched {
        s |= AccountStatus::Touched;
    }
    if cold {
        s |= AccountStatus::Cold;
    }
    s
}
/// an account without code and without storage: symbolic balance (below 2^255) and nonce
fn plain_account(touched: bool, cold: bool) -> Account {
    let mut limbs: [u64; 4] = kani::any();
    limbs[3] &= 0x7FFF_FFFF_FFFF_FFFF;
    Account {
        info: AccountInfo { balance: U256::from_limbs(limbs), nonce: kani::any(), code_hash: KECCAK_EMPTY, code: None },
        storage: HashMap::default(),
        status: status_of(touched, cold),
    }
}

// ------------------------------------------------------------------------------------------------ (3) create_account_checkpoint
/// C07 / C21: the `CreateCollision` exit of `create_account_checkpoint` pairs its `checkpoint()`: depth, |journal|,
/// |logs| are what they were, the level it opened is gone, the target account is untouched (balance, nonce, flags) and
/// `journal_revert` saw nothing but the empty level.
/// Bound: ONE account in the state (the target, concrete address, no code, empty storage, symbolic balance / nonce /
/// touched flag), symbolic `address_has_storage`, inputs restricted to the collision case (nonce != 0 or has_storage) --
/// the Ok path needs the caller in the state as well, and a second insert into a std HashMap makes CBMC explore the whole
/// rehash machinery (no verdict in 15 min).  An outer frame is open (depth 1, one log).
#[kani::proof]
#[kani::unwind(5)]
#[kani::stub(std::collections::hash_map::RandomState::new, fixed_random_state)]
#[kani::stub(crate::journaled_state::JournaledState::journal_revert, recording_journal_revert)]
#[kani::stub(<bytes::Bytes as core::ops::Drop>::drop, bytes_drop_noop)]
fn create_collision_exit() {
    let mut js = new_journaled_state(SpecId::CANCUN);
    let touched0: bool = kani::any();
    let target = plain_account(touched0, false);
    let (tb0, tn0) = (target.info.balance, target.info.nonce);
    put(&mut js, B, target);
    let _outer = js.checkpoint();
    js.log(log_of(9));
    let (d0, j0, l0) = (js.depth, js.journal.len(), js.logs.len());
    assert!(d0 == 1 && j0 == 2 && l0 == 1);

    let has_storage: bool = kani::any();
    kani::assume(tn0 != 0 || has_storage);
    let value = any_u256();

    let r = js.create_account_checkpoint(A, B, has_storage, value, SpecId::CANCUN);

    kani::cover!(has_storage && tn0 == 0);
    kani::cover!(!has_storage && tn0 == 7);
    assert!(matches!(r, Err(InstructionResult::CreateCollision)));
    assert!(js.depth == d0);
    assert!(js.journal.len() == j0);
    assert!(js.journal[0].is_empty() && js.journal[1].is_empty());
    assert!(js.logs.len() == l0);
    assert!(unsafe { REC_N } <= 1 && unsafe { REC_LEN[0] } == 0);
    let t = js.state.get(&B).unwrap();
    assert!(limbs_eq(&t.info.balance, &tb0) && t.info.nonce == tn0);
    assert!(!t.is_created() && t.is_touched() == touched0 && !t.status.contains(AccountStatus::Cold));
    core::mem::forget(js);
}

// ------------------------------------------------------------------------------------------------ (4) end to end
/// `revert_post` END TO END through the REAL `journal_revert`, on one account: an outer `checkpoint()`, `touch(A)` +
/// `inc_nonce(A)` on its level, an inner `checkpoint()` with a second `inc_nonce(A)` then `checkpoint_commit()`, a third
/// `inc_nonce(A)` after it, then `checkpoint_revert(outer)`: nonce, balance, touched mark, depth, |journal|, |logs| are
/// what they were when the checkpoint was taken.
#[kani::proof]
#[kani::unwind(5)]
#[kani::stub(std::collections::hash_map::RandomState::new, fixed_random_state)]
#[kani::stub(<bytes::Bytes as core::ops::Drop>::drop, bytes_drop_noop)]
fn e2e_nonce_two_levels() {
    let mut js = new_journaled_state(SpecId::CANCUN);
    let touched0: bool = kani::any();
    let acc = plain_account(touched0, false);
    let (b0, n0) = (acc.info.balance, acc.info.nonce);
    kani::assume(n0 < u64::MAX - 3);
    put(&mut js, A, acc);
    js.log(log_of(1));
    let (d0, j0, l0) = (js.depth, js.journal.len(), js.logs.len());

    let cp = js.checkpoint();
    js.touch(&A);
    let r1 = js.inc_nonce(A);
    js.log(log_of(2));
    let _inner = js.checkpoint();
    let r2 = js.inc_nonce(A);
    js.checkpoint_commit();
    let r3 = js.inc_nonce(A);
    assert!(r1 == Some(n0 + 1) && r2 == Some(n0 + 2) && r3 == Some(n0 + 3));
    assert!(js.depth == d0 + 1 && js.journal.len() == j0 + 2 && js.logs.len() == l0 + 1);
    kani::cover!(!touched0 && n0 == 5);

    js.checkpoint_revert(cp);

    assert!(js.depth == d0 && js.journal.len() == j0 && js.logs.len() == l0);
    let a = js.state.get(&A).unwrap();
    assert!(a.info.nonce == n0);
    assert!(limbs_eq(&a.info.balance, &b0));
    assert!(a.is_touched() == touched0);
    core::mem::forget(js);
}
