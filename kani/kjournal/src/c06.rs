//! C06: BOUNDED Kani stand-in for what unit `journal` (Verus) ASSUMES about `JournaledState::checkpoint_revert`
//! (contract `revert_post` in contracts/journal.vc): the DRIVER
//! `journal.iter_mut().rev().take(leng - journal_i).for_each(|cs| journal_revert(state, transient, mem::take(cs), flag))`,
//! `logs.truncate(log_i)`, `journal.truncate(journal_i)`, `depth -= 1`
//! -- an iterator-adapter chain whose closure captures `&mut`, outside Verus.  The file under test is the REAL
//! crates/revm/src/journaled_state.rs, compiled in place (see lib.rs).
//!
//! What is checked: the driver's CALL PROTOCOL and bookkeeping.  The PRIVATE `journal_revert` -- PROVED in unit `journal`
//! against `undo_all`, every arm -- is replaced (`kani::stub`) by a recorder; the harness then asserts exactly what
//! `revert_post` assumes beyond that proved contract: journal_revert is called once per level of journal[journal_i..],
//! LAST LEVEL FIRST, with that level's entries and the EIP-161 flag of `spec` (lemma_undo_levels: that IS undo_all of
//! the concatenation), the journal and the logs are cut back to the checkpoint, depth decreases by one, nothing else moves.
//!
//! What could NOT be done with Kani here (measured; details in mutations/C06/README.md):
//!   * anything that touches the real `state: HashMap<Address, Account>`: a std HashMap is an untyped hashbrown table,
//!     every access to a 200-byte `Account` in it is a symbolic-offset access.  `create_account_checkpoint`'s collision
//!     exit on a ONE-account state: no verdict in 15 min; two inserts: symbolic execution alone > 15 min (after the first
//!     insert `growth_left` is no constant any more and CBMC explores the whole rehash machinery).  Hence no harness for
//!     `initial_account_load`, for `create_account_checkpoint`, nor end to end through the real `journal_revert`.
//!   * `HashMap::get_mut` cannot be stubbed by a stand-in (Kani's signature check distinguishes named from elided
//!     lifetimes; a free function cannot have the elided form).
//!
//! Constructions that make the harnesses affordable / stable (each one measured):
//!   * std's `RandomState::new()` draws its SipHash keys from the OS (a foreign call): stubbed with fixed keys;
//!   * `journal` / `logs` are pre-sized and CBMC tracks their cells one by one (see `new_journaled_state`);
//!   * shapes are concrete, one per harness (symbolic Vec lengths: > 12 GB); payloads and the fork are symbolic;
//!   * the recorder's state is ONE static struct with a magic word (kani-compiler aliased a std constant with a plain
//!     `static mut usize`, see `Rec`).
#![allow(static_mut_refs)]
use crate::journaled_state::{JournalCheckpoint, JournalEntry, JournaledState};
use crate::primitives::{Address, Bytes, EvmState, HashSet, Log, LogData, SpecId, TransientStorage, U256};
use std::collections::hash_map::RandomState;

// ------------------------------------------------------------------------------------------------ stubs
/// RandomState is two u64 (k0, k1): fixed keys instead of the OS random source.
fn fixed_random_state() -> RandomState {
    unsafe { core::mem::transmute::<[u64; 2], RandomState>([0u64, 0u64]) }
}

/// `bytes::Bytes::drop` calls through the function pointer `vtable.drop`, which CBMC resolves against every candidate
/// (shared / promotable / owned buffers: atomics, `free`).  `logs.truncate` drops `Log`s; the logs used here carry
/// `Bytes::new()` (static vtable, nothing to free), for which the real drop is a no-op as well.  (A precaution taken while
/// hunting a memory blow-up whose cause turned out to be the untyped-buffer problem described at `new_journaled_state`;
/// its own cost was not measured in isolation.)
fn bytes_drop_noop(_b: &mut bytes::Bytes) {}

/// Recorder standing in for the private `JournaledState::journal_revert(state, transient, entries, is_spurious_dragon)`.
/// It touches neither the state nor the transient storage and keeps, per call and in call order: the number of entries,
/// the flag, WHICH level's buffer it was handed (the driver moves each level out with `mem::take`, so the buffer address
/// identifies the level; the harness registers the addresses in `level_ptr` before the revert) and the tags of the entries
/// found there at the moment of the call.  The entries are read through the harness's own registered pointer (an object
/// symbolic execution knows), not through the Vec the driver passes.
///
/// ONE static of a distinctive shape, starting with a magic word, on purpose: with separate `static mut X: usize = 0`
/// items kani-compiler 0.68 resolved an anonymous CONSTANT of std (the zero capacity in `alloc::raw_vec::new_cap`) to the
/// harness's mutable counter -- every `Vec::new()` then had capacity "number of calls so far" and `journal.truncate` freed
/// a dangling pointer.  Which global the constant was resolved to depended on the build directory (seen by diffing the
/// goto programs of two builds of the same source: one read `kjournal::global::33`, the other `c06::REC_N`).
const MAX_CALLS: usize = 5;
const NO_LEVEL: usize = usize::MAX;
const MAGIC: u64 = 0x6b6a_6f75_726e_616c;
struct Rec {
    magic: u64,
    n: usize,
    len: [usize; MAX_CALLS],
    level: [usize; MAX_CALLS],
    tags: [[(u8, u64); ME]; MAX_CALLS],
    sd: [bool; MAX_CALLS],
    level_ptr: [*const JournalEntry; ML],
    level_len: [usize; ML],
}
static mut R: Rec = Rec {
    magic: MAGIC,
    n: 0,
    len: [0; MAX_CALLS],
    level: [NO_LEVEL; MAX_CALLS],
    tags: [[(0, 0); ME]; MAX_CALLS],
    sd: [false; MAX_CALLS],
    level_ptr: [core::ptr::null(); ML],
    level_len: [0; ML],
};
fn recording_journal_revert(_state: &mut EvmState, _transient: &mut TransientStorage, entries: Vec<JournalEntry>, sd: bool) {
    unsafe {
        let c = R.n;
        assert!(c < MAX_CALLS, "journal_revert called more often than there are levels");
        R.len[c] = entries.len();
        R.sd[c] = sd;
        if entries.len() != 0 {
            for l in 0..ML {
                if R.level_len[l] != 0 && R.level_ptr[l] == entries.as_ptr() {
                    R.level[c] = l;
                    for e in 0..ME {
                        if e < R.level_len[l] {
                            R.tags[c][e] = entry_tag(&*R.level_ptr[l].add(e));
                        }
                    }
                }
            }
        }
        R.n = c + 1;
    }
    core::mem::forget(entries);
}

// ------------------------------------------------------------------------------------------------ helpers
fn addr(id: u8) -> Address {
    Address::new([id; 20])
}
fn addr_id(a: &Address) -> u8 {
    a.0[0]
}

/// EIP-161 (state clearing) is active from Spurious Dragon on: every fork except the five before it.  Written from the
/// fork list, not from the numeric order `SpecId::enabled` uses.
fn eip161_active(spec: SpecId) -> bool {
    !matches!(spec, SpecId::FRONTIER | SpecId::FRONTIER_THAWING | SpecId::HOMESTEAD | SpecId::DAO_FORK | SpecId::TANGERINE)
}

/// a journal entry that carries the identity `id` (in its address) and a payload word; three different variants
fn entry(id: u8, w: u64) -> JournalEntry {
    match id % 3 {
        0 => JournalEntry::NonceChange { address: addr(id) },
        1 => JournalEntry::StorageChanged { address: addr(id), key: U256::from_limbs([7, 0, 0, 0]), had_value: U256::from_limbs([w, 0, 0, 1]) },
        _ => JournalEntry::BalanceTransfer { from: addr(id), to: addr(id ^ 0x80), balance: U256::from_limbs([w, 0, 0, 0]) },
    }
}
/// (identity, payload) of an entry built by `entry`
fn entry_tag(e: &JournalEntry) -> (u8, u64) {
    match e {
        JournalEntry::NonceChange { address } => (addr_id(address), 0),
        JournalEntry::StorageChanged { address, had_value, .. } => (addr_id(address), had_value.as_limbs()[0]),
        JournalEntry::BalanceTransfer { from, balance, .. } => (addr_id(from), balance.as_limbs()[0]),
        _ => (0xFF, 0),
    }
}
fn log_of(id: u8) -> Log {
    Log { address: addr(id), data: LogData::new_unchecked(Vec::new(), Bytes::new()) }
}

/// What the harness itself pushed, kept in plain arrays at CONCRETE positions (lengths read back from a Vec on the heap
/// are not constants for symbolic execution: loops over them would be unrolled up to the unwinding bound).
const ML: usize = 6; // levels
const ME: usize = 4; // entries per level
const MLOG: usize = 6;
struct Shadow {
    tags: [[(u8, u64); ME]; ML],
    lens: [usize; ML],
    levels: usize,
    logs: [u8; MLOG],
    nlogs: usize,
    next_id: u8,
}
impl Shadow {
    fn new() -> Self {
        Shadow { tags: [[(0, 0); ME]; ML], lens: [0; ML], levels: 1, logs: [0; MLOG], nlogs: 0, next_id: 1 }
    }
    /// push `n` fresh entries on the last journal level, the way every operation journals (`journal.last_mut().push`)
    fn push_entries(&mut self, js: &mut JournaledState, n: usize, w: u64) {
        let l = self.levels - 1;
        for _ in 0..n {
            js.journal.last_mut().unwrap().push(entry(self.next_id, w));
            self.tags[l][self.lens[l]] = (self.next_id, if self.next_id % 3 == 0 { 0 } else { w });
            self.lens[l] += 1;
            self.next_id += 1;
        }
    }
    fn push_logs(&mut self, js: &mut JournaledState, n: usize) {
        for _ in 0..n {
            js.log(log_of(self.next_id));
            self.logs[self.nlogs] = self.next_id;
            self.nlogs += 1;
            self.next_id += 1;
        }
    }
    fn checkpoint(&mut self, js: &mut JournaledState) -> JournalCheckpoint {
        self.levels += 1;
        js.checkpoint()
    }
}

/// `JournaledState::new(spec, {})` with `journal` and `logs` moved into buffers pre-allocated for 6 elements.  Same VALUE
/// as `new` gives (one empty level, no logs); only the capacities differ, so that no reallocation happens during the
/// scenario.  Together with `--max-field-sensitivity-array-size 512` (cbmc argument in the registration) every cell of
/// these buffers is a separate variable for symbolic execution.  Without it a level header (`Vec { cap, ptr, len }`)
/// read back from the journal buffer is not a constant, the first `push` on that level then allocates a buffer of
/// SYMBOLIC size, and any read of an entry costs > 10 GB (measured: `checkpoint(); push; push; read` -- no verdict in 200 s).
fn new_journaled_state(spec: SpecId) -> JournaledState {
    let mut js = JournaledState::new(spec, HashSet::default());
    assert!(js.journal.len() == 1 && js.journal[0].is_empty() && js.logs.is_empty() && js.depth == 0);
    let mut j: Vec<Vec<JournalEntry>> = Vec::with_capacity(6);
    j.push(Vec::new());
    core::mem::forget(core::mem::replace(&mut js.journal, j));
    core::mem::forget(core::mem::replace(&mut js.logs, Vec::with_capacity(6)));
    js
}

// ------------------------------------------------------------------------------------------------ (1) the driver
/// `checkpoint_revert(cp)` -- CALL PROTOCOL and bookkeeping, for every fork, on ONE CONCRETE SHAPE per harness (a symbolic
/// shape -- symbolic Vec lengths -- went past 12 GB): `pre` = entries on each level open when `cp = checkpoint()` is
/// taken (level 0 comes from `new`, further ones from `checkpoint()`), `logs0` logs before, `own` entries and `logs1` logs
/// on cp's own level, then the inner frames `inner[k] = (entries, logs)`: `checkpoint()`, entries, logs, and
/// `checkpoint_commit()` unless `inner_open`; `tail` more entries after the inner frames (they land on the last level:
/// entries always go to `journal.last_mut()`, as in every operation).  Entry payloads and the fork are symbolic.
/// Checked against `revert_post` (contracts/journal.vc), with `journal_revert` replaced by the recorder:
///  * journal_revert is called once per level of journal[journal_i..], LAST LEVEL FIRST, each time with exactly that
///    level's entries (that level's buffer, its length, its contents in order at the moment of the call) and with the
///    EIP-161 flag of `spec`;  nothing else touches state / transient storage;
///  * journal == old journal[..journal_i] (levels below the checkpoint keep their entries);
///  * logs == old logs[..log_i];   depth == old depth - 1;   spec and the pre-warmed set unchanged.
fn driver_case(pre: &[usize], logs0: usize, own: usize, logs1: usize, inner: &[(usize, usize)], inner_open: bool, tail: usize) {
    let spec_byte: u8 = kani::any();
    let spec = match SpecId::try_from_u8(spec_byte) {
        Some(s) => s,
        None => {
            kani::assume(false);
            unreachable!()
        }
    };
    let mut js = new_journaled_state(spec);
    let mut sh = Shadow::new();
    let w: u64 = kani::any();

    // ---- before the checkpoint
    sh.push_entries(&mut js, pre[0], w);
    sh.push_logs(&mut js, logs0);
    for l in 1..pre.len() {
        let _ = sh.checkpoint(&mut js);
        sh.push_entries(&mut js, pre[l], w);
    }

    // ---- the checkpoint under test
    let depth0 = pre.len() - 1;
    let journal_i = pre.len();
    let log_i = logs0;
    assert!(js.journal.len() == journal_i && js.logs.len() == log_i && js.depth == depth0);
    let cp = sh.checkpoint(&mut js);
    sh.push_entries(&mut js, own, w);
    sh.push_logs(&mut js, logs1);

    // ---- inner frames (committed, or left open)
    for k in 0..inner.len() {
        let _ = sh.checkpoint(&mut js);
        sh.push_entries(&mut js, inner[k].0, w);
        sh.push_logs(&mut js, inner[k].1);
        if !inner_open {
            js.checkpoint_commit();
        }
    }
    sh.push_entries(&mut js, tail, w);
    let depth_pre = if inner_open { depth0 + 1 + inner.len() } else { depth0 + 1 };
    assert!(js.depth == depth_pre);
    let levels_before = sh.levels;
    assert!(js.journal.len() == levels_before && levels_before == journal_i + 1 + inner.len());
    let warm_len = js.warm_preloaded_addresses.len();
    // register the buffers of the levels (concrete indices: these loads are resolved)
    for l in 0..levels_before {
        assert!(js.journal[l].len() == sh.lens[l]);
        unsafe {
            R.level_ptr[l] = js.journal[l].as_ptr();
            R.level_len[l] = sh.lens[l];
        }
    }

    js.checkpoint_revert(cp);

    // ---- revert_post
    assert!(js.depth == depth_pre - 1);
    assert!(js.spec == spec);
    assert!(js.warm_preloaded_addresses.len() == warm_len);
    assert!(js.state.is_empty() && js.transient_storage.is_empty());
    // journal cut back to the checkpoint, lower levels intact
    assert!(js.journal.len() == journal_i);
    for l in 0..journal_i {
        assert!(js.journal[l].len() == sh.lens[l]);
        for e in 0..sh.lens[l] {
            let t = entry_tag(&js.journal[l][e]);
            assert!(t.0 == sh.tags[l][e].0 && t.1 == sh.tags[l][e].1);
        }
    }
    // logs cut back
    assert!(js.logs.len() == log_i);
    for i in 0..log_i {
        assert!(addr_id(&js.logs[i].address) == sh.logs[i]);
    }
    // journal_revert: once per level above the checkpoint, last level first, that level's entries, the fork's EIP-161 flag
    let calls = unsafe { R.n };
    assert!(unsafe { R.magic } == MAGIC);
    assert!(calls == levels_before - journal_i);
    for c in 0..(levels_before - journal_i) {
        let l = levels_before - 1 - c;
        assert!(unsafe { R.sd[c] } == eip161_active(spec));
        assert!(unsafe { R.len[c] } == sh.lens[l]);
        assert!(unsafe { R.level[c] } == if sh.lens[l] == 0 { NO_LEVEL } else { l });
        for e in 0..sh.lens[l] {
            let t = unsafe { R.tags[c][e] };
            assert!(t.0 == sh.tags[l][e].0 && t.1 == sh.tags[l][e].1);
        }
    }
    kani::cover!(!eip161_active(spec));
    kani::cover!(spec_byte == 17 && w == 5);
    core::mem::forget(js);
}

macro_rules! driver_harness {
    ($name:ident, $unwind:literal, $pre:expr, $logs0:expr, $own:expr, $logs1:expr, $inner:expr, $open:expr, $tail:expr) => {
        #[kani::proof]
        #[kani::unwind($unwind)]
        #[kani::stub(std::collections::hash_map::RandomState::new, fixed_random_state)]
        #[kani::stub(crate::journaled_state::JournaledState::journal_revert, recording_journal_revert)]
        #[kani::stub(<bytes::Bytes as core::ops::Drop>::drop, bytes_drop_noop)]
        fn $name() {
            driver_case(&$pre, $logs0, $own, $logs1, &$inner, $open, $tail);
        }
    };
}
const NONE: [(usize, usize); 0] = [];
// one level above the checkpoint
driver_harness!(driver_1level, 8, [1], 1, 2, 1, NONE, false, 0);
// an outer frame is open; one committed inner frame; entries on cp's level before AND after the inner frame
driver_harness!(driver_inner_commit, 8, [1, 1], 1, 1, 1, [(2, 1)], false, 1);
// two committed inner frames, cp's own level EMPTY, first inner frame empty but logging, second with 2 entries
// (the three levels above the checkpoint hold 0 / 0 / 2 entries: the call order is visible)
driver_harness!(driver_two_inner, 8, [0], 0, 0, 0, [(0, 1), (2, 0)], false, 0);
// reverting a level on which nothing happened
driver_harness!(driver_empty_level, 8, [2], 2, 0, 0, NONE, false, 0);
// inner frames left open (depth is only decremented once)
driver_harness!(driver_inner_open, 8, [1], 0, 1, 0, [(1, 1), (1, 0)], true, 0);
// three levels below the checkpoint stay intact
driver_harness!(driver_deep_outer, 8, [1, 2, 0], 2, 1, 2, [(1, 0)], false, 2);
