//! Shared generators and the status oracle for the harnesses of this crate.
//!
//! Oracle = the MEANING table of `AccountStatus` and the event step table, written from the variant
//! documentation / the property texts (the same tables unit `acctstatus` proves the real `on_*` methods
//! against: contracts/acctstatus.vc `meaning`, units/prelude/acctstatus_lemmas.rs `lemma_step_table`).
//! Nothing here calls the functions under test.
use crate::db::states::*;
use crate::primitives::{AccountInfo, HashMap, B256, KECCAK_EMPTY, U256};

/// `HashMap::default()` / `collect()` seed the SipHash keys from `getrandom`, which Kani cannot model (and a
/// symbolic seed makes every bucket index symbolic).  All harnesses run with ONE fixed seed; the observable
/// behaviour of `std::collections::HashMap` does not depend on the seed (std's contract, trusted).
pub fn fixed_random_state() -> std::hash::RandomState {
    unsafe { core::mem::transmute::<[u64; 2], std::hash::RandomState>([0x0706050403020100, 0x0f0e0d0c0b0a0908]) }
}

/// `AccountInfo::default()` holds `Some(Bytecode::new())` = an analysed one-byte legacy bytecode (`Bytes::from_static`,
/// `Arc<BitVec>`): building and dropping it costs CBMC > 7 min / 3 GB.  The harnesses that reach it
/// (touch_create_pre_eip161, `unwrap_or_default()` in update_and_create_revert) replace `Bytecode::new` by the raw empty
/// bytecode; no property read depends on the `code` field (AccountInfo equality ignores it).
pub fn bytecode_new_stub() -> crate::primitives::Bytecode {
    crate::primitives::Bytecode::LegacyRaw(crate::primitives::Bytes::new())
}

/// the two CONCRETE storage keys (symbolic keys make the hashing explode)
pub const K1: U256 = U256::from_limbs([1, 0, 0, 0]);
pub const K2: U256 = U256::from_limbs([2, 0, 0, 0]);
pub fn key(i: usize) -> U256 {
    if i == 0 { K1 } else { K2 }
}

pub fn any_u256() -> U256 {
    U256::from_limbs(kani::any())
}
/// limb-wise equality (derived `==` on U256 is a 32-iteration memcmp)
pub fn u_eq(a: U256, b: U256) -> bool {
    let (a, b) = (a.as_limbs(), b.as_limbs());
    a[0] == b[0] && a[1] == b[1] && a[2] == b[2] && a[3] == b[3]
}
pub fn ou_eq(a: Option<U256>, b: Option<U256>) -> bool {
    match (a, b) {
        (None, None) => true,
        (Some(a), Some(b)) => u_eq(a, b),
        _ => false,
    }
}
fn chunk(h: &B256, i: usize) -> u64 {
    let b = &h.0;
    u64::from_le_bytes([b[8 * i], b[8 * i + 1], b[8 * i + 2], b[8 * i + 3], b[8 * i + 4], b[8 * i + 5], b[8 * i + 6], b[8 * i + 7]])
}
pub fn h_eq(a: &B256, b: &B256) -> bool {
    chunk(a, 0) == chunk(b, 0) && chunk(a, 1) == chunk(b, 1) && chunk(a, 2) == chunk(b, 2) && chunk(a, 3) == chunk(b, 3)
}

/// symbolic balance / nonce / code hash (any 32 bytes, or exactly the hash of the empty code); `code: None`
pub fn any_info() -> AccountInfo {
    let code_hash = if kani::any() { KECCAK_EMPTY } else { B256::new(kani::any()) };
    AccountInfo { balance: any_u256(), nonce: kani::any(), code_hash, code: None }
}
/// equality of the three value fields (this is also what `AccountInfo: PartialEq` compares)
pub fn i_eq(a: &AccountInfo, b: &AccountInfo) -> bool {
    u_eq(a.balance, b.balance) && a.nonce == b.nonce && h_eq(&a.code_hash, &b.code_hash)
}
pub fn oi_eq(a: &Option<AccountInfo>, b: &Option<AccountInfo>) -> bool {
    match (a, b) {
        (None, None) => true,
        (Some(a), Some(b)) => i_eq(a, b),
        _ => false,
    }
}
/// "no nonce and no code"
pub fn no_nonce_no_code(i: &AccountInfo) -> bool {
    i.nonce == 0 && h_eq(&i.code_hash, &KECCAK_EMPTY)
}
/// the empty account: zero balance, zero nonce, no code
pub fn is_default_info(i: &AccountInfo) -> bool {
    u_eq(i.balance, U256::ZERO) && i.nonce == 0 && h_eq(&i.code_hash, &KECCAK_EMPTY)
}

pub use AccountStatus::*;
pub fn any_status() -> AccountStatus {
    let x: u8 = kani::any();
    kani::assume(x < 8);
    match x {
        0 => LoadedNotExisting,
        1 => Loaded,
        2 => LoadedEmptyEIP161,
        3 => InMemoryChange,
        4 => Changed,
        5 => Destroyed,
        6 => DestroyedChanged,
        _ => DestroyedAgain,
    }
}
pub fn st_eq(a: AccountStatus, b: AccountStatus) -> bool {
    a as u8 == b as u8
}
// ---- meaning table (variant documentation) ----
pub fn exists(s: AccountStatus) -> bool {
    matches!(s, Loaded | LoadedEmptyEIP161 | InMemoryChange | Changed | DestroyedChanged)
}
pub fn destroyed(s: AccountStatus) -> bool {
    matches!(s, Destroyed | DestroyedChanged | DestroyedAgain)
}
pub fn storage_known(s: AccountStatus) -> bool {
    !matches!(s, Loaded | LoadedEmptyEIP161 | Changed)
}
pub fn modified(s: AccountStatus) -> bool {
    !matches!(s, LoadedNotExisting | Loaded | LoadedEmptyEIP161)
}

// ---- events and the step table (lemma_step_table) ----
#[derive(Clone, Copy)]
pub enum Ev {
    Created,
    Selfdestructed,
    TouchedEmptyPost161,
    TouchedCreatedPre161,
    /// info / storage change; the flag: the account had no nonce and no code before
    Changed(bool),
}
pub fn any_ev() -> Ev {
    let x: u8 = kani::any();
    kani::assume(x < 5);
    match x {
        0 => Ev::Created,
        1 => Ev::Selfdestructed,
        2 => Ev::TouchedEmptyPost161,
        3 => Ev::TouchedCreatedPre161,
        _ => Ev::Changed(kani::any()),
    }
}
/// the legal (status, event) relation proved in unit acctstatus (lemma_legal_relation)
pub fn legal(s: AccountStatus, e: Ev) -> bool {
    !(matches!(s, Loaded | Changed) && matches!(e, Ev::TouchedEmptyPost161 | Ev::TouchedCreatedPre161))
}
pub fn step(s: AccountStatus, e: Ev) -> AccountStatus {
    let d = destroyed(s);
    match e {
        Ev::Created => if d { DestroyedChanged } else { InMemoryChange },
        Ev::Selfdestructed => if st_eq(s, LoadedNotExisting) { s } else if d { DestroyedAgain } else { Destroyed },
        Ev::TouchedEmptyPost161 => if !exists(s) { s } else if d { DestroyedAgain } else { Destroyed },
        Ev::TouchedCreatedPre161 => if st_eq(s, LoadedEmptyEIP161) { s } else if d { DestroyedChanged } else { InMemoryChange },
        Ev::Changed(h) => {
            if d { DestroyedChanged } else if st_eq(s, Changed) || (st_eq(s, Loaded) && !h) { Changed } else { InMemoryChange }
        }
    }
}
/// does the event wipe the account's storage (SELFDESTRUCT / EIP-161 removal of an account that is there)
pub fn ev_wipes(s: AccountStatus, e: Ev) -> bool {
    match e {
        Ev::Selfdestructed => !st_eq(s, LoadedNotExisting),
        Ev::TouchedEmptyPost161 => exists(s),
        _ => false,
    }
}

// ---- storage maps over the two concrete keys: CONCRETE presence pattern (one harness instance per pattern),
// symbolic values.  A symbolic presence (or a symbolic Some / None of the account that owns the map) makes the
// table's shape -- control bytes, bucket mask, allocation -- symbolic at the join, and CBMC's symbolic execution
// then walks the rehash / probe loops of hashbrown without end (measured: > 10 min with NO key at all).
// Each generator also returns the SHADOW of the map (what it holds for key 0 and key 1), so that the oracle never
// has to query the input map (every HashMap operation costs CBMC about a million clauses).
pub type Pat = [bool; 2];
pub const P00: Pat = [false, false];
pub const P10: Pat = [true, false];
pub const P11: Pat = [true, true];
pub type PlainShadow = [Option<U256>; 2];
pub type SlotShadow = [Option<(U256, U256)>; 2];
pub fn plain_storage(p: Pat) -> (HashMap<U256, U256>, PlainShadow) {
    let mut m: HashMap<U256, U256> = HashMap::default();
    let mut sh: PlainShadow = [None, None];
    let mut i = 0;
    while i < 2 {
        if p[i] {
            let v = any_u256();
            m.insert(key(i), v);
            sh[i] = Some(v);
        }
        i += 1;
    }
    (m, sh)
}
/// (previous_or_original_value, present_value)
pub fn slot_storage(p: Pat) -> (StorageWithOriginalValues, SlotShadow) {
    let mut m: StorageWithOriginalValues = HashMap::default();
    let mut sh: SlotShadow = [None, None];
    let mut i = 0;
    while i < 2 {
        if p[i] {
            let (o, p) = (any_u256(), any_u256());
            m.insert(key(i), StorageSlot { previous_or_original_value: o, present_value: p });
            sh[i] = Some((o, p));
        }
        i += 1;
    }
    (m, sh)
}
/// a status whose `exists` component is the CONCRETE `ex`
pub fn any_status_ex(ex: bool) -> AccountStatus {
    let s = any_status();
    kani::assume(exists(s) == ex);
    s
}
/// (original, present) of key i in a map RETURNED by the code under test
pub fn slot_of(m: &StorageWithOriginalValues, i: usize) -> Option<(U256, U256)> {
    m.get(&key(i)).map(|s| (s.previous_or_original_value, s.present_value))
}
pub fn slot_eq(a: Option<(U256, U256)>, b: Option<(U256, U256)>) -> bool {
    match (a, b) {
        (None, None) => true,
        (Some(a), Some(b)) => u_eq(a.0, b.0) && u_eq(a.1, b.1),
        _ => false,
    }
}
pub fn count<T>(sh: &[Option<T>; 2]) -> usize {
    sh[0].is_some() as usize + sh[1].is_some() as usize
}
/// the map holds exactly the shadow (same number of entries, same slot for each of the first n keys)
/// `keys`: which keys to look up (concrete)
pub fn slots_are(m: &StorageWithOriginalValues, sh: &SlotShadow, keys: Pat) -> bool {
    let mut ok = m.len() == count(sh);
    let mut i = 0;
    while i < 2 {
        if keys[i] {
            ok = ok && slot_eq(slot_of(m, i), sh[i]);
        }
        i += 1;
    }
    ok
}
pub fn or(a: Pat, b: Pat) -> Pat {
    [a[0] || b[0], a[1] || b[1]]
}

// ---- chains of events (for transitions) ----
/// the event produces a transition at all (selfdestruct of a never-existing account, a touch of an absent account
/// and the pre-161 touch of the loaded-empty account report nothing: unit acctstate)
pub fn produces(s: AccountStatus, e: Ev) -> bool {
    match e {
        Ev::Selfdestructed => !st_eq(s, LoadedNotExisting),
        Ev::TouchedEmptyPost161 => exists(s),
        Ev::TouchedCreatedPre161 => !st_eq(s, LoadedEmptyEIP161),
        _ => true,
    }
}
/// legal, and: a CREATE never lands on an account that has a nonce or code (status Changed) -- EIP-684 / EIP-7610
/// collision rule (C21); `update_and_create_revert` has an `unreachable!()` arm for Changed -> InMemoryChange
pub fn legal_c(s: AccountStatus, e: Ev) -> bool {
    legal(s, e) && produces(s, e) && !(st_eq(s, Changed) && matches!(e, Ev::Created))
}
/// `ex` is CONCRETE in every harness instance (a symbolic Some / None of an `Option<AccountInfo>` sends CBMC into the
/// clone / drop glue of every `Bytecode` variant)
pub fn info_if(ex: bool) -> Option<AccountInfo> {
    if ex { Some(any_info()) } else { None }
}
