//! C15, per account: the three `CacheAccount` mutators Verus could not take (`change`, `newly_created`,
//! `touch_create_pre_eip161`: iterator adapters with tuple-pattern closures).  Property text: the returned
//! TransitionAccount has previous_info / previous_status == the pre-state and info / status / storage == the
//! post-state, the status moves as the status machine says, and a subsequent read (`account_info`,
//! `storage_slot`) returns the post-state.
use crate::common::*;
use crate::db::states::*;
use crate::primitives::{AccountInfo, HashMap, U256};

/// a cache account in ANY status; it holds an info + storage exactly when the status says it exists
/// (established by the constructors / preserved by every mutator: unit acctstate)
fn any_cache_account(ex: bool, p: Pat) -> (CacheAccount, Option<AccountInfo>, PlainShadow) {
    let status = any_status_ex(ex);
    if ex {
        let info = any_info();
        let (storage, sh) = plain_storage(p);
        (CacheAccount { account: Some(PlainAccount { info: info.clone(), storage }), status }, Some(info), sh)
    } else {
        (CacheAccount { account: None, status }, None, [None, None])
    }
}

fn check_change(ex: bool, pa: Pat, pb: Pat) {
    let (mut acc, info0, st0) = any_cache_account(ex, pa);
    let s0 = acc.status;
    let new = any_info();
    let (arg, sh) = slot_storage(pb);
    let t = acc.change(new.clone(), arg);
    // pre-state
    assert!(st_eq(t.previous_status, s0));
    assert!(oi_eq(&t.previous_info, &info0));
    // post-state
    let h = match &info0 { Some(i) => no_nonce_no_code(i), None => false };
    let s1 = step(s0, Ev::Changed(h));
    assert!(st_eq(t.status, s1) && st_eq(acc.status, s1));
    assert!(t.info.is_some() && i_eq(t.info.as_ref().unwrap(), &new));
    assert!(!t.storage_was_destroyed);
    assert!(slots_are(&t.storage, &sh, pb));
    // reads
    let r = acc.account_info();
    assert!(r.is_some() && i_eq(r.as_ref().unwrap(), &new));
    let mut i = 0;
    while i < 2 {
        if !(pa[i] || pb[i]) { i += 1; continue; }
        // a written slot reads as its present value, any other slot as before
        let want = match sh[i] { Some((_, p)) => Some(p), None => st0[i] };
        assert!(ou_eq(acc.storage_slot(key(i)), want));
        i += 1;
    }
    kani::cover!(if ex { st_eq(s0, Loaded) && st_eq(s1, InMemoryChange) } else { st_eq(s0, Destroyed) && st_eq(s1, DestroyedChanged) });
}

fn check_newly_created(ex: bool, pa: Pat, pb: Pat) {
    let (mut acc, info0, _st0) = any_cache_account(ex, pa);
    let s0 = acc.status;
    let new = any_info();
    let (arg, sh) = slot_storage(pb);
    let t = acc.newly_created(new.clone(), arg);
    assert!(st_eq(t.previous_status, s0));
    assert!(oi_eq(&t.previous_info, &info0));
    let s1 = step(s0, Ev::Created);
    assert!(st_eq(t.status, s1) && st_eq(acc.status, s1));
    assert!(t.info.is_some() && i_eq(t.info.as_ref().unwrap(), &new));
    assert!(!t.storage_was_destroyed);
    assert!(slots_are(&t.storage, &sh, pb));
    let r = acc.account_info();
    assert!(r.is_some() && i_eq(r.as_ref().unwrap(), &new));
    let mut i = 0;
    while i < 2 {
        if !(pa[i] || pb[i]) { i += 1; continue; }
        // a created account has exactly the storage it was created with
        assert!(ou_eq(acc.storage_slot(key(i)), sh[i].map(|s| s.1)));
        i += 1;
    }
    kani::cover!(if ex { st_eq(s0, Changed) && st_eq(s1, InMemoryChange) } else { st_eq(s0, Destroyed) && st_eq(s1, DestroyedChanged) });
}

/// CONCRETE status per instance: the function answers `None` for some statuses, and a symbolic None / Some of an
/// `Option<TransitionAccount>` (which holds AccountInfos, hence `Bytes` vtables) is not affordable.
/// `empty`: the account's info is the empty account (concretely), else its nonce is 1 and the rest symbolic.
fn check_touch_create_pre_eip161(s0: AccountStatus, empty: bool) {
    let ex = exists(s0);
    let info0 = if !ex { None } else if empty {
        Some(AccountInfo { balance: U256::ZERO, nonce: 0, code_hash: crate::primitives::KECCAK_EMPTY, code: None })
    } else {
        let mut i = any_info();
        i.nonce = 1;
        Some(i)
    };
    let mut acc = CacheAccount { account: info0.clone().map(|info| PlainAccount { info, storage: HashMap::default() }), status: s0 };
    let r = acc.touch_create_pre_eip161(HashMap::default());
    // "nothing happens" exactly for an account that is already there as an empty one
    let nothing = st_eq(s0, LoadedEmptyEIP161) || (st_eq(s0, DestroyedChanged) && empty);
    assert!(r.is_none() == nothing);
    match r {
        None => {
            assert!(st_eq(acc.status, s0));
            assert!(oi_eq(&acc.account_info(), &info0));
        }
        Some(t) => {
            assert!(st_eq(t.previous_status, s0));
            assert!(oi_eq(&t.previous_info, &info0));
            let s1 = step(s0, Ev::TouchedCreatedPre161);
            assert!(st_eq(t.status, s1) && st_eq(acc.status, s1));
            assert!(t.info.is_some() && is_default_info(t.info.as_ref().unwrap()));
            assert!(!t.storage_was_destroyed);
            assert!(t.storage.is_empty());
            let r = acc.account_info();
            assert!(r.is_some() && is_default_info(r.as_ref().unwrap()));
        }
    }
    kani::cover!(true);
}

macro_rules! harness {
    ($name:ident, $unwind:expr, $f:ident, $ex:expr, $a:expr, $b:expr) => {
        #[kani::proof]
        #[kani::unwind($unwind)]
        #[kani::stub(std::hash::RandomState::new, fixed_random_state)]
        fn $name() {
            $f($ex, $a, $b)
        }
    };
}
macro_rules! touch {
    ($name:ident, $s:expr, $empty:expr) => {
        #[kani::proof]
        #[kani::unwind(34)]
        #[kani::stub(std::hash::RandomState::new, fixed_random_state)]
        #[kani::stub(revm_interpreter::primitives::Bytecode::new, bytecode_new_stub)]
        fn $name() {
            check_touch_create_pre_eip161($s, $empty)
        }
    };
}
// instance names: <fn>_<s|n: the account exists / does not>_<keys held by the account><keys written>
harness!(change_s_00_00, 34, check_change, true, P00, P00);
harness!(change_n_00_00, 34, check_change, false, P00, P00);
harness!(newly_created_s_00_00, 34, check_newly_created, true, P00, P00);
harness!(newly_created_n_00_00, 34, check_newly_created, false, P00, P00);
// touch_create_pre_eip161: one instance per legal status (not Loaded / Changed: unit acctstatus, touch_legal)
touch!(touch_create_pre_eip161_lne, LoadedNotExisting, false);
touch!(touch_create_pre_eip161_le, LoadedEmptyEIP161, true);
touch!(touch_create_pre_eip161_imc, InMemoryChange, false);
touch!(touch_create_pre_eip161_imc_empty, InMemoryChange, true);
touch!(touch_create_pre_eip161_d, Destroyed, false);
touch!(touch_create_pre_eip161_dc, DestroyedChanged, false);
touch!(touch_create_pre_eip161_dc_empty, DestroyedChanged, true);
touch!(touch_create_pre_eip161_da, DestroyedAgain, false);
