//! Kani harnesses on the REAL source files of `crates/revm/src/db/states/` (C15, C16, C17, C19).
//!
//! kani-compiler 0.68 crashes (internal compiler error) on crate `revm` as a whole, so this crate does not
//! depend on it: the files are included BY PATH (`#[path]`, zero text transformation -- the compiled text is
//! the working tree's text) under the module paths they refer to (`crate::primitives`, `crate::db::AccountStatus`,
//! `super::..`).  The re-exports mirror crates/revm/src/db/states.rs for the included files only.
//! Also included (for C18): bundle_state.rs, transition_state.rs.  NOT included: state.rs, cache.rs, state_builder.rs.
//!
//! All harnesses are BOUNDED stand-ins and run on EMPTY storage maps with concrete existence patterns: a std HashMap
//! holding a key with a symbolic value is not affordable in CBMC (measurements and causes: mutations/C16/README.md,
//! src/common.rs).  The checking functions in c15.rs / c16.rs / c19.rs still take key patterns (`Pat`): instances with
//! a key were tried, did not finish, and are not registered.
#![allow(unused, unreachable_pub, deprecated)]

pub use revm_interpreter::primitives;

pub mod db {
    pub use states::*;
    pub mod states {
        #[path = "@REPO@/crates/revm/src/db/states/account_status.rs"]
        pub mod account_status;
        #[path = "@REPO@/crates/revm/src/db/states/bundle_account.rs"]
        pub mod bundle_account;
        #[path = "@REPO@/crates/revm/src/db/states/bundle_state.rs"]
        pub mod bundle_state;
        #[path = "@REPO@/crates/revm/src/db/states/cache_account.rs"]
        pub mod cache_account;
        #[path = "@REPO@/crates/revm/src/db/states/changes.rs"]
        pub mod changes;
        #[path = "@REPO@/crates/revm/src/db/states/plain_account.rs"]
        pub mod plain_account;
        #[path = "@REPO@/crates/revm/src/db/states/reverts.rs"]
        pub mod reverts;
        #[path = "@REPO@/crates/revm/src/db/states/transition_account.rs"]
        pub mod transition_account;
        #[path = "@REPO@/crates/revm/src/db/states/transition_state.rs"]
        pub mod transition_state;

        pub use account_status::AccountStatus;
        pub use bundle_account::BundleAccount;
        pub use bundle_state::{BundleBuilder, BundleState, OriginalValuesKnown};
        pub use cache_account::CacheAccount;
        pub use changes::{PlainStateReverts, PlainStorageChangeset, PlainStorageRevert, StateChangeset};
        pub use plain_account::{PlainAccount, StorageSlot, StorageWithOriginalValues};
        pub use reverts::{AccountRevert, RevertToSlot};
        pub use transition_account::TransitionAccount;
        pub use transition_state::TransitionState;
    }
}

#[cfg(kani)]
mod common;
#[cfg(kani)]
mod c15;
#[cfg(kani)]
mod c16;
#[cfg(kani)]
mod c17;
#[cfg(kani)]
mod c18;
#[cfg(kani)]
mod c19;
