//! Kani harnesses on the REAL source files of `crates/revm/src/db/states/` (C15, C16, C17, C19).
//!
//! kani-compiler 0.68 crashes (internal compiler error) on crate `revm` as a whole, so this crate does not
//! depend on it: the files are included BY PATH (`#[path]`, zero text transformation -- the compiled text is
//! the working tree's text) under the module paths they refer to (`crate::primitives`, `crate::db::AccountStatus`,
//! `super::..`).  The re-exports mirror crates/revm/src/db/states.rs for the included files only.
//! NOT included: state.rs, bundle_state.rs, cache.rs, state_builder.rs, transition_state.rs.
#![allow(unused, unreachable_pub, deprecated)]

pub use revm_interpreter::primitives;

pub mod db {
    pub use states::*;
    pub mod states {
        #[path = "@REPO@/crates/revm/src/db/states/account_status.rs"]
        pub mod account_status;
        #[path = "@REPO@/crates/revm/src/db/states/bundle_account.rs"]
        pub mod bundle_account;
        #[path = "@REPO@/crates/revm/src/db/states/cache_account.rs"]
        pub mod cache_account;
        #[path = "@REPO@/crates/revm/src/db/states/changes.rs"]
        pub mod changes;
        #[path = "@REPO@/crates/revm/src/db/states/plain_account.rs"]
        pub mod plain_account;
        #[path = "@REPO@/crates/revm/src/db/states/reverts.rs"]
        pub mod reverts;
        #[path = "@REPO@/crates/revm/src/db/states/transition_account.rs"]
        pub mod transition_account;

        pub use account_status::AccountStatus;
        pub use bundle_account::BundleAccount;
        pub use cache_account::CacheAccount;
        pub use changes::{PlainStateReverts, PlainStorageChangeset, PlainStorageRevert, StateChangeset};
        pub use plain_account::{PlainAccount, StorageSlot, StorageWithOriginalValues};
        pub use reverts::{AccountRevert, RevertToSlot};
        pub use transition_account::TransitionAccount;
    }
}

#[cfg(kani)]
mod smoke {
    use crate::db::states::*;
    use crate::primitives::{AccountInfo, U256};
    #[kani::proof]
    #[kani::unwind(4)]
    fn smoke_status() {
        let a = CacheAccount::new_loaded_not_existing();
        assert!(!a.is_some());
        kani::cover!(true);
    }
    fn fixed_random_state() -> std::hash::RandomState {
        unsafe { core::mem::transmute::<[u64; 2], std::hash::RandomState>([0x0706050403020100, 0x0f0e0d0c0b0a0908]) }
    }
    #[kani::proof]
    #[kani::unwind(6)]
    #[kani::stub(std::hash::RandomState::new, fixed_random_state)]
    fn smoke_map1() {
        let k1 = U256::from_limbs([1, 0, 0, 0]);
        let mut m: crate::primitives::HashMap<U256, U256> = Default::default();
        let v = U256::from_limbs(kani::any());
        m.insert(k1, v);
        let r = m.get(&k1).copied();
        assert!(r.is_some());
        assert!(r.unwrap().as_limbs() == v.as_limbs());
        kani::cover!(true);
    }
}
