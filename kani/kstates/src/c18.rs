//! C18 "extend": `BundleState::extend(other)` for an account destroyed in BOTH halves -- the storage migration into the
//! wiped revert of `other` (bundle_state.rs is HashMap<Address, BundleAccount> + Vec<Vec<(Address, AccountRevert)>> plumbing;
//! Verus takes none of it).  ONE CONCRETE instance (everything that lives in a map -- infos, statuses, slot values -- has to
//! be concrete: a symbolic value in a hashbrown bucket is not affordable, see common.rs), i.e. one execution of the real
//! `extend` / `extend_state`, checked against the property text: "extending a bundle for blocks 1..i with a bundle for
//! blocks i+1..n describes the same post-state changeset and the same per-block pre-values as a single bundle".
use crate::common::*;
use crate::db::states::reverts::{AccountInfoRevert, Reverts};
use crate::db::states::*;
use crate::primitives::{AccountInfo, Address, HashMap, KECCAK_EMPTY, U256};

fn info(balance: u64, nonce: u64) -> AccountInfo {
    AccountInfo { balance: U256::from_limbs([balance, 0, 0, 0]), nonce, code_hash: KECCAK_EMPTY, code: None }
}

/// `this` (blocks 1..i): the account was loaded with info i0, destroyed and re-created in block i; it now is
/// DestroyedChanged with info i1 and ONE slot K1 = (0, v).  `other` (block i+1, built on a state that already contains
/// `this`): it sees the account as Loaded with i1 and selfdestructs it: status Destroyed, revert {RevertTo(i1), no slot
/// listed, previous_status Loaded, wipe_storage: true}.
#[kani::proof]
#[kani::unwind(6)]
#[kani::stub(std::hash::RandomState::new, fixed_random_state)]
fn extend_destroyed_in_both_halves() {
    let a = Address::with_last_byte(0xAA);
    let v = U256::from_limbs([9, 0, 0, 0]);
    let (i0, i1) = (info(5, 1), info(7, 1));
    // this
    let mut st: StorageWithOriginalValues = HashMap::default();
    st.insert(K1, StorageSlot { previous_or_original_value: U256::ZERO, present_value: v });
    let acc_this = BundleAccount { info: Some(i1.clone()), original_info: Some(i0.clone()), storage: st, status: DestroyedChanged };
    let mut rs: HashMap<U256, RevertToSlot> = HashMap::default();
    rs.insert(K1, RevertToSlot::Destroyed);
    let rev_this = AccountRevert { account: AccountInfoRevert::RevertTo(i0.clone()), storage: rs, previous_status: Loaded, wipe_storage: true };
    let mut state_this: HashMap<Address, BundleAccount> = HashMap::default();
    state_this.insert(a, acc_this);
    let mut this = BundleState { state: state_this, contracts: HashMap::default(), reverts: Reverts::new(vec![vec![(a, rev_this)]]), state_size: 2, reverts_size: 2 };
    // other
    let acc_other = BundleAccount { info: None, original_info: Some(i1.clone()), storage: HashMap::default(), status: Destroyed };
    let rev_other = AccountRevert { account: AccountInfoRevert::RevertTo(i1.clone()), storage: HashMap::default(), previous_status: Loaded, wipe_storage: true };
    let mut state_other: HashMap<Address, BundleAccount> = HashMap::default();
    state_other.insert(a, acc_other);
    let other = BundleState { state: state_other, contracts: HashMap::default(), reverts: Reverts::new(vec![vec![(a, rev_other)]]), state_size: 1, reverts_size: 1 };

    this.extend(other);

    // two revert blocks, the first one untouched
    assert!(this.reverts.len() == 2);
    assert!(this.reverts[0].len() == 1 && this.reverts[0][0].1.wipe_storage);
    // the last block's pre-values: the slot the account held before block i+1 is listed with its value, and the database
    // wipe is not repeated (it happened in block i)
    assert!(this.reverts[1].len() == 1);
    let last = &this.reverts[1][0].1;
    assert!(!last.wipe_storage);
    match last.storage.get(&K1) {
        Some(RevertToSlot::Some(x)) => assert!(u_eq(*x, v)),
        _ => assert!(false),
    }
    match &last.account {
        AccountInfoRevert::RevertTo(i) => assert!(i_eq(i, &i1)),
        _ => assert!(false),
    }
    // the joined account: gone, no storage, destroyed (status composition: was_destroyed in either half)
    let j = this.state.get(&a);
    assert!(j.is_some());
    let j = j.unwrap();
    assert!(j.info.is_none());
    assert!(j.storage.is_empty());
    assert!(!exists(j.status) && destroyed(j.status));
    assert!(oi_eq(&j.original_info, &Some(i0)));
    kani::cover!(true);
}
