//! C16 "transition accumulation": `TransitionAccount::update(t2)` == applying t1 then t2
//! (Verus could not take it: `for .. in HashMap::into_iter()` + entry API).
//! Domain: t1 is any transition (possibly already merged) s0 -> s1, t2 is the NEXT single-event transition of the same
//! account (t2.previous_status == t1.status, t2.previous_info == t1.info), as `State::commit` /
//! `TransitionState::add_transitions` produce them (one event per account per transaction).
use crate::common::*;
use crate::db::states::*;
use crate::primitives::{AccountInfo, HashMap, U256};

fn check_update(ex0: bool, ex1: bool, ex2: bool, p1: Pat, p2: Pat) {
    // t1: s0 -e1-> s1
    let s0 = any_status_ex(ex0);
    let e1 = any_ev();
    kani::assume(legal_c(s0, e1));
    let s1 = step(s0, e1);
    kani::assume(exists(s1) == ex1);
    let info0 = info_if(ex0);
    let info1 = info_if(ex1);
    let flag1: bool = kani::any();
    // the wipe flag of a (merged) transition: set by a wiping event, possible only if the status says destroyed
    kani::assume(!ev_wipes(s0, e1) || flag1);
    kani::assume(!flag1 || destroyed(s1));
    let (st1, sh1) = slot_storage(p1);
    // t2: s1 -e2-> s2, one event
    let e2 = any_ev();
    kani::assume(legal_c(s1, e2));
    let s2 = step(s1, e2);
    kani::assume(exists(s2) == ex2);
    let info2 = info_if(ex2);
    let flag2 = ev_wipes(s1, e2);
    // a wiping event carries no storage (selfdestruct / touch_empty_eip161: unit acctstate)
    kani::assume(!flag2 || (!p2[0] && !p2[1]));
    let (st2, sh2) = slot_storage(p2);
    let mut t1 = TransitionAccount { info: info1.clone(), status: s1, previous_info: info0.clone(), previous_status: s0, storage: st1, storage_was_destroyed: flag1 };
    let t2 = TransitionAccount { info: info2.clone(), status: s2, previous_info: info1.clone(), previous_status: s1, storage: st2, storage_was_destroyed: flag2 };
    t1.update(t2);
    // the merged transition goes from the state before t1 to the state after t2
    assert!(st_eq(t1.previous_status, s0));
    assert!(oi_eq(&t1.previous_info, &info0));
    assert!(st_eq(t1.status, s2));
    assert!(oi_eq(&t1.info, &info2));
    assert!(t1.storage_was_destroyed == (flag1 || flag2));
    // storage, per key: the value after both is t2's where t2 wrote, else t1's; the value before both is t1's original
    // where t1 wrote, else t2's; a slot that is back at its original value is no change; a wipe in t2 drops what t1 wrote
    let mut want: SlotShadow = [None, None];
    let mut i = 0;
    while i < 2 {
        want[i] = if flag2 {
            None
        } else {
            match (sh1[i], sh2[i]) {
                (Some((o1, _)), Some((_, p2))) => if u_eq(o1, p2) { None } else { Some((o1, p2)) },
                (Some(a), None) => Some(a),
                (None, b) => b,
            }
        };
        i += 1;
    }
    assert!(slots_are(&t1.storage, &want, or(p1, p2)));
    kani::cover!(destroyed(s2));
}

macro_rules! harness {
    ($name:ident, $unwind:expr, $e0:expr, $e1:expr, $e2:expr, $a:expr, $b:expr) => {
        #[kani::proof]
        #[kani::unwind($unwind)]
        #[kani::stub(std::hash::RandomState::new, fixed_random_state)]
        fn $name() {
            check_update($e0, $e1, $e2, $a, $b)
        }
    };
}
// instance names: update_<s|n x3: the account exists before t1 / after t1 / after t2>_<keys written by t1>_<keys written by t2>
harness!(update_sss_00_00, 34, true, true, true, P00, P00);
harness!(update_ssn_00_00, 34, true, true, false, P00, P00);
harness!(update_sns_00_00, 34, true, false, true, P00, P00);
harness!(update_snn_00_00, 34, true, false, false, P00, P00);
harness!(update_nss_00_00, 34, false, true, true, P00, P00);
harness!(update_nsn_00_00, 34, false, true, false, P00, P00);
harness!(update_nns_00_00, 34, false, false, true, P00, P00);
harness!(update_nnn_00_00, 34, false, false, false, P00, P00);
