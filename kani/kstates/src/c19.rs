//! C19 "conversion": `CacheAccount::from(bundle_account)` preserves info, present values and status
//! (Verus could not take it: `.iter().map(|(k, v)| ..).collect()`).  Only the conversion; the lookup order
//! cache -> bundle -> database of `State::load_cache_account` is not reachable here.
use crate::common::*;
use crate::db::states::*;
use crate::primitives::{AccountInfo, HashMap, U256};

fn check_from_bundle(ex: bool, p: Pat) {
    let status = any_status_ex(ex);
    let info = if ex { Some(any_info()) } else { None };
    let original_info = Some(any_info()); // not read by the conversion
    let (storage, sh) = slot_storage(p);
    let b = BundleAccount { info: info.clone(), original_info, storage, status };
    let c = CacheAccount::from(b);
    assert!(st_eq(c.status, status));
    assert!(oi_eq(&c.account_info(), &info));
    assert!(c.account.is_some() == ex);
    let mut i = 0;
    while i < 2 {
        if p[i] {
            // an account that exists keeps the present value of every slot the bundle held
            let want = if ex { sh[i].map(|s| s.1) } else { None };
            assert!(ou_eq(c.storage_slot(key(i)), want));
        }
        i += 1;
    }
    kani::cover!(if ex { st_eq(status, DestroyedChanged) } else { st_eq(status, DestroyedAgain) });
}

macro_rules! harness {
    ($name:ident, $unwind:expr, $ex:expr, $p:expr) => {
        #[kani::proof]
        #[kani::unwind($unwind)]
        #[kani::stub(std::hash::RandomState::new, fixed_random_state)]
        fn $name() {
            check_from_bundle($ex, $p)
        }
    };
}
harness!(from_bundle_s_00, 34, true, P00);
harness!(from_bundle_n_00, 34, false, P00);
