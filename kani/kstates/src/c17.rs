//! C17 "revert creation / revert application": `BundleAccount::update_and_create_revert(transition)` followed by
//! `BundleAccount::revert(the returned revert)` (Verus could not take either: closures over iterator adapters,
//! `.drain()`, `iter_mut().for_each`, `AccountRevert::new_selfdestructed*`).
//! Property text: the revert gives the account's info before the group (or its absence) and for every slot its value
//! before the group, where slots not listed read as their pre-bundle value if the storage is marked wiped and as
//! unchanged otherwise; reverting restores info, status and every present storage value.
//! Domain: a bundle account in any status sb (info present iff the status says it exists), and a transition that
//! starts where the bundle account stands (previous_status == sb, previous_info == the bundle's info) and is the
//! result of ONE or TWO legal events (the pairs (sb, status after) therefore never reach an `unreachable!()` arm).
use crate::common::*;
use crate::db::states::reverts::AccountInfoRevert;
use crate::db::states::*;
use crate::primitives::{AccountInfo, HashMap, U256};

fn check_roundtrip(pb: Pat, pt: Pat) {
    let sb = any_status();
    let info_b = info_for(sb);
    let original_info = if kani::any() { Some(any_info()) } else { None };
    let (storage_b, shb) = slot_storage(pb);
    // the transition: sb -e1-> s1 [-e2-> st]
    let e1 = any_ev();
    kani::assume(legal_c(sb, e1));
    let s1 = step(sb, e1);
    let two: bool = kani::any();
    let e2 = any_ev();
    kani::assume(!two || legal_c(s1, e2));
    let st = if two { step(s1, e2) } else { s1 };
    let last_wipes = if two { ev_wipes(s1, e2) } else { ev_wipes(sb, e1) };
    let flag_t = last_wipes || (two && ev_wipes(sb, e1));
    let info_t = info_for(st);
    // a transition that ends in a wipe carries no storage
    kani::assume(!last_wipes || (!pt[0] && !pt[1]));
    let (storage_t, sht) = slot_storage(pt);
    // chaining: where the bundle holds the slot and nothing was wiped in between, the transition's original value
    // is the bundle's present value
    let mut i = 0;
    while i < 2 {
        if let (Some((_, bp)), Some((to, _))) = (shb[i], sht[i]) {
            kani::assume(flag_t || u_eq(to, bp));
        }
        i += 1;
    }
    let mut b = BundleAccount { info: info_b.clone(), original_info, storage: storage_b, status: sb };
    let t = TransitionAccount { info: info_t.clone(), status: st, previous_info: info_b.clone(), previous_status: sb, storage: storage_t, storage_was_destroyed: flag_t };

    let r = b.update_and_create_revert(t);
    match r {
        None => {
            // nothing to revert: the info did not change, no slot of the bundle lost its value silently
            assert!(oi_eq(&info_b, &info_t) || (!exists(sb) && !exists(st)));
            assert!(!destroyed(st) || storage_known(sb));
        }
        Some(rev) => {
            // the bundle account now is the post-state
            assert!(st_eq(b.status, st));
            assert!(oi_eq(&b.info, &info_t));
            // the revert holds the pre-state
            assert!(st_eq(rev.previous_status, sb));
            match &rev.account {
                AccountInfoRevert::DoNothing => assert!(oi_eq(&info_b, &info_t)),
                AccountInfoRevert::DeleteIt => assert!(info_b.is_none()),
                AccountInfoRevert::RevertTo(i) => assert!(info_b.is_some() && i_eq(i, info_b.as_ref().unwrap())),
            }
            // wiped: the account's database storage is dropped by this group, i.e. it is destroyed now and was not
            // before; an account whose storage is (partly) only in the database MUST be flagged, one that is not
            // destroyed by this group or was destroyed already must NOT be
            if destroyed(st) && !storage_known(sb) {
                assert!(rev.wipe_storage);
            }
            if !destroyed(st) || destroyed(sb) {
                assert!(!rev.wipe_storage);
            }
            // slot list
            let mut i = 0;
            while i < 2 {
                if pb[i] || pt[i] {
                    let before = match (shb[i], sht[i]) { (Some((_, bp)), _) => Some(bp), (None, Some((to, _))) => Some(to), _ => None };
                    match rev.storage.get(&key(i)) {
                        Some(RevertToSlot::Some(v)) => assert!(before.is_some() && u_eq(*v, before.unwrap())),
                        // "destroyed": the slot was not held before the group (it reads as zero after the revert)
                        Some(RevertToSlot::Destroyed) => assert!(shb[i].is_none()),
                        None => {
                            if rev.wipe_storage {
                                // not listed + wiped reads as the pre-bundle value: a value held by the bundle must be listed
                                assert!(shb[i].is_none());
                            } else if let Some((to, tp)) = sht[i] {
                                // not listed + not wiped reads as unchanged
                                assert!(u_eq(to, tp) || (destroyed(sb) && shb[i].is_none() && u_eq(tp, U256::ZERO)));
                            }
                        }
                    }
                }
                i += 1;
            }
            // apply the revert
            let _removable = b.revert(rev);
            assert!(st_eq(b.status, sb));
            assert!(oi_eq(&b.info, &info_b));
            let mut i = 0;
            while i < 2 {
                if pb[i] || pt[i] {
                    let after = slot_of(&b.storage, i);
                    match (shb[i], sht[i]) {
                        // every present value the bundle held is back
                        (Some((_, bp)), _) => assert!(after.is_some() && u_eq(after.unwrap().1, bp)),
                        // a slot the bundle did not hold is gone again, or reads as the value the group started from
                        (None, Some((to, _))) => assert!(after.is_none() || u_eq(after.unwrap().1, to)),
                        _ => {}
                    }
                }
                i += 1;
            }
        }
    }
    kani::cover!(st_eq(sb, Changed) && st_eq(st, DestroyedChanged) && b.info.is_some());
}

macro_rules! harness {
    ($name:ident, $unwind:expr, $a:expr, $b:expr) => {
        #[kani::proof]
        #[kani::unwind($unwind)]
        #[kani::stub(std::hash::RandomState::new, fixed_random_state)]
        fn $name() {
            check_roundtrip($a, $b)
        }
    };
}
// instance names: roundtrip_<keys held by the bundle account>_<keys written by the transition>
harness!(roundtrip_00_00, 6, P00, P00);
harness!(roundtrip_10_00, 6, P10, P00);
harness!(roundtrip_00_10, 6, P00, P10);
harness!(roundtrip_10_10, 6, P10, P10);
