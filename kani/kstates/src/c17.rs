//! C17 "revert creation / revert application": `BundleAccount::update_and_create_revert(transition)` followed by
//! `BundleAccount::revert(the returned revert)` (Verus could not take either: closures over iterator adapters,
//! `.drain()`, `iter_mut().for_each`, `AccountRevert::new_selfdestructed*`).
//! Property text: the revert gives the account's info before the group (or its absence) and for every slot its value
//! before the group, where slots not listed read as their pre-bundle value if the storage is marked wiped and as
//! unchanged otherwise; reverting restores info, status and every present storage value.
//! Domain: one harness instance per (sb, st, flag): a bundle account in status sb (info present iff the status says it
//! exists) and a transition that starts where the bundle account stands (previous_status == sb, previous_info == the
//! bundle's info), ends in status st with wipe flag `flag`; the triples are ALL those reachable by a finite sequence of
//! legal events (closure computed by gen_kstates.py from the step table), so no `unreachable!()` arm is reached.
//! Statuses are concrete per instance, values (balances, nonces but for one bit of difference, code hashes) symbolic.
use crate::common::*;
use crate::db::states::reverts::AccountInfoRevert;
use crate::db::states::*;
use crate::primitives::{AccountInfo, HashMap, U256};

/// `same`: the transition leaves the info as it is (the same CONCRETE value), else the nonce differs CONCRETELY -- a symbolic
/// outcome of `self.info != updated_info` makes the variant of `AccountInfoRevert` (which carries an AccountInfo, hence a
/// `Bytes` vtable) symbolic, and CBMC then dispatches the `Bytes` drop over every function of that signature.
fn check_roundtrip(sb: AccountStatus, st: AccountStatus, flag_t: bool, exo: bool, same: bool) {
    let (exb, ext) = (exists(sb), exists(st));
    // (`same`: one concrete info -- `==` on two copies of a symbolic info is a memcmp CBMC does not fold)
    let mut info_b = if same { Some(AccountInfo { balance: U256::from_limbs([7, 0, 0, 1]), nonce: 1, code_hash: crate::primitives::KECCAK_EMPTY, code: None }) } else { info_if(exb) };
    if let Some(i) = info_b.as_mut() { i.nonce = 1; }
    let original_info = info_if(exo);
    let mut info_t = if same { info_b.clone() } else { info_if(ext) };
    if !same { if let Some(i) = info_t.as_mut() { i.nonce = 2; } }
    let mut b = BundleAccount { info: info_b.clone(), original_info, storage: HashMap::default(), status: sb };
    let t = TransitionAccount { info: info_t.clone(), status: st, previous_info: info_b.clone(), previous_status: sb, storage: HashMap::default(), storage_was_destroyed: flag_t };

    let r = b.update_and_create_revert(t);
    match r {
        None => {
            // nothing to revert: the info did not change, and no database storage was dropped silently
            assert!(oi_eq(&info_b, &info_t));
            assert!(!destroyed(st) || storage_known(sb));
        }
        Some(rev) => {
            // the bundle account now is the post-state
            assert!(st_eq(b.status, st));
            assert!(oi_eq(&b.info, &info_t));
            // the revert holds the pre-state
            assert!(st_eq(rev.previous_status, sb));
            match &rev.account {
                AccountInfoRevert::DoNothing => assert!(oi_eq(&info_b, &info_t)),
                AccountInfoRevert::DeleteIt => assert!(info_b.is_none()),
                AccountInfoRevert::RevertTo(i) => assert!(info_b.is_some() && i_eq(i, info_b.as_ref().unwrap())),
            }
            // wiped: the account's database storage is dropped by this group, i.e. it is destroyed now and was not
            // before; an account whose storage is (partly) only in the database MUST be flagged, one that is not
            // destroyed by this group or was destroyed already must NOT be (then "not listed" has to read as unchanged)
            if destroyed(st) && !storage_known(sb) {
                assert!(rev.wipe_storage);
            }
            if !destroyed(st) || destroyed(sb) {
                assert!(!rev.wipe_storage);
            }
            assert!(rev.storage.is_empty());
            // apply the revert
            let removable = b.revert(rev);
            assert!(st_eq(b.status, sb));
            assert!(oi_eq(&b.info, &info_b));
            assert!(b.storage.is_empty());
            // only an account that did not exist before the bundle may disappear from it
            assert!(!removable || (!exo && !exb));
        }
    }
    kani::cover!(true);
}

/// The SLOT part of the round trip, on CONCRETE slot values (a std HashMap holding a symbolic value is not affordable, see
/// common.rs): one concrete key K1, the bundle account holds it as `b_slot` = (pre-bundle value, present value) or not at
/// all, the transition writes it as `t_slot` = (value before the transition, value after) or not at all; statuses concrete;
/// infos symbolic (they do not live in a map).  This is ONE execution of the storage code per instance, checked against the
/// property text: the revert lists for every slot its value before the group (`Some(v)`), `Destroyed` only for a slot that
/// was not held before, a slot not listed reads as unchanged (not wiped) / must not have been held (wiped); reverting
/// restores every present value the bundle account held.
fn check_slots(sb: AccountStatus, st: AccountStatus, flag_t: bool, b_slot: Option<(u64, u64)>, t_slot: Option<(u64, u64)>) {
    let u = |x: u64| U256::from_limbs([x, 0, 0, 0]);
    let (exb, ext) = (exists(sb), exists(st));
    let mut info_b = info_if(exb);
    if let Some(i) = info_b.as_mut() { i.nonce = 1; }
    let mut info_t = info_if(ext);
    if let Some(i) = info_t.as_mut() { i.nonce = 2; }
    let mut storage_b: StorageWithOriginalValues = HashMap::default();
    if let Some((o, p)) = b_slot { storage_b.insert(K1, StorageSlot { previous_or_original_value: u(o), present_value: u(p) }); }
    let mut storage_t: StorageWithOriginalValues = HashMap::default();
    if let Some((o, p)) = t_slot { storage_t.insert(K1, StorageSlot { previous_or_original_value: u(o), present_value: u(p) }); }
    let mut b = BundleAccount { info: info_b.clone(), original_info: info_if(true), storage: storage_b, status: sb };
    let t = TransitionAccount { info: info_t.clone(), status: st, previous_info: info_b.clone(), previous_status: sb, storage: storage_t, storage_was_destroyed: flag_t };
    let r = b.update_and_create_revert(t);
    assert!(r.is_some());
    let rev = r.unwrap();
    // value of the slot before the group: what the bundle account held, else what the transition started from
    let before: Option<u64> = match (b_slot, t_slot) { (Some((_, bp)), _) => Some(bp), (None, Some((to, _))) => Some(to), _ => None };
    match rev.storage.get(&K1) {
        Some(RevertToSlot::Some(v)) => assert!(before.is_some() && u_eq(*v, u(before.unwrap()))),
        Some(RevertToSlot::Destroyed) => assert!(b_slot.is_none()),
        None => {
            if rev.wipe_storage {
                assert!(b_slot.is_none());
            } else if let Some((to, tp)) = t_slot {
                assert!(to == tp);
            }
        }
    }
    // a value the bundle account held must be recoverable: listed, unless nothing happened to it
    if let Some((_, bp)) = b_slot {
        let touched = destroyed(st) && !destroyed(sb) || flag_t || t_slot.map(|(_, tp)| tp != bp).unwrap_or(false);
        assert!(!touched || rev.storage.get(&K1).is_some());
    }
    let _ = b.revert(rev);
    assert!(st_eq(b.status, sb));
    assert!(oi_eq(&b.info, &info_b));
    let after = slot_of(&b.storage, 0);
    match (b_slot, t_slot) {
        (Some((_, bp)), _) => assert!(after.is_some() && u_eq(after.unwrap().1, u(bp))),
        (None, Some((to, _))) => assert!(after.is_none() || u_eq(after.unwrap().1, u(to))),
        _ => assert!(after.is_none()),
    }
    kani::cover!(true);
}

macro_rules! slots {
    ($name:ident, $sb:expr, $st:expr, $flag:expr, $b:expr, $t:expr) => {
        #[kani::proof]
        #[kani::unwind(6)]
        #[kani::stub(std::hash::RandomState::new, fixed_random_state)]
        #[kani::stub(revm_interpreter::primitives::Bytecode::new, bytecode_new_stub)]
        fn $name() {
            check_slots($sb, $st, $flag, $b, $t)
        }
    };
}
// names: slots_<status before>_<status after>[_w]_<b: the bundle account holds K1><t: the transition writes K1>
slots!(slots_c_dc_w_bt, Changed, DestroyedChanged, true, Some((1, 2)), Some((0, 5)));
slots!(slots_c_c_bt, Changed, Changed, false, Some((1, 2)), Some((2, 3)));
slots!(slots_l_dc_w_bt, Loaded, DestroyedChanged, true, Some((1, 2)), Some((0, 5)));
slots!(slots_imc_dc_w_bt, InMemoryChange, DestroyedChanged, true, Some((0, 2)), Some((0, 5)));
slots!(slots_c_d_w_b, Changed, Destroyed, true, Some((1, 2)), None);
slots!(slots_l_c_t, Loaded, Changed, false, None, Some((1, 3)));
slots!(slots_c_c_t, Changed, Changed, false, None, Some((1, 3)));
slots!(slots_dc_dc_w_bt, DestroyedChanged, DestroyedChanged, true, Some((0, 2)), Some((0, 5)));
slots!(slots_dc_dc_bt, DestroyedChanged, DestroyedChanged, false, Some((0, 2)), Some((2, 5)));
slots!(slots_dc_da_w_b, DestroyedChanged, DestroyedAgain, true, Some((0, 2)), None);
slots!(slots_d_dc_t, Destroyed, DestroyedChanged, false, None, Some((0, 5)));
slots!(slots_da_dc_t, DestroyedAgain, DestroyedChanged, false, None, Some((0, 5)));

/// `BundleAccount::revert` alone, on a hand-built revert (so that the slot part is reachable at a bearable cost):
/// kind 0 = DoNothing, 1 = RevertTo(info), 2 = DeleteIt on an account that was absent before the bundle,
/// 3 = DeleteIt on an account that existed before the bundle; `pr[i]`: 0 = key i not listed, 1 = Some(v), 2 = Destroyed.
fn check_revert(ex_now: bool, kind: u8, pb: Pat, pr: [u8; 2]) {
    let s_now = any_status_ex(ex_now);
    let info_now = info_if(ex_now);
    let original_info = if kind == 2 { None } else { Some(any_info()) };
    let (storage_b, shb) = slot_storage(pb);
    let mut b = BundleAccount { info: info_now.clone(), original_info, storage: storage_b, status: s_now };
    let s_prev = any_status();
    let info_prev = any_info();
    let account = match kind { 0 => AccountInfoRevert::DoNothing, 1 => AccountInfoRevert::RevertTo(info_prev.clone()), _ => AccountInfoRevert::DeleteIt };
    let mut listed: HashMap<U256, RevertToSlot> = HashMap::default();
    let mut shr: [Option<U256>; 2] = [None, None];
    let mut i = 0;
    while i < 2 {
        if pr[i] == 1 {
            let v = any_u256();
            listed.insert(key(i), RevertToSlot::Some(v));
            shr[i] = Some(v);
        } else if pr[i] == 2 {
            listed.insert(key(i), RevertToSlot::Destroyed);
        }
        i += 1;
    }
    let rev = AccountRevert { account, storage: listed, previous_status: s_prev, wipe_storage: kani::any() };
    let removable = b.revert(rev);
    assert!(st_eq(b.status, s_prev));
    match kind {
        0 => assert!(oi_eq(&b.info, &info_now)),
        1 => assert!(b.info.is_some() && i_eq(b.info.as_ref().unwrap(), &info_prev)),
        _ => assert!(b.info.is_none()),
    }
    // only an account that did not exist before the bundle disappears from it
    assert!(removable == (kind == 2));
    let mut i = 0;
    while i < 2 {
        if pb[i] || pr[i] != 0 {
            let after = slot_of(&b.storage, i);
            if kind == 2 {
                assert!(after.is_none());
            } else if kind == 3 {
                // the account is deleted: every slot it held reads zero, the pre-bundle value is kept
                match shb[i] { Some((bo, _)) => assert!(slot_eq(after, Some((bo, U256::ZERO)))), None => assert!(after.is_none()) }
            } else {
                match (pr[i], shb[i]) {
                    // listed value: it is the present value again; the pre-bundle value is kept if the bundle knew it
                    (1, Some((bo, _))) => assert!(slot_eq(after, Some((bo, shr[i].unwrap())))),
                    (1, None) => assert!(slot_eq(after, Some((shr[i].unwrap(), shr[i].unwrap())))),
                    // the slot was created by the group: gone
                    (2, _) => assert!(after.is_none()),
                    // not listed: unchanged
                    (_, held) => assert!(slot_eq(after, held)),
                }
            }
        }
        i += 1;
    }
    kani::cover!(st_eq(s_prev, Changed));
}

macro_rules! revert_harness {
    ($name:ident, $unwind:expr, $e:expr, $k:expr, $a:expr, $b:expr) => {
        #[kani::proof]
        #[kani::unwind($unwind)]
        #[kani::stub(std::hash::RandomState::new, fixed_random_state)]
        fn $name() {
            check_revert($e, $k, $a, $b)
        }
    };
}
// instance names: revert_<kind>_<keys held by the bundle account>_<revert entries: 0 none, 1 Some(v), 2 Destroyed>
revert_harness!(revert_nothing_00_00, 34, true, 0, P00, [0, 0]);
revert_harness!(revert_to_00_00, 34, true, 1, P00, [0, 0]);
revert_harness!(revert_delete_absent_00_00, 34, true, 2, P00, [0, 0]);
revert_harness!(revert_delete_existing_00_00, 34, true, 3, P00, [0, 0]);

macro_rules! roundtrip {
    ($name:ident, $sb:expr, $st:expr, $flag:expr, $exo:expr, $same:expr) => {
        #[kani::proof]
        #[kani::unwind(34)]
        #[kani::stub(std::hash::RandomState::new, fixed_random_state)]
        #[kani::stub(revm_interpreter::primitives::Bytecode::new, bytecode_new_stub)]
        fn $name() {
            check_roundtrip($sb, $st, $flag, $exo, $same)
        }
    };
}
// ---- generated instances (gen_kstates.py) ----
// names: roundtrip_<status before>_<status after>[_w: the transition carries the wipe flag]_<keep|diff: info unchanged / changed; new|old: the
// account did not / did exist before the bundle (where it does not exist before the group)>
roundtrip!(roundtrip_lne_imc_new, LoadedNotExisting, InMemoryChange, false, false, false);
roundtrip!(roundtrip_lne_d_w_new, LoadedNotExisting, Destroyed, true, false, false);
roundtrip!(roundtrip_lne_dc_w_new, LoadedNotExisting, DestroyedChanged, true, false, false);
roundtrip!(roundtrip_lne_da_w_new, LoadedNotExisting, DestroyedAgain, true, false, false);
roundtrip!(roundtrip_l_imc_keep, Loaded, InMemoryChange, false, true, true);
roundtrip!(roundtrip_l_imc_diff, Loaded, InMemoryChange, false, true, false);
roundtrip!(roundtrip_l_c_keep, Loaded, Changed, false, true, true);
roundtrip!(roundtrip_l_c_diff, Loaded, Changed, false, true, false);
roundtrip!(roundtrip_l_d_w_diff, Loaded, Destroyed, true, true, false);
roundtrip!(roundtrip_l_dc_w_keep, Loaded, DestroyedChanged, true, true, true);
roundtrip!(roundtrip_l_dc_w_diff, Loaded, DestroyedChanged, true, true, false);
roundtrip!(roundtrip_l_da_w_diff, Loaded, DestroyedAgain, true, true, false);
roundtrip!(roundtrip_le_imc_keep, LoadedEmptyEIP161, InMemoryChange, false, true, true);
roundtrip!(roundtrip_le_imc_diff, LoadedEmptyEIP161, InMemoryChange, false, true, false);
roundtrip!(roundtrip_le_d_w_diff, LoadedEmptyEIP161, Destroyed, true, true, false);
roundtrip!(roundtrip_le_dc_w_keep, LoadedEmptyEIP161, DestroyedChanged, true, true, true);
roundtrip!(roundtrip_le_dc_w_diff, LoadedEmptyEIP161, DestroyedChanged, true, true, false);
roundtrip!(roundtrip_le_da_w_diff, LoadedEmptyEIP161, DestroyedAgain, true, true, false);
roundtrip!(roundtrip_imc_imc_keep, InMemoryChange, InMemoryChange, false, true, true);
roundtrip!(roundtrip_imc_imc_diff, InMemoryChange, InMemoryChange, false, true, false);
roundtrip!(roundtrip_imc_d_w_diff, InMemoryChange, Destroyed, true, true, false);
roundtrip!(roundtrip_imc_dc_w_keep, InMemoryChange, DestroyedChanged, true, true, true);
roundtrip!(roundtrip_imc_dc_w_diff, InMemoryChange, DestroyedChanged, true, true, false);
roundtrip!(roundtrip_imc_da_w_diff, InMemoryChange, DestroyedAgain, true, true, false);
roundtrip!(roundtrip_c_c_keep, Changed, Changed, false, true, true);
roundtrip!(roundtrip_c_c_diff, Changed, Changed, false, true, false);
roundtrip!(roundtrip_c_d_w_diff, Changed, Destroyed, true, true, false);
roundtrip!(roundtrip_c_dc_w_keep, Changed, DestroyedChanged, true, true, true);
roundtrip!(roundtrip_c_dc_w_diff, Changed, DestroyedChanged, true, true, false);
roundtrip!(roundtrip_c_da_w_diff, Changed, DestroyedAgain, true, true, false);
roundtrip!(roundtrip_d_dc_new, Destroyed, DestroyedChanged, false, false, false);
roundtrip!(roundtrip_d_dc_old, Destroyed, DestroyedChanged, false, true, false);
roundtrip!(roundtrip_d_dc_w_new, Destroyed, DestroyedChanged, true, false, false);
roundtrip!(roundtrip_d_dc_w_old, Destroyed, DestroyedChanged, true, true, false);
roundtrip!(roundtrip_d_da_w_new, Destroyed, DestroyedAgain, true, false, false);
roundtrip!(roundtrip_d_da_w_old, Destroyed, DestroyedAgain, true, true, false);
roundtrip!(roundtrip_dc_dc_keep, DestroyedChanged, DestroyedChanged, false, true, true);
roundtrip!(roundtrip_dc_dc_diff, DestroyedChanged, DestroyedChanged, false, true, false);
roundtrip!(roundtrip_dc_dc_w_keep, DestroyedChanged, DestroyedChanged, true, true, true);
roundtrip!(roundtrip_dc_dc_w_diff, DestroyedChanged, DestroyedChanged, true, true, false);
roundtrip!(roundtrip_dc_da_w_diff, DestroyedChanged, DestroyedAgain, true, true, false);
roundtrip!(roundtrip_da_dc_new, DestroyedAgain, DestroyedChanged, false, false, false);
roundtrip!(roundtrip_da_dc_old, DestroyedAgain, DestroyedChanged, false, true, false);
roundtrip!(roundtrip_da_dc_w_new, DestroyedAgain, DestroyedChanged, true, false, false);
roundtrip!(roundtrip_da_dc_w_old, DestroyedAgain, DestroyedChanged, true, true, false);
roundtrip!(roundtrip_da_da_w_new, DestroyedAgain, DestroyedAgain, true, false, false);
roundtrip!(roundtrip_da_da_w_old, DestroyedAgain, DestroyedAgain, true, true, false);
