#!/usr/bin/env python3
"""Regenerates the round-trip instance list at the end of src/c17.rs and kstates_instances.json.
One instance per (sb, st, flag) = (status of the bundle account, status the transition ends in, its wipe flag) reachable
by ANY finite sequence of legal events from sb (closure of the step table of units/prelude/acctstatus_lemmas.rs, the
same table as src/common.rs `step`), x (the account existed before the bundle or not -- only where sb says it does not
exist now) x (the info stays the same / changes -- only where it exists before and after)."""
import json, os
S = ['LoadedNotExisting', 'Loaded', 'LoadedEmptyEIP161', 'InMemoryChange', 'Changed', 'Destroyed', 'DestroyedChanged', 'DestroyedAgain']
AB = dict(zip(S, ['lne', 'l', 'le', 'imc', 'c', 'd', 'dc', 'da']))
ex = lambda s: s in ('Loaded', 'LoadedEmptyEIP161', 'InMemoryChange', 'Changed', 'DestroyedChanged')
de = lambda s: s in ('Destroyed', 'DestroyedChanged', 'DestroyedAgain')
E = ['Created', 'Selfdestructed', 'TouchedEmptyPost161', 'TouchedCreatedPre161', 'ChangedT', 'ChangedF']
def legal(s, e): return not (s in ('Loaded', 'Changed') and e in ('TouchedEmptyPost161', 'TouchedCreatedPre161'))
def produces(s, e):
    if e == 'Selfdestructed': return s != 'LoadedNotExisting'
    if e == 'TouchedEmptyPost161': return ex(s)
    if e == 'TouchedCreatedPre161': return s != 'LoadedEmptyEIP161'
    return True
def legal_c(s, e): return legal(s, e) and produces(s, e) and not (s == 'Changed' and e == 'Created')
def step(s, e):
    d = de(s)
    if e == 'Created': return 'DestroyedChanged' if d else 'InMemoryChange'
    if e == 'Selfdestructed': return s if s == 'LoadedNotExisting' else ('DestroyedAgain' if d else 'Destroyed')
    if e == 'TouchedEmptyPost161': return s if not ex(s) else ('DestroyedAgain' if d else 'Destroyed')
    if e == 'TouchedCreatedPre161': return s if s == 'LoadedEmptyEIP161' else ('DestroyedChanged' if d else 'InMemoryChange')
    if d: return 'DestroyedChanged'
    if s == 'Changed' or (s == 'Loaded' and e == 'ChangedF'): return 'Changed'
    return 'InMemoryChange'
def wipes(s, e):
    if e == 'Selfdestructed': return s != 'LoadedNotExisting'
    if e == 'TouchedEmptyPost161': return ex(s)
    return False
triples = set()
for sb in S:
    seen, todo = set(), [(sb, False, 0)]
    while todo:
        s, f, n = todo.pop()
        for e in E:
            if legal_c(s, e):
                k = (step(s, e), f or wipes(s, e))
                if k not in seen:
                    seen.add(k); todo.append((k[0], k[1], n + 1))
    triples |= {(sb, st, f) for (st, f) in seen}
QUICK = {'roundtrip_c_c_keep', 'roundtrip_l_dc_w_diff', 'roundtrip_dc_da_w_diff', 'roundtrip_d_dc_new'}
d = os.path.dirname(os.path.abspath(__file__))
p = os.path.join(d, 'src', 'c17.rs')
s = open(p).read()
mark = '// ---- generated instances (gen_kstates.py) ----\n'
out, quick, thorough = [s[:s.index(mark) + len(mark)]], [], []
out.append('// names: roundtrip_<status before>_<status after>[_w: the transition carries the wipe flag]_<keep|diff: info unchanged / changed; new|old: the\n'
           '// account did not / did exist before the bundle (where it does not exist before the group)>\n')
for (sb, st, f) in sorted(triples, key=lambda t: (S.index(t[0]), S.index(t[1]), t[2])):
    variants = []
    if ex(sb) and ex(st): variants = [('keep', True, True), ('diff', True, False)]
    elif sb == 'LoadedNotExisting': variants = [('new', False, False)]
    elif not ex(sb): variants = [('new', False, False), ('old', True, False)]
    else: variants = [('diff', True, False)]
    for (tag, exo, same) in variants:
        name = f"roundtrip_{AB[sb]}_{AB[st]}{'_w' if f else ''}_{tag}"
        out.append(f"roundtrip!({name}, {sb}, {st}, {str(f).lower()}, {str(exo).lower()}, {str(same).lower()});\n")
        (quick if name in QUICK else thorough).append(name)
open(p, 'w').write(''.join(out))
assert len(quick) == len(QUICK), quick
json.dump({'quick': quick, 'thorough': thorough}, open(os.path.join(d, 'kstates_instances.json'), 'w'), indent=0)
print(len(triples), len(quick), len(thorough))
